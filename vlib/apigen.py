"""S-api: feedback-driven API histories on the real code with online property
oracles; the transcript is afterwards replayed through the Lean model."""
import unicodedata

from . import spec
from .suites import hx, RuleIndex

EPOCH, STEP = spec.EPOCH, spec.TIME_STEP
FNV = 0x100000001b3
M64 = (1 << 64) - 1


def splitmix_next(s):
    s = (s + 0x9E3779B97F4A7C15) & M64
    z = s
    z = ((z ^ (z >> 30)) * 0xBF58476D1CE4E5B9) & M64
    z = ((z ^ (z >> 27)) * 0x94D049BB133111EB) & M64
    return s, z ^ (z >> 31)


def stub_kdf(key, pw, salt, iters, keylen):
    """the harness's deterministic stand-in for PBKDF2 (harness/drv.c: stub_kdf)"""
    h = 0xcbf29ce484222325 ^ key
    for b in pw:
        h = ((h ^ b) * FNV) & M64
    h = ((h ^ 0xff) * FNV) & M64
    for b in salt:
        h = ((h ^ b) * FNV) & M64
    h = ((h ^ iters) * FNV) & M64
    h = ((h ^ keylen) * FNV) & M64
    out = []
    s = h
    for _ in range(keylen):
        s, z = splitmix_next(s)
        out.append(z & 255)
    return bytes(out)


def nfkd(b):
    try:
        return unicodedata.normalize('NFKD', b.decode('utf-8')).encode('utf-8')
    except UnicodeDecodeError:
        return b


def nfc(b):
    try:
        return unicodedata.normalize('NFC', b.decode('utf-8')).encode('utf-8')
    except UnicodeDecodeError:
        return b


def strip_marks(b):
    try:
        return ''.join(c for c in b.decode('utf-8') if not unicodedata.combining(c)).encode('utf-8')
    except UnicodeDecodeError:
        return b


PASSWORDS = [b'', b'password', b'a', b'correct horse battery staple', 'pässwörd'.encode(), unicodedata.normalize('NFD', 'pässwörd').encode(),
             'ﬁ Ω ｶ'.encode(), '日本語のパスワード'.encode(), 'ｱｲｳ'.encode(), b'x' * 358, b'x' * 359, b'x' * 360, b'x' * 400,
             ('é' * 180).encode(), b'\xff\xfe', b'abc\x80', 'Å'.encode(), 'Å'.encode(), 'Å'.encode(),
             # compatibility decompositions below U+00C0 and elsewhere: NFKD differs from the bytes given although no letter is accented
             'pass²'.encode(), 'a\u00a0b'.encode(), 'ª º µ'.encode(), '¼½¾'.encode(), '´¨¸¯'.encode(), 'x\u2003y\u3000z'.encode(), 'Ⅳ ㎏ ＡＢＣ'.encode(),
             '\u00b2'.encode(), 'ǆ ĳ ŀ'.encode(), '가각'.encode(), unicodedata.normalize('NFD', '가각').encode()]


class ApiGen:
    def __init__(self, ctx, sess, rnd):
        self.ctx = ctx
        self.s = sess
        self.rnd = rnd
        self.L = ctx.langs
        self.nl = self.L.n
        self.viol = []
        self.slots = {}       # k -> fields dict
        self.mask = 0
        self.kdfkey = 1
        self.deps = None
        self.hist = {}
        self.strsize = self.L.consts['STR_SIZE']
        self.busy = set()
        # rule indices and near-common word sets are expensive: shared by all sessions of a check
        if not hasattr(ctx, '_apicache'):
            ctx._apicache = {}
        self._rule = ctx._apicache

    def accepted_for(self, li, tok):
        """indices the matcher's (proven) rule accepts the NFKD token for"""
        if li not in self._rule:
            self._rule[li] = RuleIndex(self.L.langs[li], self.L.words(li), code=True)
        return self._rule[li].candidates(nfkd(tok))

    # ------------------------------------------------------------ reporting
    def report(self, prop, key, msg):
        if len(self.viol) < 200:
            self.viol.append((prop, key, msg, list(self.s.script)))

    def count(self, k):
        self.hist[k] = self.hist.get(k, 0) + 1

    # ------------------------------------------------------------ primitives
    def expected_wipes(self, o):
        """C16: the stack temporaries each function must wipe over their FULL size (sizes from the tree's constants)"""
        c = self.L.consts
        POLY, STR, PHR, IDX = c['SIZEOF_POLY'], c['STR_SIZE'], c['SIZEOF_PHRASE'], c.get('SIZEOF_IDX', 128)
        k = o.head.split()[0]
        st = o.kv('st')
        if k == 'create':
            return [POLY] if st == '0' else []
        if k == 'encode':
            return [POLY, STR]
        if k in ('decode', 'decoden'):
            return [STR, PHR, POLY] + ([IDX] if st != '1' else [])
        if k == 'decodex':
            return [STR, PHR, POLY]
        if k == 'crypt':
            return [POLY, 32, STR]
        if k == 'load':
            return None if st in ('5', '6') else [POLY]
        if k in ('keygen', 'store', 'free', 'birthday', 'feature', 'isenc'):
            return []
        return None

    def op(self, line):
        o = self.s.op(line)
        if o is not None and o.head != 'skip' and o.result is not None:
            exp = self.expected_wipes(o)
            if exp is not None:
                import re
                got = sorted(int(re.search(r'len=(\d+)', e).group(1)) for e in o.events if e.startswith('E zero') and ' stack ' in e)
                # judged by the total (a refactoring may split or merge temporaries): fewer bytes wiped than the temporaries hold
                if sum(got) < sum(exp):
                    self.report('C16', 'wipe-sizes:' + o.head.split()[0], '"%s" wiped %d bytes of stack temporaries through the injected wipe (sizes %s); the temporaries of the modelled function hold %d bytes (sizes %s): theorems C16.create_wipes / encode_wipes / decode_wipes / decodeExplicit_wipes / crypt_wipes / load_wipes no longer describe the code' % (o.head[:120], sum(got), got, sum(exp), sorted(exp)))
        if o is not None:
            for e in o.events:
                if e.startswith('E free') and e.endswith('zeroed=0'):
                    self.report('C16', 'free-unwiped:' + o.head.split()[0], 'during "%s" a block was handed to the injected free without having been wiped: %s' % (o.head[:100], e))
            self.count(o.head.split()[0] + ('/st=' + o.kv('st') if o.kv('st') is not None else ''))
            for c in o.complaints:
                # direct observations of the harness on the real code
                p = 'C14'
                if 'free' in c or 'seed_out' in c:
                    p = 'C15'
                self.report(p, 'harness:' + c.split()[1], 'harness observed: %s at op "%s"' % (c, o.head[:120]))
        return o

    def inject(self, ids=None):
        ids = ids or [11, 12, 13, 14, 15, 16, 17, 18]
        self.deps = ids
        return self.op('inject ' + ' '.join(map(str, ids)))

    def free_slot(self):
        for k in range(16):
            if k not in self.slots:
                return k
        # never evict the seed the running probe works on
        k = self.rnd.choice([x for x in range(16) if x not in self.busy] or list(range(16)))
        self.free(k)
        return k

    def dump(self, k):
        o = self.op('dump %d' % k)
        if o is None or o.head == 'skip':
            return None
        f = dict(b=int(o.kv('b')), f=int(o.kv('f')), secret=bytes.fromhex(o.kv('secret')), chk=int(o.kv('chk')), block=o.head.split()[1])
        self.slots[k] = f
        return f

    def check_canon(self, f, how):
        """C13: every seed the library hands out is canonical"""
        sec = f['secret']
        msg = None
        if len(sec) != 32 or any(sec[19:]):
            msg = 'padding bytes 19..31 of the secret are not zero'
        elif sec[18] >= 64:
            msg = 'secret exceeds 150 bits (byte 18 = %02x)' % sec[18]
        elif f['b'] >= 1024 or f['f'] >= 32:
            msg = 'birthday/features out of range (%d, %d)' % (f['b'], f['f'])
        elif f['chk'] != spec.checksum(list(sec[:19]), f['b'], f['f']):
            msg = 'check value %d is not the check value of the data (%d)' % (f['chk'], spec.checksum(list(sec[:19]), f['b'], f['f']))
        if msg:
            self.report('C13', 'canon:' + how, 'seed handed out by %s is not canonical: %s [secret=%s b=%d f=%d chk=%d]' % (how, msg, sec.hex(), f['b'], f['f'], f['chk']))
        return msg is None

    def supported(self, f):
        return (f & 31 & ~(self.mask | 16)) == 0

    def create(self, feat=None, t=None, rand=None, fail=False):
        k = self.free_slot()
        r = self.rnd
        if feat is None:
            feat = r.choice([0, 0, 0, self.mask, r.randrange(8), r.randrange(8) | (r.randrange(2 ** 29) << 3)])
        if t is None and r.random() < 0.7:
            t = r.choice([EPOCH + r.randrange(1024 * STEP), EPOCH + r.randrange(1024) * STEP, EPOCH + r.randrange(1, 1025) * STEP - 1,
                          EPOCH - 1, 0, 2 ** 64 - 1, 2 ** 32 + 5, EPOCH + 1024 * STEP + r.randrange(10 ** 9),
                          # word-size boundaries of the clock value (a 32-bit time_t, the sign bit, all-ones in one half)
                          r.choice([2 ** 31 - 1, 2 ** 31, 2 ** 32 - 1, 2 ** 32, 2 ** 32 + 1, 2 ** 33 - 1, (r.randrange(1, 2 ** 31) << 32) | 0xFFFFFFFF,
                                    r.randrange(2 ** 32) << 32, 2 ** 63 - 1, 2 ** 63, 2 ** 64 - 2, (2 ** 32 - 1) << 32])])
        if rand is None and r.random() < 0.7:
            rand = bytes(r.choice([[r.randrange(256) for _ in range(19)], [255] * 19, [0] * 19,
                                   [0] * 18 + [r.choice([0x40, 0x80, 0xC0, 0x3F, 0xFF])], [r.randrange(256) for _ in range(18)] + [r.choice([0xC0, 0xFF, 0x7F])]]))
        if t is not None:
            self.s.directive('!time %d' % t)
        if rand is not None:
            self.s.directive('!rand ' + rand.hex())
        if fail:
            self.s.directive('!failalloc 0')
        o = self.op('create %d %d' % (k, feat))
        if fail:
            self.s.directive('!failalloc -1')
        if o is None or o.head == 'skip' or o.kv('st') is None:
            return None
        st = int(o.kv('st'))
        if st == 0:
            self.slots[k] = dict(b=0, f=0, secret=bytes(32), chk=0, block=o.kv('seed'))   # occupied whatever the oracles say; refreshed by dump below
        exp_unsupported = ((feat & 7) & ~self.mask) != 0
        ev = [e.split()[1] for e in o.events]
        if exp_unsupported:
            if st != 4:
                self.report('C10', 'create', 'create(features=%d) with user mask %d enabled returned %d, expected unsupported (4)' % (feat, self.mask, st))
                self.report('C13', 'create-mask', 'after the enabling calls so far the abstract model has user mask %d, but create(features=%d) returned %d' % (self.mask, feat, st))
                if st == 0:
                    self.dump(k)
            if ev.count('alloc') - sum(1 for e in o.events if 'ret=null' in e) != ev.count('free'):
                self.report('C15', 'create-unsupported-leak', 'create refused for features took %d block(s) from the allocator and returned %d: %s' % (
                    ev.count('alloc') - sum(1 for e in o.events if 'ret=null' in e), ev.count('free'), o.events))
        elif fail:
            # judged by what happened: the allocator did fail during this call
            if any('ret=null' in e for e in o.events) and st != 6:
                self.report('C15', 'create-alloc-fail', 'the allocator failed during create, which returned %d, expected the memory status (6)' % st)
            if not any('ret=null' in e for e in o.events) and st == 0 and 'alloc' not in ev:
                self.report('C15', 'create-alloc-fail', 'create returned a seed without taking a block from the injected allocator')
        else:
            if st != 0:
                self.report('C10', 'create', 'create(features=%d) with user mask %d returned %d, expected OK' % (feat, self.mask, st))
            else:
                # C18: 19 bytes from the injected random source, the injected clock; order and further wipes are not constrained
                if ev.count('rand') != 1 or ev.count('time') < 1 or ev.count('alloc') < 1:
                    self.report('C18', 'create-events', 'create called its dependencies as %s, expected one request to the random source, the clock and the allocator' % ev)
                f = self.dump(k)
                if f:
                    self.check_canon(f, 'create')
                    rnd_ev = [e for e in o.events if e.startswith('E rand')]
                    tim_ev = [e for e in o.events if e.startswith('E time')]
                    if rnd_ev:
                        import re
                        n = int(re.search(r'n=(\d+)', rnd_ev[0]).group(1))
                        out = bytes.fromhex(re.search(r'out=(\S+)', rnd_ev[0]).group(1).replace('-', ''))
                        expsec = out[:18] + bytes([out[18] & 0x3F]) if len(out) >= 19 else None
                        if n != 19 or expsec is None or f['secret'][:19] != expsec:
                            self.report('C18', 'create-secret', 'create asked for %d random bytes %s but the secret is %s' % (n, out.hex(), f['secret'][:19].hex()))
                    if tim_ev:
                        import re
                        tt = int(re.search(r't=(\d+)', tim_ev[0]).group(1))
                        want = str((getattr(self, 'deps', None) or [0] * 6)[5] or 1001)
                        got = tim_ev[0].split()[2].split('=')[-1]
                        if getattr(self, 'deps', None) and got != want:
                            # the creation time of the statement is what the clock IN FORCE says (the entry of the last injection, libc time when it was NULL)
                            self.report('C11', 'create-stale-clock', 'create took the birthday from clock %s, but the clock in force since the last injection is %s: the reported birthday is unrelated to the creation time' % (got, want))
                            self.report('C18', 'create-stale-clock', 'create consulted clock %s, the last injection installed %s' % (got, want))
                        if f['b'] != spec.birthday_of(tt):
                            self.report('C11', 'create-birthday', 'create at clock %d stored birthday index %d, expected %d' % (tt, f['b'], spec.birthday_of(tt)))
                            if not any(f['b'] == spec.birthday_of(int(re.search(r't=(\d+)', e).group(1))) for e in tim_ev):
                                self.report('C18', 'create-clock', 'the birthday index %d of the created seed does not come from the injected clock (it returned %s)' % (
                                    f['b'], [int(re.search(r't=(\d+)', e).group(1)) for e in tim_ev]))
                        B = EPOCH + f['b'] * STEP
                        if EPOCH <= tt < 2 ** 64 - 1 and B > tt:
                            self.report('C11', 'create-future', 'created at t=%d, reports birthday %d > t' % (tt, B))
                    if f['f'] != (feat & 7):
                        self.report('C10', 'create-features', 'create(%d) stored feature bits %d' % (feat, f['f']))
        return k if st == 0 else None

    def free(self, k):
        if k not in self.slots:
            return
        blk = self.slots[k]['block']
        o = self.op('free %d' % k)
        del self.slots[k]
        if o is None or o.head == 'skip':
            return
        ev = [' '.join(e.split()[1:]) for e in o.events]
        fr = [i for i, e in enumerate(o.events) if e.startswith('E free')]
        ok = (len(fr) == 1 and (' %s ' % blk) in o.events[fr[0]] and o.events[fr[0]].endswith('zeroed=1')
              and any(e.startswith('E zero') and ((' %s ' % blk) in e + ' ' or (' inside-%s ' % blk) in e + ' ') for e in o.events[:fr[0]]))
        if not ok:
            self.report('C16' if any('zeroed=0' in e for e in o.events) or not any(e.startswith('E zero') for e in o.events) else 'C15',
                        'free-events', 'freeing %s produced %s, expected wipe of the block followed by exactly one free of it' % (blk, ev))

    def features(self, m):
        o = self.op('features %d' % m)
        if o is None:
            return
        self.mask = m & 7
        if o.kv('n') != str(bin(m & 7).count('1')):
            self.report('C10', 'enable-return', 'enable_features(%d) returned %s' % (m, o.kv('n')))

    def store(self, k):
        o = self.op('store %d' % k)
        if o is None or o.head == 'skip':
            return None
        buf = bytes.fromhex(o.kv('buf'))
        f = self.slots[k]
        try:
            exp = spec.storage(list(f['secret'][:19]), f['b'], f['f'], f['chk'])
        except (ValueError, OverflowError):
            # the seed holds field values no published image can carry (reported as non-canonical where it was handed out)
            exp = None
        if exp is not None and buf != exp:
            self.report('C06', 'store-bytes', 'store gives %s, the published format of this seed is %s' % (buf.hex(), exp.hex()))
        return buf

    def encode(self, k, li, coin):
        o = self.op('encode %d %d %d' % (k, li, coin))
        if o is None or o.head == 'skip':
            return None
        s = bytes.fromhex(o.kv('str').replace('-', ''))
        size = int(o.kv('size'))
        f = self.slots[k]
        if size != len(s):
            self.report('C17', 'encode-size', 'encode returned %d but the NUL-terminated output has %d bytes' % (size, len(s)))
        if len(s) >= self.strsize:
            self.report('C17', 'encode-len', 'encoded phrase has %d bytes, not shorter than POLYSEED_STR_SIZE=%d' % (len(s), self.strsize))
        p = spec.poly(list(f['secret'][:19]), f['b'], f['f'], coin)
        p[0] = f['chk']
        exp = self.L.phrase(li, p)
        if s != exp:
            self.report('C03', 'encode-phrase', 'lang %d coin %d: phrase %r differs from the published encoding %r' % (li, coin, s.decode('utf-8', 'replace'), exp.decode('utf-8', 'replace')))
        return s

    def decode(self, coin, s, li=None, want_lang=False):
        """returns (op, slot or None)"""
        k = self.free_slot()
        if li is None:
            o = self.op('%s %d %d %s' % ('decoden' if (not want_lang and self.rnd.random() < 0.3) else 'decode', k, coin, hx(s)))
        else:
            o = self.op('decodex %d %d %d %s' % (k, coin, li, hx(s)))
        if o is None or o.head == 'skip':
            return o, None
        if any(b >= 128 for b in s) and not any(e.startswith('E nfkd') for e in o.events):
            self.report('C18', 'nfkd-bypassed', 'decoding the non-ASCII phrase %s never called the injected NFKD function' % s.hex())
        if o.kv('st') == '0':
            f = self.dump(k)
            if f:
                self.check_canon(f, 'decode')
                if not self.supported(f['f']):
                    self.report('C10', 'decode-unsupported', 'decoder accepted a seed with feature bits %d while user mask %d is enabled' % (f['f'], self.mask))
            return o, k
        else:
            # C15: a failing call returns what it took
            a = [e for e in o.events if e.startswith('E alloc') and 'ret=b' in e]
            fr = [e for e in o.events if e.startswith('E free')]
            if len(a) != len(fr):
                self.report('C15', 'decode-leak', 'failing decode (status %s) allocated %d block(s) and freed %d' % (o.kv('st'), len(a), len(fr)))
        return o, None

    def load(self, buf):
        k = self.free_slot()
        o = self.op('load %d %s' % (k, buf.hex()))
        if o is None or o.head == 'skip':
            return o, None
        if o.kv('st') == '0':
            f = self.dump(k)
            if f:
                self.check_canon(f, 'load')
                if not self.supported(f['f']):
                    self.report('C10', 'load-unsupported', 'load accepted feature bits %d while user mask %d is enabled' % (f['f'], self.mask))
                if spec.storage(list(f['secret'][:19]), f['b'], f['f'], f['chk']) != buf:
                    self.report('C06', 'load-noncanonical', 'load accepted %s which is not the serialization of the seed it produced' % buf.hex())
            return o, k
        a = [e for e in o.events if e.startswith('E alloc') and 'ret=b' in e]
        fr = [e for e in o.events if e.startswith('E free')]
        if len(a) != len(fr):
            self.report('C15', 'load-leak', 'failing load (status %s) allocated %d block(s) and freed %d' % (o.kv('st'), len(a), len(fr)))
        return o, None

    def crypt(self, k, pw):
        before = dict(self.slots[k])
        o = self.op('crypt %d %s' % (k, hx(pw)))
        if o is None or o.head == 'skip':
            return None
        f = self.dump(k)
        if f is None:
            return None
        self.check_canon(f, 'crypt')
        kd = [e for e in o.events if e.startswith('E kdf')]
        import re
        if len(kd) != 1:
            self.report('C12', 'crypt-kdf-count', 'crypt called the KDF %d times' % len(kd))
        else:
            m = re.search(r'pw=(\S+) salt=(\S+) iters=(\d+) keylen=(\d+) out=(\S+)', kd[0])
            pwb = bytes.fromhex(m.group(1).replace('-', ''))
            salt = bytes.fromhex(m.group(2))
            out = bytes.fromhex(m.group(5))
            # expected password bytes: NFKD of the password if it contains non-ASCII (as normalised by the injected function), else the bytes
            if all(b < 128 for b in pw[:self.strsize - 1]):
                exp_pw = pw[:self.strsize - 1]
            else:
                nf = [e for e in o.events if e.startswith('E nfkd')]
                exp_pw = bytes.fromhex(re.search(r'out=(\S+)', nf[0]).group(1).replace('-', '')) if nf else None
                if not nf:
                    # C18: the library may skip the injected normaliser only where the dependency contract makes it the identity (pure ASCII)
                    self.report('C18', 'nfkd-bypassed', 'crypt with the non-ASCII password %s never called the injected NFKD function: the bytes went to the KDF normalised by the library itself' % pw.hex())
            if exp_pw is not None and pwb != exp_pw:
                self.report('C12', 'crypt-kdf-pw', 'crypt passed password bytes %s to the KDF, expected the NFKD form %s' % (pwb.hex(), exp_pw.hex()))
            if salt != spec.CRYPT_SALT or m.group(3) != '10000' or m.group(4) != '32':
                self.report('C12', 'crypt-kdf-args', 'crypt KDF salt/iterations/length = %s/%s/%s' % (salt.hex(), m.group(3), m.group(4)))
            sec = bytes(a ^ b for a, b in zip(before['secret'][:19], out[:19]))
            sec = sec[:18] + bytes([sec[18] & 0x3F])
            if f['secret'][:19] != sec:
                self.report('C12', 'crypt-mask', 'secret after crypt is %s, expected old XOR mask[0..18] (top two bits dropped) = %s' % (f['secret'][:19].hex(), sec.hex()))
        if f['b'] != before['b'] or (f['f'] ^ before['f']) != 16:
            self.report('C12', 'crypt-flags', 'crypt changed birthday/features from (%d,%d) to (%d,%d)' % (before['b'], before['f'], f['b'], f['f']))
        return f

    def keygen(self, k, coin, n):
        o = self.op('keygen %d %d %d' % (k, coin, n))
        if o is None or o.head == 'skip':
            return None
        f = self.slots[k]
        import re
        kd = [e for e in o.events if e.startswith('E kdf')]
        if len(kd) != 1:
            self.report('C04', 'keygen-events', 'keygen made dependency calls %s, expected exactly one KDF call' % [e.split()[1] for e in o.events])
            return o
        m = re.search(r'pw=(\S+) salt=(\S+) iters=(\d+) keylen=(\d+) out=(\S+)', kd[0])
        pw = bytes.fromhex(m.group(1).replace('-', ''))
        salt = bytes.fromhex(m.group(2).replace('-', ''))
        exp_pw = f['secret'][:19] + bytes(13)
        exp_salt = spec.keygen_salt(coin, f['b'], f['f'])
        if pw != exp_pw:
            self.report('C04', 'keygen-pw', 'KDF password is %s, expected the 19 secret bytes zero-padded to 32: %s' % (pw.hex(), exp_pw.hex()))
        if salt != exp_salt:
            self.report('C04', 'keygen-salt', 'KDF salt is %s, expected %s' % (salt.hex(), exp_salt.hex()))
        if m.group(3) != '10000' or int(m.group(4)) != n:
            self.report('C04', 'keygen-args', 'KDF iterations/keylen = %s/%s, expected 10000/%d' % (m.group(3), m.group(4), n))
        out = m.group(5).replace('-', '')
        if (o.kv('key') or '').replace('-', '') != out:
            self.report('C04', 'keygen-key', 'key buffer after keygen (%s) is not what the KDF wrote (%s)' % (o.kv('key'), out))
        return o

    # ------------------------------------------------------------ phrase tools
    def tokens(self, li, p):
        return [self.L.words(li)[c] for c in p]

    def render(self, li, toks, form=None, sep=None):
        Lg = self.L.langs[li]
        if sep is None:
            sep = Lg['separator']
        s = sep.join(toks)
        if form == 'nfc':
            s = nfc(s)
        elif form == 'nfd':
            s = nfkd(s)
        return s

    def seed_poly(self, k, coin):
        f = self.slots[k]
        p = spec.poly(list(f['secret'][:19]), f['b'], f['f'], coin)
        p[0] = f['chk']
        return p

    def same_seed(self, a, b):
        return a['b'] == b['b'] and a['f'] == b['f'] and a['secret'] == b['secret'] and a['chk'] == b['chk']

    # ------------------------------------------------------------ probes
    def ambiguous_with(self, li, s):
        """languages other than li whose lists recognise every token of phrase s (by the matcher's proven rule)"""
        toks = nfkd(s).split(b' ')
        return [lj for lj in range(self.nl) if lj != li and all(self.accepted_for(lj, t) for t in toks)]

    def probe_roundtrip(self, k, li=None, coin=None):
        r = self.rnd
        if li is None:
            li = r.randrange(self.nl)
        if coin is None:
            coin = r.choice([0, 1, 2, 2047, r.randrange(2048)])
        f = dict(self.slots[k])
        s = self.encode(k, li, coin)
        if s is None:
            return
        o, k2 = self.decode(coin, s, li)
        if o is None:
            return
        if k2 is None:
            if not (o.kv('st') == '4' and not self.supported(f['f'])):
                self.report('C01', 'roundtrip-explicit', 'decode_explicit(encode(seed), lang %d, coin %d) returned status %s' % (li, coin, o.kv('st')))
        else:
            if not self.same_seed(self.slots[k2], f):
                self.report('C01', 'roundtrip-seed', 'lang %d coin %d: decoded seed differs from the encoded one' % (li, coin))
            b1, b2 = self.store(k), self.store(k2)
            if b1 != b2:
                self.report('C01', 'roundtrip-store', 'serialized bytes differ after the round trip')
            n = r.choice([32, 16, 64, 1, 32, 2 ** 32 + 32, 2 ** 32, 2 ** 63 + 1])
            k1o, k2o = self.keygen(k, coin, n), self.keygen(k2, coin, n)
            if k1o and k2o and k1o.events != k2o.events:
                self.report('C04', 'keygen-path', 'KDF inputs of the decoded seed differ from those of the original: %s vs %s' % (k1o.events, k2o.events))
            self.free(k2)
        o, k3 = self.decode(coin, s, want_lang=True)
        if o is None:
            return
        if k3 is None:
            if o.kv('st') == '7':
                self.count('auto/multlang')
                if not self.ambiguous_with(li, s):
                    self.report('C01', 'roundtrip-auto-multlang', 'auto-detection reported multiple languages for a phrase encoded in language %d although no other list recognises all of its words: %r' % (li, s.decode('utf-8', 'replace')))
            elif not (o.kv('st') == '4' and not self.supported(f['f'])):
                self.report('C01', 'roundtrip-auto', 'decode(encode(seed)) with auto-detection returned status %s (lang %d coin %d)' % (o.kv('st'), li, coin))
        else:
            if not self.same_seed(self.slots[k3], f):
                self.report('C01', 'roundtrip-auto-seed', 'auto-detected decode produced a different seed')
            if o.kv('lang') != str(li):
                self.report('C01', 'roundtrip-auto-lang', 'auto-detection reported language %s for a phrase encoded in language %d' % (o.kv('lang'), li))
            self.free(k3)

    def craft(self, li, pick, coin=0, chk_ok=None, tries=600):
        """a seed whose phrase in language li shows chosen words: pick(pos) gives the displayed word index for data
        position pos (1..15).  Feature bits are kept zero (even coefficients at positions 1-5).  Returns
        (secret19, birthday, features, displayed indices) or None."""
        for _ in range(tries):
            d = [pick(pos) for pos in range(1, 16)]
            cs = list(d)
            cs[0] ^= coin
            if any(c % 2 for c in cs[0:5]) or any(not (0 <= c < 2048) for c in cs):
                continue
            chk = spec.poly_eval([0] + cs)
            if chk_ok is not None and not chk_ok(chk):
                continue
            sec, b, f, _ = spec.unpack([0] + cs)
            return sec, b, f, [chk] + d
        return None

    def near_common(self, a, b):
        """words of language a that language b recognises once everything non-ASCII is dropped and 4-letter prefixes are
        allowed on both sides - a superset of what b really accepts"""
        key = ('near', a, b)
        if key not in self._rule:
            def asc(w):
                return bytes(c for c in w if c < 128)
            wb = [asc(w) for w in self.L.words(b)]
            full = set(wb)
            pre = {w[:n] for w in wb for n in range(4, len(w) + 1)}
            out = []
            for i, w in enumerate(self.L.words(a)):
                t = asc(w)
                if t in full or (len(t) >= 4 and t in pre):
                    out.append(i)
            self._rule[key] = out
        return self._rule[key]

    def probe_crafted(self):
        """seeds chosen so that their phrases sit on the edges a random seed never reaches: words another list almost
        recognises; an accent only in the last / first word or only at the end of a word; boundary word indices; equal
        neighbouring words; longest and shortest words"""
        r = self.rnd
        kind = r.choice(['near', 'near', 'accent-edge', 'accent-edge', 'index-edge', 'equal', 'length'])
        coin = r.choice([0, 0, 2, 2046, 2 * r.randrange(1024)])
        li = r.randrange(self.nl)
        pick = None
        chk_ok = None
        if kind == 'near':
            accent = [i for i in range(self.nl) if self.L.langs[i]['accents']]
            prefix = [i for i in range(self.nl) if self.L.langs[i]['prefix']]
            if not accent or len(prefix) < 2:
                return
            li = r.choice(accent if r.random() < 0.7 else prefix)
            lb = r.choice([x for x in prefix if x != li])
            pool = self.near_common(li, lb)
            if len(pool) < 8:
                return
            even = [i for i in pool if ((i ^ coin) % 2 == 0)] or pool
            evn = [i for i in pool if i % 2 == 0] or pool
            # at least one word that the other list recognises ONLY when non-ASCII bytes are ignored
            wl = self.L.words(li)
            marked = [i for i in pool if any(c >= 128 for c in wl[i])] or pool
            where = r.randrange(6, 16)
            pick = lambda pos: r.choice(even if pos == 1 else evn if pos <= 5 else marked if pos == where else pool)
            ps = set(pool)
            chk_ok = lambda c: c in ps
        elif kind == 'accent-edge':
            comp = [i for i in range(self.nl) if self.L.langs[i]['accents'] or self.L.langs[i]['compose']]
            if not comp:
                return
            li = r.choice(comp)
            words = self.L.words(li)
            plain = [i for i, w in enumerate(words) if all(c < 128 for c in w)]
            marked = [i for i, w in enumerate(words) if any(c >= 128 for c in w)]
            if len(plain) < 40 or not marked:
                # every word is non-ASCII (Japanese, Korean): the edge is which words change under NFC
                plain, marked = list(range(2048)), list(range(2048))
            tail = [i for i in marked if words[i][-1] >= 128] or marked
            head = [i for i in marked if words[i][0] >= 128] or marked
            where = r.choice([15, 15, 1, 6, r.randrange(1, 16)])
            special = r.choice([tail, tail, head, marked])
            def pick(pos, where=where, special=special):
                pool = special if pos == where else plain
                if pos <= 5:
                    pool = [i for i in pool if ((i ^ coin) if pos == 1 else i) % 2 == 0] or [i for i in plain if i % 2 == 0]
                return r.choice(pool)
            pl = set(plain)
            chk_ok = (lambda c: c in pl) if r.random() < 0.7 else None
        elif kind == 'index-edge':
            edge = [0, 2, 1022, 1023, 1024, 1026, 2046, 2047, 1, 1025]
            pick = lambda pos: r.choice([e for e in edge if pos > 5 or ((e ^ coin) if pos == 1 else e) % 2 == 0])
        elif kind == 'equal':
            base = 2 * r.randrange(1024)
            pick = lambda pos: (base ^ coin) if pos == 1 and ((base ^ coin) % 2 == 0) else base
        else:
            words = self.L.words(li)
            lens = sorted(set(len(w) for w in words))
            target = r.choice([lens[0], lens[-1]])
            pool = [i for i, w in enumerate(words) if len(w) == target]
            pe = [i for i in pool if i % 2 == 0] or [i for i in range(0, 2048, 2)]
            pick = lambda pos: r.choice([i for i in pe if ((i ^ coin) % 2 == 0)] or pe) if pos == 1 else r.choice(pe if pos <= 5 else pool)
        c = self.craft(li, pick, coin, chk_ok)
        if c is None:
            c = self.craft(li, pick, coin, None)
        if c is None:
            return
        sec, b, f, shown = c
        self.count('crafted/' + kind)
        o, k = self.load(spec.storage(sec, b, f))
        if o is None or k is None:
            return
        self.busy.add(k)
        self.probe_roundtrip(k, li, coin)
        # (a full slot table may have evicted the crafted seed in between)
        if r.random() < 0.4 and k in self.slots:
            self.probe_variants(k, li, coin)
        if k in self.slots:
            self.free(k)

    def probe_errors(self, k):
        """C02 / C05: substitutions, swaps, wrong coins"""
        r = self.rnd
        li = r.randrange(self.nl)
        coin = r.choice([0, 1, 2047, r.randrange(2048)])
        p = self.seed_poly(k, coin)
        toks = self.tokens(li, p)
        words = self.L.words(li)
        for _ in range(6):
            i = r.randrange(16)
            choices = [r.randrange(2048), p[i] ^ 1, p[i] ^ 1024, (p[i] + 1) % 2048, 0, 1024, 2047]
            v = r.choice(choices)
            if v == p[i] or words[v] == words[p[i]]:
                continue
            t2 = list(toks)
            t2[i] = words[v]
            armed = r.random() < 0.3
            if armed:
                self.s.directive('!failalloc 0')
            o, k2 = self.decode(coin, self.render(li, t2), r.choice([li, li, None]))
            if armed:
                self.s.directive('!failalloc -1')
            if o is None:
                return
            if o.kv('st') != '3' and not (o.kv('st') == '7'):
                self.report('C02', 'substitution', 'lang %d: word %d replaced (%d -> %d) and decoding%s returned %s, expected the checksum status' % (li, i + 1, p[i], v, ' (with an allocator that would fail)' if armed else '', o.kv('st')))
            if k2 is not None:
                self.free(k2)
        for _ in range(3):
            i, j = sorted(r.sample(range(16), 2))
            if p[i] == p[j]:
                continue
            t2 = list(toks)
            t2[i], t2[j] = t2[j], t2[i]
            armed = r.random() < 0.3
            if armed:
                self.s.directive('!failalloc 0')
            o, k2 = self.decode(coin, self.render(li, t2), r.choice([li, li, None]))
            if armed:
                self.s.directive('!failalloc -1')
            if o is None:
                return
            if o.kv('st') != '3' and not (o.kv('st') == '7'):
                self.report('C02', 'swap', 'lang %d: words %d and %d exchanged and decoding%s returned %s, expected the checksum status' % (li, i + 1, j + 1, ' (with an allocator that would fail)' if armed else '', o.kv('st')))
            if k2 is not None:
                self.free(k2)
        s = self.render(li, toks)
        for cb in [coin ^ 1, coin ^ 2047, (coin + 1) % 2048, 2047 - coin if 2047 - coin != coin else 5, r.randrange(2048), 0, 2047]:
            if cb == coin:
                continue
            armed = r.random() < 0.2
            if armed:
                self.s.directive('!failalloc 0')
            o, k2 = self.decode(cb, s, li)
            if armed:
                self.s.directive('!failalloc -1')
            if o is None:
                return
            if o.kv('st') != '3':
                self.report('C05', 'wrong-coin', 'lang %d: phrase for coin %d decoded for coin %d returned %s, expected the checksum status' % (li, coin, cb, o.kv('st')))
            if k2 is not None:
                self.free(k2)
        # the two phrases differ in the second word only
        ca = r.randrange(2048)
        if ca != coin:
            sa = self.encode(k, li, ca)
            sb = self.encode(k, li, coin)
            if sa is not None and sb is not None:
                sepn = nfc(self.L.langs[li]['separator']) if self.L.langs[li]['compose'] else self.L.langs[li]['separator']
                ta, tb = sa.split(sepn), sb.split(sepn)
                diff = [i for i in range(min(len(ta), len(tb))) if ta[i] != tb[i]]
                if len(ta) != 16 or len(tb) != 16 or diff != [1]:
                    self.report('C05', 'coin-word2', 'phrases for coins %d and %d differ at word positions %s, expected exactly the second word' % (ca, coin, [d + 1 for d in diff]))

    def variant_tokens(self, li, toks):
        """permitted variations (C08): abbreviation to >= 4 letters, accents dropped; returns (tokens, still_same)"""
        r = self.rnd
        Lg = self.L.langs[li]
        out = []
        for t in toks:
            u = t
            if Lg['prefix'] and r.random() < 0.6:
                chars = u.decode('utf-8')
                base = [i for i, c in enumerate(chars) if not unicodedata.combining(c)]
                if len(base) > 4:
                    nkeep = r.randrange(4, len(base) + 1)
                    if nkeep < len(base):
                        # cut before base letter number nkeep (keeps the accents of kept letters)
                        chars = chars[:base[nkeep]]
                        u = chars.encode('utf-8')
            if Lg['accents'] and r.random() < 0.5:
                chars = u.decode('utf-8')
                chars = ''.join(c for c in chars if not (unicodedata.combining(c) and r.random() < 0.7))
                u = chars.encode('utf-8')
            out.append(u)
        return out

    def probe_variants(self, k, li=None, coin=None):
        r = self.rnd
        if k not in self.slots:
            return
        if li is None:
            li = r.choice([i for i in range(self.nl)])
        if coin is None:
            coin = r.choice([0, 1, r.randrange(2048)])
        f = dict(self.slots[k])
        p = self.seed_poly(k, coin)
        toks = self.tokens(li, p)
        v = self.variant_tokens(li, toks)
        form = r.choice([None, 'nfc', 'nfd'])
        if self.L.langs[li]['accents'] and r.random() < 0.4:
            # the accent-insensitive matcher ignores every non-ASCII byte: explicit and automatic decoding must still agree
            j = r.randrange(16)
            stray = r.choice(['\ufeff', '\u65e5', '\u00b7', '\u200b']).encode()
            pos = r.choice([0, len(v[j]) // 2, len(v[j])])
            try:
                v[j][:pos].decode('utf-8')
                v[j] = v[j][:pos] + stray + v[j][pos:]
                form = None
            except UnicodeDecodeError:
                pass
        # separators: the language's own, a plain space, and (rarely) other spaces that NFKD turns into a plain space -
        # for those only the model decides, no property says they must be accepted
        sep = r.choice([None, None, None, b' ', b' ', '\u00a0'.encode(), '\u3000'.encode(), '\u2003'.encode()])
        stated = sep in (None, b' ')
        s = self.render(li, v, form=form, sep=sep)
        if r.random() < 0.3:
            s += b' '
        o, k2 = self.decode(coin, s, li)
        if o is None:
            return
        if k2 is None:
            if stated and not (o.kv('st') == '4' and not self.supported(f['f'])):
                self.report('C08', 'variant-rejected', 'lang %d: phrase altered only by permitted abbreviation/accent dropping/%s form returned status %s: %r' % (li, form, o.kv('st'), s.decode('utf-8', 'replace')))
        else:
            if not self.same_seed(self.slots[k2], f):
                self.report('C08', 'variant-seed', 'lang %d: permitted variant decoded to a different seed' % li)
            self.free(k2)
        # C09: auto-detection agrees with explicit decoding
        o2, k3 = self.decode(coin, s, want_lang=True)
        if o2 is None:
            return
        if o2.kv('st') == '0':
            lg = int(o2.kv('lang'))
            o3, k4 = self.decode(coin, s, lg)
            if o3 is not None and (o3.kv('st') != '0' or (k4 is not None and not self.same_seed(self.slots[k4], self.slots[k3]))):
                self.report('C09', 'auto-vs-explicit', 'auto-detection succeeded with language %d but explicit decoding with it gives status %s / another seed' % (lg, o3.kv('st')))
            if k4 is not None:
                self.free(k4)
            self.free(k3)
        elif o2.kv('st') not in ('7', '4'):
            self.report('C09', 'auto-rejects', 'auto-detection returned %s for a phrase that language %d decodes' % (o2.kv('st'), li))

    def probe_bad_tokens(self, k):
        """C08 negative side / C09: too-short tokens, continuations, token-count errors"""
        r = self.rnd
        li = r.randrange(self.nl)
        coin = r.randrange(2048)
        p = self.seed_poly(k, coin)
        toks = self.tokens(li, p)
        Lg = self.L.langs[li]
        kind = r.choice(['short', 'extend', 'extend-dup', 'extend-dup', 'extra', 'missing', 'empty', 'lead', 'double', 'trail2'])
        t2 = list(toks)
        exp = None
        i = r.randrange(16)
        if kind == 'short':
            chars = t2[i].decode('utf-8')
            base = [j for j, c in enumerate(chars) if not unicodedata.combining(c)]
            if len(base) < 4 or not Lg['prefix']:
                return
            cut = chars[:base[r.randrange(1, 4)]].encode()
            if self.accepted_for(li, cut):
                return
            t2[i] = cut
            exp = ('2',)
        elif kind == 'extend':
            t2[i] = t2[i] + r.choice([b'x', b'zz', b'a', 'é'.encode(), b's'])
            if self.accepted_for(li, t2[i]):
                return
            exp = ('2',)
        elif kind == 'extend-dup':
            # a token that continues its NEIGHBOUR (in full or abbreviated) with letters no word has: relations between adjacent
            # tokens must not matter
            i = r.randrange(1, 16)
            nb = t2[i - 1] if r.random() < 0.6 else t2[(i + 1) % 16]
            chars = nb.decode('utf-8')
            base = [j for j, c in enumerate(chars) if not unicodedata.combining(c)]
            stem = nb
            if Lg['prefix'] and len(base) > 4 and r.random() < 0.5:
                stem = chars[:base[4]].encode()
            t2[i] = stem + r.choice([b'zz', b'xq', b'zzzz', 'é'.encode() + b'zq'])
            if self.accepted_for(li, t2[i]):
                return
            exp = ('2',)
            s = self.render(li, t2)
            for lang in (li, None):
                o, k2 = self.decode(coin, s, lang)
                if o is None:
                    return
                if o.kv('st') not in exp:
                    self.report('C08', 'bad-token-' + kind, 'lang %d: phrase with a token that continues its neighbour with letters no word has returned status %s (%s decoding), expected the language error: %r' % (
                        li, o.kv('st'), 'explicit' if lang is not None else 'automatic', s.decode('utf-8', 'replace')))
                if k2 is not None:
                    self.free(k2)
            return
        elif kind == 'extra':
            t2.append(r.choice(toks))
            exp = ('1',)
        elif kind == 'missing':
            del t2[i]
            exp = ('1',)
        elif kind == 'empty':
            s = self.render(li, t2, sep=b' ')
            parts = s.split(b' ')
            parts[i:i] = [b'']
            del parts[-1]
            o, k2 = self.decode(coin, b' '.join(parts), li)
            if o is not None and o.kv('st') == '0':
                self.report('C09', 'empty-token', 'a phrase with an empty token (doubled separator) and 15 words was accepted')
            if k2 is not None:
                self.free(k2)
            return
        elif kind in ('lead', 'double', 'trail2'):
            s = self.render(li, t2, sep=b' ')
            if kind == 'lead':
                s = b' ' + s
            elif kind == 'double':
                parts = s.split(b' ')
                s = b' '.join(parts[:i + 1]) + b'  ' + b' '.join(parts[i + 1:]) if i < 15 else s + b'  '
            else:
                s = s + b'  '
            for lang in (li, None):
                o, k2 = self.decode(coin, s, lang)
                if o is None:
                    return
                if o.kv('st') == '0':
                    self.report('C09', 'extra-separator', 'phrase with a %s separator was accepted: %r' % (kind, s.decode('utf-8', 'replace')))
                if k2 is not None:
                    self.free(k2)
            return
        s = self.render(li, t2)
        o, k2 = self.decode(coin, s, li)
        if o is None:
            return
        if exp and o.kv('st') not in exp:
            prop = 'C08' if kind in ('short', 'extend') else 'C09'
            self.report(prop, 'bad-token-' + kind, 'lang %d: phrase with %s token returned status %s, expected %s: %r' % (li, kind, o.kv('st'), exp[0], s.decode('utf-8', 'replace')))
        if k2 is not None:
            self.free(k2)

    def probe_storage(self, k):
        r = self.rnd
        f = dict(self.slots[k])
        buf = self.store(k)
        if buf is None:
            return
        o, k2 = self.load(buf)
        if o is None:
            return
        if k2 is None:
            if not (o.kv('st') == '4' and not self.supported(f['f'])):
                self.report('C06', 'load-store', 'load(store(seed)) returned status %s' % o.kv('st'))
        else:
            if not self.same_seed(self.slots[k2], f):
                self.report('C06', 'load-store-seed', 'load(store(seed)) produced a different seed')
            if r.random() < 0.5:
                a, b = self.keygen(k, 0, 32), self.keygen(k2, 0, 32)
                if a and b and a.events != b.events:
                    self.report('C04', 'keygen-path', 'KDF inputs of the loaded seed differ from those of the original: %s vs %s' % (a.events, b.events))
            self.free(k2)
        # mutations: expected status by the published format
        for _ in range(4):
            m = bytearray(buf)
            kind = r.choice(['bit', 'chk', 'feat', 'hdr', 'top', 'extra', 'footer'])
            if kind == 'bit':
                m[r.randrange(32)] ^= 1 << r.randrange(8)
            elif kind == 'chk':
                v2 = 0x7000 | ((f['chk'] + r.randrange(1, 2048)) % 2048)
                m[30], m[31] = v2 & 255, v2 >> 8
            elif kind == 'feat':
                v1 = (r.randrange(32) << 10) | f['b']
                m[8], m[9] = v1 & 255, v1 >> 8
            elif kind == 'hdr':
                m[r.randrange(8)] = r.randrange(256)
            elif kind == 'top':
                m[28] |= r.choice([0x40, 0x80, 0xC0])
            elif kind == 'extra':
                m[29] = r.randrange(255)
            else:
                m[31] = (m[31] & 7) | (r.randrange(32) << 3)
            m = bytes(m)
            wf = (m[:8] == b'POLYSEED' and m[9] < 128 and m[28] < 64 and m[29] == 0xFF and (m[31] >> 3) == 14)
            if not wf:
                exp = '5'
            else:
                v1 = m[8] | (m[9] << 8)
                sec = list(m[10:29])
                chk = (m[30] | (m[31] << 8)) & 2047
                if spec.checksum(sec, v1 & 1023, v1 >> 10) != chk:
                    exp = '3'
                elif not self.supported(v1 >> 10):
                    exp = '4'
                else:
                    exp = '0'
            o, k2 = self.load(m)
            if o is None:
                return
            if o.kv('st') != exp:
                self.report('C06' if exp != '4' and o.kv('st') != '4' else 'C10', 'load-status', 'load(%s) returned status %s, expected %s' % (m.hex(), o.kv('st'), exp))
            if k2 is not None:
                self.free(k2)

    def probe_crypt(self, k):
        r = self.rnd
        f0 = dict(self.slots[k])
        pw = r.choice(PASSWORDS)
        f1 = self.crypt(k, pw)
        if f1 is None:
            return
        # usable like any seed
        if r.random() < 0.5:
            self.probe_roundtrip(k)
        else:
            self.probe_storage(k)
        # canonically equivalent spelling gives the same result
        pw2 = r.choice([pw, nfc(pw), nfkd(pw)])
        f2 = self.crypt(k, pw2)
        if f2 is None:
            return
        if len(pw) < self.strsize - 1 and not self.same_seed(f2, f0):
            self.report('C12', 'crypt-involution', 'crypt twice with %r / %r did not restore the seed' % (pw, pw2))
        if r.random() < 0.3:
            f3 = self.crypt(k, pw)
            wrong = r.choice([p for p in PASSWORDS if nfkd(p) != nfkd(pw)])
            f4 = self.crypt(k, wrong)
            if f4:
                self.probe_storage(k)

    def probe_faults(self):
        """C15: allocation failure in every constructor and in every outcome class"""
        r = self.rnd
        self.create(fail=True)
        k = self.create()
        if k is None:
            return
        self.busy.add(k)
        li, coin = r.randrange(self.nl), r.randrange(2048)
        s = self.encode(k, li, coin)
        buf = self.store(k)
        if s is None or buf is None:
            return
        for lang in (li, None):
            self.s.directive('!failalloc 0')
            o, k2 = self.decode(coin, s, lang)
            self.s.directive('!failalloc -1')
            if o is None:
                return
            if o.kv('st') == '7':
                pass
            elif o.kv('st') != '6' and (any('ret=null' in e for e in o.events) or o.kv('st') == '0'):
                self.report('C15', 'decode-alloc-fail', 'the allocator failed during decode, which returned %s, expected the memory status' % o.kv('st'))
            if k2 is not None:
                self.free(k2)
            # a failing allocator must not matter on error paths that come earlier
            self.s.directive('!failalloc 0')
            o, k2 = self.decode((coin + 1) % 2048, s, lang)
            if o is not None and o.kv('st') not in ('3', '7'):
                self.report('C09', 'precedence-checksum-memory', 'wrong-coin phrase with failing allocator returned %s: checksum must be reported before memory' % o.kv('st'))
            self.s.directive('!failalloc -1')
            if k2 is not None:
                self.free(k2)
        self.s.directive('!failalloc 0')
        o, k2 = self.load(buf)
        self.s.directive('!failalloc -1')
        if o is not None and o.kv('st') != '6' and (any('ret=null' in e for e in o.events) or o.kv('st') == '0'):
            self.report('C15', 'load-alloc-fail', 'the allocator failed during load, which returned %s, expected the memory status' % o.kv('st'))
        if k2 is not None:
            self.free(k2)
        # subsequent calls behave normally
        o, k2 = self.load(buf)
        if o is not None and o.kv('st') != ('0' if self.supported(self.slots[k]['f']) else '4'):
            self.report('C15', 'after-alloc-fail', 'load after an allocation failure returned %s' % o.kv('st'))
        if k2 is not None:
            self.free(k2)
        o = self.op('free null')
        if o is not None and o.events:
            self.report('C15', 'free-null', 'freeing NULL called dependencies: %s' % o.events)
        self.probe_stale(buf)

    def probe_stale(self, buf):
        """C15: the caller's seed variable still holds the address of a seed it freed, and the allocator hands that very
        block out again (as malloc does): failing calls must still return what they took"""
        r = self.rnd
        self.s.directive('!reuse 1')
        try:
            kk = self.free_slot()
            o = self.op('load %d %s' % (kk, buf.hex()))
            if o is None or o.head == 'skip' or o.kv('st') != '0':
                return
            self.slots[kk] = dict(b=0, f=0, secret=bytes(32), chk=0, block=o.kv('seed'))
            self.dump(kk)
            self.free(kk)
            bad = bytearray(buf)
            kind = r.choice(['chk', 'fmt', 'unsup'])
            if kind == 'chk':
                bad[30] ^= 1
            elif kind == 'fmt':
                bad[29] ^= 0x10
            else:
                bad[9] = (bad[9] & 3) | ((~(self.mask << 2)) & 0x1C & 0x7C) or bad[9]
            for _ in range(2):
                o2 = self.op('load %d %s' % (kk, bytes(bad).hex()))
                if o2 is None or o2.head == 'skip':
                    return
                if o2.kv('st') == '0':
                    self.slots[kk] = dict(b=0, f=0, secret=bytes(32), chk=0, block=o2.kv('seed'))
                    self.dump(kk)
                    self.free(kk)
                    continue
                a = [e for e in o2.events if e.startswith('E alloc') and 'ret=b' in e]
                fr = [e for e in o2.events if e.startswith('E free')]
                if len(a) != len(fr):
                    self.report('C15', 'load-leak', 'a failing load (status %s) into a variable that still held the address of a freed seed allocated %d block(s) and freed %d' % (o2.kv('st'), len(a), len(fr)))
            # the decoders, the same way: a phrase for the wrong coin
            if self.slots:
                ks = r.choice(list(self.slots))
                li, coin = r.randrange(self.nl), r.randrange(2048)
                ph = self.encode(ks, li, coin)
                if ph is not None:
                    for lang in (li, None):
                        for c2 in (coin, (coin + 1) % 2048):
                            op = ('decodex %d %d %d %s' % (kk, c2, li, hx(ph))) if lang is not None else ('decode %d %d %s' % (kk, c2, hx(ph)))
                            o3 = self.op(op)
                            if o3 is None or o3.head == 'skip':
                                return
                            if o3.kv('st') == '0':
                                self.slots[kk] = dict(b=0, f=0, secret=bytes(32), chk=0, block=o3.kv('seed'))
                                self.dump(kk)
                                self.free(kk)
                            else:
                                a = [e for e in o3.events if e.startswith('E alloc') and 'ret=b' in e]
                                fr = [e for e in o3.events if e.startswith('E free')]
                                if len(a) != len(fr):
                                    self.report('C15', 'decode-leak', 'a failing decode (status %s) into a variable that still held the address of a freed seed allocated %d block(s) and freed %d' % (o3.kv('st'), len(a), len(fr)))
        finally:
            self.s.directive('!reuse 0')

    def probe_unsupported(self):
        """C10: seeds with reserved bits at the three readers"""
        r = self.rnd
        sec = [r.randrange(256) for _ in range(18)] + [r.randrange(64)]
        b = r.randrange(1024)
        f = r.randrange(32)
        li, coin = r.randrange(self.nl), r.randrange(2048)
        p = spec.poly(sec, b, f, coin)
        s = self.L.phrase(li, p)
        exp = '0' if self.supported(f) else '4'
        for lang in (li, None):
            o, k2 = self.decode(coin, s, lang)
            if o is None:
                return
            if o.kv('st') != exp and o.kv('st') != '7':
                self.report('C10', 'decode-status', 'phrase of a seed with feature bits %d under user mask %d returned %s, expected %s' % (f, self.mask, o.kv('st'), exp))
            if o.kv('st') == '4':
                a = [e for e in o.events if e.startswith('E alloc') and 'ret=b' in e]
                fr = [e for e in o.events if e.startswith('E free') and e.endswith('zeroed=1')]
                if len(a) != len(fr):
                    self.report('C15', 'decode-unsupported-free', 'unsupported exit of decode: allocs %s frees %s' % (a, fr))
            if k2 is not None:
                self.free(k2)
        o, k2 = self.load(spec.storage(sec, b, f))
        if o is not None and o.kv('st') != exp:
            self.report('C10', 'load-status', 'storage of a seed with feature bits %d under user mask %d returned %s, expected %s' % (f, self.mask, o.kv('st'), exp))
        if k2 is not None:
            self.free(k2)

    def probe_garbage(self):
        r = self.rnd
        kind = r.randrange(7)
        if kind == 0:
            s = bytes(r.randrange(1, 256) for _ in range(r.randrange(0, 80)))
        elif kind == 1:
            n = r.choice([357, 358, 359, 360, 361, 362, 400, 543, 544, 1000, 5000])
            s = (b'abcd ' * (n // 5 + 1))[:n]
        elif kind == 2:
            s = b' '.join([b'xxx'] * r.choice([15, 16, 17, 200]))
        elif kind == 3:
            s = b' ' * r.randrange(40)
        elif kind == 4:
            s = ('é' * r.choice([10, 179, 180, 181, 300])).encode()
        elif kind == 5:
            li = r.randrange(self.nl)
            s = self.L.langs[li]['separator'].join(r.choice(self.L.words(li)) for _ in range(r.choice([15, 16, 16, 16, 17])))
        else:
            s = bytes(r.choice([0xC3, 0x28, 0xE3, 0x80, 0x80, 0x20, 0x61, 0xFF, 0xED, 0xA0, 0x80]) for _ in range(r.randrange(1, 100)))
        if b'\x00' in s:
            return
        lang = r.choice([None, r.randrange(self.nl)])
        o, k2 = self.decode(r.randrange(2048), s, lang)
        if k2 is not None:
            self.free(k2)
        if r.random() < 0.3 and self.slots:
            k = r.choice(list(self.slots))
            self.crypt(k, s[:2000])

    def probe_mixed_languages(self):
        """C09: tokens that several languages recognise"""
        r = self.rnd
        pairs = [(8, 9), (0, 4), (3, 7), (5, 7), (0, 5)]
        a, b = r.choice(pairs)
        if a >= self.nl or b >= self.nl:
            return
        wa, wb = self.L.words(a), self.L.words(b)
        if self.L.langs[a]['prefix']:
            common = list({strip_marks(w)[:4] for w in wa if len(strip_marks(w)) >= 4} & {strip_marks(w)[:4] for w in wb if len(strip_marks(w)) >= 4})
        else:
            common = list(set(wa) & set(wb))
        if len(common) < 16:
            return
        toks = [r.choice(common) for _ in range(16)]
        s = b' '.join(toks)
        coin = r.randrange(2048)
        o, k2 = self.decode(coin, s)
        if o is None:
            return
        if o.kv('st') != '7':
            self.report('C09', 'mult-lang', 'phrase whose 16 tokens are recognised by languages %d and %d returned %s, expected the multiple-languages status' % (a, b, o.kv('st')))
        if k2 is not None:
            self.free(k2)
        # the same with lang_out = NULL (it is optional)
        kn = self.free_slot()
        on = self.op('decoden %d %d %s' % (kn, coin, hx(s)))
        if on is not None and on.head != 'skip':
            if on.kv('st') != '7':
                self.report('C09', 'mult-lang', 'phrase whose 16 tokens are recognised by languages %d and %d returned %s with lang_out = NULL, expected the multiple-languages status' % (a, b, on.kv('st')))
            if on.kv('st') == '0':
                self.slots[kn] = dict(b=0, f=0, secret=bytes(32), chk=0, block=on.kv('seed'))
                self.dump(kn)
                self.free(kn)
        for lang in (a, b):
            o, k2 = self.decode(coin, s, lang)
            if o is not None and o.kv('st') not in ('0', '3', '4'):
                self.report('C09', 'mult-lang-explicit', 'explicit decoding of an all-common-words phrase with language %d returned %s' % (lang, o.kv('st')))
            if k2 is not None:
                self.free(k2)

    def probe_inject(self):
        """C18: every optional entry present or NULL; a later injection replaces every entry"""
        r = self.rnd
        base = r.choice([10, 20])
        ids = [base + i for i in range(1, 9)]
        for pos in (5, 6, 7):
            if r.random() < 0.4:
                ids[pos] = 0
        if r.random() < 0.6:
            self.features(r.choice([1, 2, 4, 5, 7]))
        self.inject(ids)
        if self.mask:
            # the enabled features are not part of the dependency table: the most recent enabling call still wins
            kf = self.create(feat=r.choice([self.mask, self.mask & -self.mask]))
            if kf is not None:
                self.free(kf)
        exp = list(ids)
        exp[5] = exp[5] or 1001
        exp[6] = exp[6] or 1002
        exp[7] = exp[7] or 1003
        k = self.create()
        names = {'rand': 0, 'kdf': 1, 'zero': 2, 'nfc': 3, 'nfkd': 4, 'time': 5, 'alloc': 6, 'free': 7}
        import re

        def check_ids(o, what):
            if o is None:
                return
            for e in o.events:
                kind = e.split()[1]
                fid = int(re.search(r'f=(\d+)', e).group(1))
                if fid != exp[names[kind]]:
                    self.report('C18', 'inject-ids', '%s: dependency "%s" was served by function %d, injected was %d (injection %s)' % (what, kind, fid, exp[names[kind]], ids))
        if k is not None:
            check_ids(self.s.ops[-2] if len(self.s.ops) >= 2 else None, 'create')
            li = r.choice([1, 2, 3, 4]) % self.nl
            self.op('encode %d %d %d' % (k, li, 0))
            check_ids(self.s.ops[-1], 'encode')
            self.op('crypt %d %s' % (k, hx('pässwörd'.encode())))
            check_ids(self.s.ops[-1], 'crypt')
            self.dump(k)
            self.op('keygen %d 0 32' % k)
            check_ids(self.s.ops[-1], 'keygen')
            blk = self.slots[k]['block']
            o = self.op('free %d' % k)
            del self.slots[k]
            check_ids(o, 'free')
        # back to the standard set for the other probes
        if r.random() < 0.7:
            self.inject()

    def probe_clocks(self):
        """C11/C18: one creation at every word-size boundary of the clock value and at month boundaries"""
        r = self.rnd
        ts = [0, 1, EPOCH - 1, EPOCH, EPOCH + 1, EPOCH + STEP - 1, EPOCH + STEP, EPOCH + 1023 * STEP, EPOCH + 1024 * STEP - 1, EPOCH + 1024 * STEP,
              2 ** 31 - 1, 2 ** 31, 2 ** 32 - 1, 2 ** 32, 2 ** 32 + 1, 2 ** 33 - 1, 2 ** 33, (r.randrange(1, 2 ** 31) << 32) | 0xFFFFFFFF, (r.randrange(1, 2 ** 31) << 32),
              0x2FFFFFFFF, 0xFFFFFFFF00000000, 2 ** 63 - 1, 2 ** 63, 2 ** 64 - 2, 2 ** 64 - 1,
              EPOCH + r.randrange(1024) * STEP - 1, EPOCH + r.randrange(1024 * STEP)]
        for t in ts:
            k = self.create(feat=0, t=t)
            if k is not None:
                self.op('birthday %d' % k)
                self.free(k)
        # the same through the libc fall-back (time entry NULL): the harness serves libc `time` from the same script; the
        # process runs in a time zone that is not UTC, which must not matter
        self.inject([11, 12, 13, 14, 15, 0, 17, 18])
        for t in [EPOCH + r.randrange(1, 1024) * STEP - 1, EPOCH + r.randrange(1, 1024) * STEP, EPOCH + r.randrange(1, 1024) * STEP + 1,
                  EPOCH + r.randrange(1024 * STEP), EPOCH + STEP - 1, EPOCH + 1024 * STEP - 1, 2 ** 32 - 1]:
            k = self.create(feat=0, t=t)
            if k is not None:
                self.op('birthday %d' % k)
                self.free(k)
        self.inject()

    def probe_lazy_edges(self):
        """once per history: strings whose ONLY byte outside ASCII is a single boundary value of the lazy-normalisation test
        (0x7f ascii, 0x80 first non-ASCII, continuation bytes, 0xc0-0xc3 around the first valid lead byte, 0xff), as password
        (twice: restores the seed) and as phrase (explicit and auto-detecting decoders): whether the injected NFKD is called
        is part of the compared event stream"""
        k = self.create()
        if k is None:
            return
        self.busy = {k}
        for b in (0x7f, 0x80, 0x81, 0xbf, 0xc0, 0xc1, 0xc2, 0xc3, 0xff):
            pw = b'pw' + bytes([b])
            if k in self.slots and self.crypt(k, pw) is not None and k in self.slots:
                self.crypt(k, pw)
            tail = bytes([b]) if b != 0xc2 else b'\xc2\xb2'
            self.decode(0, b'abc' + tail + b' def', None)
            self.decode(0, b'abc def' + tail, self.rnd.randrange(self.nl))
        if k in self.slots:
            self.free(k)

    def probe_create_edges(self):
        """once per history: creation with feature arguments whose HIGH bits are set (only the three low bits may matter), each
        seed then sent through phrase and storage and its KDF inputs compared along the way"""
        r = self.rnd
        for hi in (0x40, 0x20, 0xFFFFFF00, r.randrange(1, 2 ** 27) << 5):
            k = self.create(feat=(self.mask & 7) | hi)
            if k is None:
                continue
            self.busy = {k}
            self.probe_roundtrip(k)
            if k in self.slots:
                self.probe_storage(k)
            if k in self.slots:
                self.free(k)
        # configuration sequences: the most recent enabling call wins (also a smaller mask after a larger one); arguments with
        # bits above the three user bits (the encryption bit among them) change nothing; a seed keeps working for the password
        # operation, queries and serialization after its feature was disabled again
        prev = self.mask
        pw = r.choice(PASSWORDS[:8])
        for first, second in ((1, 2), (7, 4), (5, 0)):
            self.features(first)
            k = self.create(feat=first & -first)
            self.features(second)
            k2 = self.create(feat=first & -first)        # refused unless the bit is in `second` too
            if k2 is not None:
                self.free(k2)
            if k is not None and k in self.slots:
                self.busy = {k}
                self.crypt(k, pw)                         # still a seed: the flag toggles, the mask is applied
                if k in self.slots:
                    self.op('isenc %d' % k)
                    self.probe_storage(k)
                if k in self.slots:
                    self.crypt(k, pw)
                if k in self.slots:
                    self.free(k)
        for m in (0xFFFFFFFF, 16 | (prev & 7), 31, 0x18):
            self.features(m)
            k = self.create(feat=self.mask & 7)
            if k is None:
                continue
            self.busy = {k}
            self.crypt(k, pw)                             # an encrypted seed is supported whatever was enabled
            if k in self.slots:
                self.probe_roundtrip(k)
            if k in self.slots:
                self.probe_storage(k)
            if k in self.slots:
                self.free(k)
        self.features(prev)
        # relations between ADJACENT tokens must not matter: a token that repeats its left / right neighbour and continues
        # with letters no word has is not a word (explicit and automatic decoding, with and without lang_out)
        k = self.create(feat=0)
        if k is not None:
            self.busy = {k}
            pref = [i for i in range(self.nl) if self.L.langs[i]['prefix']]
            for li in (r.sample(pref, min(3, len(pref))) if pref else []):
                coin = r.randrange(2048)
                toks = self.tokens(li, self.seed_poly(k, coin))
                for i, j in ((1, 0), (15, 14), (7, 8)):
                    t2 = list(toks)
                    t2[i] = t2[j] + r.choice([b'zz', b'xq'])
                    if self.accepted_for(li, t2[i]):
                        continue
                    s_ = self.render(li, t2)
                    for lang in (li, None):
                        o, k2 = self.decode(coin, s_, lang)
                        if o is None:
                            break
                        if o.kv('st') != '2':
                            self.report('C08', 'bad-token-neighbour', 'lang %d: a token that repeats its neighbour and continues with letters no word has returned status %s (%s decoding), expected the language error: %r' % (
                                li, o.kv('st'), 'explicit' if lang is not None else 'automatic', s_.decode('utf-8', 'replace')))
                        if k2 is not None:
                            self.free(k2)
            if k in self.slots:
                self.free(k)

    # ------------------------------------------------------------ driver
    def run(self, nops, weights):
        r = self.rnd
        self.inject()
        if r.random() < 0.5:
            self.features(r.choice([0, 1, 2, 4, 5, 7, 7, 0xFFFFFFFF, 8]))
        weights = dict(weights)
        if weights.pop('clocks', 0):
            self.probe_clocks()
        self.probe_create_edges()
        self.probe_lazy_edges()
        names = list(weights)
        ws = [weights[n] for n in names]
        # the deterministic edge probes above do not count against the budget of the random part
        self.count('ops spent on the deterministic edge probes: %d' % len(self.s.ops))
        nops += len(self.s.ops)
        while len(self.s.ops) < nops and not self.s.crashed:
            if len(self.slots) < 2 or r.random() < 0.1:
                self.create()
                continue
            if r.random() < 0.04:
                self.features(r.choice([0, 1, 2, 3, 4, 5, 6, 7, 8, 15, 0xFFFFFFF8]))
            if r.random() < 0.1 and self.slots:
                self.free(r.choice(list(self.slots)))
                continue
            k = r.choice(list(self.slots))
            self.busy = {k}
            n = r.choices(names, ws)[0]
            if n == 'roundtrip':
                self.probe_roundtrip(k)
            elif n == 'errors':
                self.probe_errors(k)
            elif n == 'variants':
                self.probe_variants(k)
            elif n == 'badtokens':
                self.probe_bad_tokens(k)
            elif n == 'storage':
                self.probe_storage(k)
            elif n == 'crypt':
                self.probe_crypt(k)
            elif n == 'faults':
                self.probe_faults()
            elif n == 'unsupported':
                self.probe_unsupported()
            elif n == 'garbage':
                self.probe_garbage()
            elif n == 'mixed':
                self.probe_mixed_languages()
            elif n == 'inject':
                self.probe_inject()
            elif n == 'crafted':
                self.probe_crafted()
            elif n == 'queries':
                self.op('birthday %d' % k)
                self.op('isenc %d' % k)
                self.op('feature %d %d' % (k, r.choice([1, 2, 4, 7, 0xFFFFFFFF, 8, 16])))
                self.op('numlangs')
                self.op('langname %d' % r.randrange(self.nl))
        for k in list(self.slots):
            self.free(k)
        self.s.close()
        # final ledger line of the harness
        for h in self.s.header:
            if h.startswith('# end'):
                import re
                m = re.search(r'live=(\d+) held=(\d+)', h)
                if m and m.group(1) != '0':
                    self.report('C15', 'leak', 'at the end of the session %s blocks from the injected allocator were never returned (all seeds were freed)' % m.group(1))


DEFAULT_WEIGHTS = dict(roundtrip=5, errors=3, variants=4, badtokens=3, storage=3, crypt=3, faults=2, unsupported=2, garbage=2, mixed=1, inject=1, queries=1, crafted=3)
