"""Property table and the generic check procedure."""
import json
import os
import time

from . import core, suites, spec, session, apigen
from .core import log

TRUSTED_COMMON = [
    'Lean 4.33.0 kernel (lake build re-checks every theorem; thorough tier additionally leanchecker)',
    'axioms allowed in property theorems: propext, Classical.choice, Quot.sound (audited by #print axioms on every run); no native_decide, no bv_decide, no sorry, no own axioms',
    'translator gen/dump.c + gen/emit.py (the C compiler evaluates the tables/constants of the current tree; cross-checked against the driver by the `word`/`langname` ops)',
    'hand-written model lean/Polyseed/Model/*.lean, tied to the code only by the correspondence suites listed under coverage.suites',
    'harness/drv.c, the compiled Lean driver (lean_exe of the same Model modules), gcc/clang, ASan/UBSan',
]

# id -> description of the check
PROPS = {}


def prop(pid, **kw):
    PROPS[pid] = kw


PROOF_NOTE = ('Trusted: Lean kernel; axioms propext/Classical.choice/Quot.sound only (audited each run); the hand-written model is tied to the C code '
              'by the correspondence suites named in the evidence (differential execution of the compiled model and the real code, not a proof); '
              'the translator for tables/constants; gcc/clang and the sanitizers. ')

NOT_APPLICABLE = {}

# Operations whose MODEL answer is, by a theorem of the property checked in the same run, exactly what the property
# demands: a disagreement in the RESULT of such an operation between the real code and the model is therefore a concrete
# failing input for that property, not merely a broken correspondence (theorem named for the message).
SPEC_OPS = {
    'C02': ({'mul2', 'eval'}, 'mul2_eq_bv / C03.polyEval_eq_evalX: the model is multiplication by x and Horner evaluation over GF(2048)'),
    'C05': ({'eval'}, 'C05.wrong_coin'),
    'C03': ({'pack', 'encode'}, 'dataToPoly_eq_spec / C03.encode_eq_spec'),
    'C06': ({'dstore', 'dload', 'store', 'load'}, 'C06.store_bytes / load_ok_iff / load_status'),
    'C08': ({'find'}, 'C08.find_iff_rule'),
    'C09': ({'pdecode', 'pdecodex', 'decode', 'decoden', 'decodex'}, 'C09.phraseDecode_cases / decode_status / decode_eq_explicit'),
    'C10': ({'supported', 'features', 'feature'}, 'C10.supported_iff / enable_spec / getFeature_spec'),
    'C11': ({'bdayenc', 'bdaydec', 'birthday'}, 'C11.birthday_in_range / birthday_clamped / birthday_form'),
    'C13': ('*', 'C13R.run_refines: every output is the abstract model\'s'),
}


def spec_op(pid, opname):
    so = SPEC_OPS.get(pid)
    if not so:
        return None
    return so[1] if (so[0] == '*' or opname in so[0]) else None

prop('C02', level='proof', modules=['Polyseed.Props.C02', 'Polyseed.Props.C02Phrase'], suites=['gf'],
     api=dict(cone={'decode': 'status', 'decodex': 'status', 'decoden': 'status'}, weights=dict(errors=8, crafted=2, roundtrip=1), sessions=3),
     text='Theorems single_error, swap_error, unique_check_word, unique_word_at over ALL coefficient vectors, lifted to phrases (decodeExplicit_of_words, decodeExplicit_substituted, decodeExplicit_swapped / swap_error_coin: any string that normalises to the phrase with one word replaced or two unequal words exchanged is answered with the checksum status by explicit decoding, every coin) (XOR-linearity of Horner evaluation + kernel-evaluated facts about all 2048 field elements: mul2 = multiplication by x mod x^11+x^2+1, injective, no cycle of length 1..15). The C gf_elem_mul2 is compared with the model on all 2048 elements, gf_poly_eval on unit vectors/random/valid polynomials.',
     note=PROOF_NOTE + 'Modelled, not verified: gf.h (hand transcription); phrases are related to coefficient vectors by the word-lookup theorems of C07/C08.',
     technique='Lean 4 proof (linear algebra over GF(2048), decide +kernel over the field) + exhaustive correspondence on mul2',
     assumptions=['coefficients are < 2048 (word indices, coin < 2048)'])
prop('C04', level='proof', modules=['Polyseed.Props.C04'], suites=[],
     api=dict(cone={'keygen': 'result+ev:kdf'}), extra='extra_kdf_threads',
     text='Theorems keygen_events (exactly one KDF call; password = 32-byte secret buffer; salt bytes spelled out; 10000 iterations; key length passed through), keygen_password (zero padding for canonical seeds), kdfArgs_inj (different secret/coin/birthday/features give different inputs), kdfArgs_path_independent. S-api records all seven KDF arguments of every call on the real code, compares the key buffer with what the stub wrote and the seed before/after, and compares KDF inputs of seeds reached by different paths (create, decode in any language, load, crypt twice).',
     note=PROOF_NOTE + 'Modelled, not verified: polyseed_keygen. That the library does not READ the key afterwards is invisible to a pattern comparison; only writes are observed.',
     technique='Lean 4 proof (event theorem + injectivity of the salt layout) + API-history correspondence with recorded KDF arguments',
     assumptions=['coin < 2048; canonical seeds (proved invariant, C13)'])
prop('C05', level='proof', modules=['Polyseed.Props.C05'], suites=['gf'],
     api=dict(cone={'encode': 'result', 'decode': 'status', 'decodex': 'status', 'decoden': 'status'}, weights=dict(errors=6, roundtrip=2)), extra='extra_coin_threads',
     text='Theorems wrong_coin (a valid polynomial encoded for coin a fails the checksum for every b != a; corollary of C02.single_error), same_coin, coin_changes_word2_only, for all polynomials and all 2048x2047 ordered pairs. S-api decodes phrases for wrong coins on the real code (biased to coins 0/2047 and XOR-neighbours).',
     note=PROOF_NOTE + 'Stated on coefficient vectors; the lifting to phrases uses the word-lookup theorems (C07/C08).',
     technique='Lean 4 proof (corollary of the GF(2048) single-error theorem) + API-history correspondence',
     assumptions=['coins are < 2048 (the API asserts it; larger values are outside the model)'])
prop('C12', level='proof', modules=['Polyseed.Props.C12'], suites=[],
     api=dict(cone={'crypt': 'result+ev:kdf,nfkd', 'dump': 'result', 'store': 'result', 'isenc': 'result'}, weights=dict(crypt=8, storage=1, roundtrip=1)),
     text='Theorems crypt_involutive (twice with the same mask restores a canonical seed bit for bit, every mask), crypt_canon (result canonical for every mask: 150 bits, zero padding, check value recomputed), crypt_toggles, cryptSecret_getD (mask = first 19 KDF bytes, top two bits of the 19th dropped), crypt_events (one KDF call with NFKD(password), salt bytes spelled out, 10000 iterations, 32 bytes; three wipes), crypt_norm_equiv. S-api applies passwords (ASCII, composed/decomposed, empty, 358-400 bytes, invalid UTF-8) with pseudo-random masks and checks every clause on the real code.',
     note=PROOF_NOTE + 'Modelled, not verified: polyseed_crypt, utf8_nfkd_lazy. Assumes the injected NFKD returns a NUL-terminated string shorter than POLYSEED_STR_SIZE and its length.',
     technique='Lean 4 proof (byte-wise XOR algebra, all masks) + API-history correspondence with recorded KDF calls',
     assumptions=['the injected KDF is a deterministic function of its inputs'])
prop('C18', level='proof', modules=['Polyseed.Props.C18', 'Polyseed.Props.C18Served'], suites=[],
     api=dict(cone={'inject': 'full', 'create': 'result+ids', '*': 'ids'}, weights=dict(inject=6, roundtrip=2, crypt=1, faults=1, clocks=1)), extra='extra_syms_undef',
     text='Theorems step_served (EVERY dependency call of EVERY API call names the entry of the injected table responsible for it - allocation, free, wiping, randomness, clock, KDF, NFC, NFKD - for all inputs and oracles), inject_replaces / inject_last_wins / inject_optional (libc time, malloc, free exactly when the entry is NULL) / inject_frame, create_events (alloc, clock, 19 random bytes, wipe - in this order, nothing else), create_secret (secret = the 19 bytes with the top two bits of the last dropped; injective on the 150 bits), create_junk_independent. S-api injects two distinguishable stub sets with each optional entry present/NULL (libc interposed with --wrap), overwrites and unmaps the caller struct after injection, and checks which function served every dependency call.',
     note=PROOF_NOTE + 'Modelled, not verified: dependency.c, polyseed_create. "No other source of randomness or time" is additionally checked by the undefined-symbol inventory of the objects (S-syms).',
     technique='Lean 4 proof (event theorems over all random/clock outputs) + API-history correspondence with function identities',
     assumptions=[])
prop('C03', level='proof', modules=['Polyseed.Props.C03'], suites=['pack'],
     api=dict(cone={'encode': 'result'}, weights=dict(roundtrip=5, crafted=5, errors=1, storage=1)),
     text='Theorems dataToPoly_eq_spec (the chunk loops of polyseed_data_to_poly compute exactly the README layout: base-1024 digits of the 150-bit secret, one feature/birthday bit each, for EVERY well-formed seed - loops unrolled symbolically, 15 equations by omega), checkValue_eq_spec (word 1 = check value over GF(2)[x]/(x^11+x^2+1) as defined in the spec), encodeCoeffs_eq_spec (coin XORed into word 2), encodeTmp_eq_spec / encode_eq_spec (joined by the separator, NFC by the injected function iff the language composes), encode_pure, flags_as_published (kernel-evaluated on the regenerated registry), the published English vector. Correspondence: 165 single-bit seeds, pairs, random seeds through data_to_poly/poly_to_data; encode on the real code compared with an independent Python rendering of the format.',
     note=PROOF_NOTE + 'Modelled, not verified: gf.c, polyseed_encode. Spec (Model/Spec.lean) is written from README.md; "an independent implementation" is represented by Spec plus vlib/spec.py.',
     technique='Lean 4 proof (symbolic unrolling of the packing loops + omega; spec written from the README) + correspondence on packing and encode',
     assumptions=['canonical seed (proved invariant, C13)'])
prop('C13', level='proof', modules=['Polyseed.Props.C13', 'Polyseed.Props.C13Refine'], suites=[],
     api=dict(cone={'*': 'result', 'keygen': 'result+ev:kdf', 'crypt': 'result+ev:kdf'}, sessions=10),
     text='REFINEMENT (Props/C13Refine.lean against Model/Abstract.lean): the abstract model is written out - a seed is (secret, birthday, features), the state is the injected table, the enabled user mask and the live handles, every output is given by the published format (Spec.*) and plain arithmetic - and run_refines proves that for EVERY finite history from any reachable state, every argument and every answer of the random source, clock, allocator, KDF and normalisers the concrete model returns exactly the abstract outputs, consumes the same oracle answers and ends in a state whose abstraction is the abstract state (step_refines per operation; ingredients: ofWords_eq, load_refines with ofImage_store, store_eq, keygenSalt_eq, toAbs_createData, secretNat_crypt: XOR of the byte strings is XOR of the 150-bit numbers, supported_eq by kernel evaluation over 8x32). Theorems inv_step / inv_run / inv_run_init (every seed the library holds after ANY finite history is canonical - 150 bits, zero padding, consistent check value - for all oracles, junk and allocation failures; induction over the history), concr_abs / canon_determined (a canonical seed IS its abstract value (secret, birthday, features): equal abstract values give identical seeds), store_abs / encode_abs / keygen_abs / queries_abs (every observable output is a function of the abstract value written with Spec.* only), frame (a call never changes a seed other than its argument), plus createData_canon, polyToData_canon, decodeFinish_inv. With C06.load_store and C01.decodeExplicit_encode this gives "storing, loading, encoding and decoding a handed-out seed always succeed". S-api: random histories over up to 16 live seeds with outputs fed back exact and mutated; every op is compared with the model; every seed handed out is dumped and checked canonical.',
     note=PROOF_NOTE + 'The abstract model shares tokenising and word lookup with the concrete model (the subject of C07-C09); everything about seed data is abstract. Calls with dead handles are undefined behaviour in C and outside both models (badHandle).',
     technique='Lean 4 proof (invariant by induction over histories + canonical-representation refinement + frame) + API-history correspondence',
     assumptions=['oracles return bytes (OraclesOK); the KDF returns as many bytes as requested (KdfLen); coin < 2048; load buffers are 32 bytes; handles passed are live'])
prop('C15', level='proof', modules=['Polyseed.Props.C15'], suites=[],
     api=dict(cone={'*': 'ledger+status'}, weights=dict(faults=6, unsupported=3, storage=2, roundtrip=2, badtokens=1, garbage=1), sessions=5), extra='extra_faults',
     text='Theorems step_ledger / run_ledger / run_ledger_init (for EVERY history, oracle and schedule of allocation failures the ledger computed from the event trace is defined - no double free, no foreign free, no live block handed out twice - and equals the set of seeds the library holds: nothing leaks), failed_call_balanced (a failing call returns every block it took), alloc_failure_create/load/decode (memory status, no seed, no further block access), free_events (freeing NULL does nothing; a seed is wiped through the injected wipe then freed exactly once), junk independence. Fault enumeration on the real code: a history reaching every outcome class is run for every subset of failing allocation requests, diffed against the model, with the harness allocator checking the ledger itself (guard pages, unmapped-on-free, zeroed-at-free).',
     note=PROOF_NOTE + 'Malloc contract (a block handed out is not live; ids unique) is the hypothesis Inv.',
     technique='Lean 4 proof (ledger invariant by induction over histories, all fault schedules) + exhaustive fault enumeration over a fixed history',
     assumptions=['malloc contract; handles passed to the library are live'])
prop('C14', level='other', modules=['Polyseed.Props.C14'], suites=[],
     api=dict(cone={'*': 'status'}, weights=dict(garbage=8, badtokens=3, mixed=3, faults=2, unsupported=1, roundtrip=1, crafted=1), sessions=4), extra='extra_malformed',
     text='Theorems strSplit_bounds (never more than 16 tokens stored, never more than 17 returned), lazyNfkd_length, load/create/decode/decodeExplicit status-range theorems (only documented statuses, every input), failed_call_no_seed (any call, input, oracle and allocation outcome), termination of every model function (accepted by Lean as total definitions). Runtime: the malformed stream (raw bytes, invalid UTF-8, strings around POLYSEED_STR_SIZE and up to 40000 bytes, separator floods, mutated phrases, random/mutated 32-byte buffers) through both decoders, crypt and load with every input flush against a PROT_NONE page, output buffers likewise, ASan+UBSan, inputs compared before/after.', note=PROOF_NOTE, technique='Lean 4 theorems on the model (totality, status ranges, capacity bounds) + sanitizer/guard-page observation', assumptions=[],
     explanation='model: every function is total by construction (structural or fuel-bounded recursion), returns only documented statuses, keeps within its buffer capacities and hands out no seed on failure (theorems, all inputs); code: every input string and buffer is placed flush against a PROT_NONE page, output buffers likewise, the library runs under ASan+UBSan, inputs are compared before/after, the harness allocator checks the ledger; what is NOT shown: the memory accesses of the compiled code on inputs outside the explored ones')
prop('C20', level='other', modules=['Polyseed.Props.C20'], suites=[], extra='extra_threads',
     text='Theorems thread_serial (in EVERY interleaving of calls of any number of threads, each thread observes exactly the outputs a serial execution of its own calls gives, provided the other threads make no inject/enable_features calls and neither name nor are handed one of its blocks; induction over the interleaving), step_local (outputs, dependency calls and consumed oracle answers depend on the state only through the dependency table, the feature mask and the seeds the call is given), step_agree (pointwise congruence), step_untouched, step_globals, globals_unchanged (every call other than inject/enable_features leaves the dependency table and the feature mask alone), other_thread_frame = C13.frame (a call never changes a seed other than its argument or the fresh block it obtains), on top of C15 (block identities never collide). Runtime: writable-symbol inventory of the objects built from the tree (complete: exactly the dependency table, the feature mask, the GF table and the registry array) and N threads x iterations under ThreadSanitizer with per-thread digests of every observable result compared with the serial run, yields injected through the dependency stubs.', note=PROOF_NOTE, technique='Lean 4 interleaving theorem on the model + ThreadSanitizer + writable-symbol inventory', assumptions=[],
     explanation='model: calls of different threads on disjoint seeds commute (each reads only the injected-dependency table, the feature mask and its own seeds); code: the writable-symbol inventory of the objects built from the tree is exactly {polyseed_deps, reserved_features, polyseed_mul2_table} (complete), and N threads run under ThreadSanitizer with per-thread results compared with the serial run (schedules sampled)')
prop('C16', level='other', modules=['Polyseed.Props.C16', 'Polyseed.Props.C18Served'], suites=[],
     api=dict(cone={'*': 'wipes'}, weights=dict(roundtrip=3, crypt=3, faults=2, unsupported=2, storage=2, badtokens=1), sessions=3), extra='extra_stack',
     text='Theorems step_served (all wiping goes through the injected function: every wipe event of every call names lib.deps.memzero), free_wipes_first / freeEvents_wipe (a seed block - freed by the caller or by the library on its error paths - is wiped through the injected wipe over its whole size immediately before the injected free), decodeExplicit_wipes, decode_wipes (phrase copy, token pointers, polynomial on EVERY exit path; the detection loop index array whenever the loop ran), create_wipes, encode_wipes, crypt_wipes (polynomial, mask, normalised password), load_wipes. Runtime: memzero events of every op compared with the model (S-api), and the stack scan: 19 function/exit-path cases on a dedicated pre-patterned stack, scanned for secret bytes, indices (16/32/64-bit), phrase, password, mask, against a control run; gcc -O0/-O2 (thorough: + -O1/-O3 and clang -O0/-O2/-O3).', note=PROOF_NOTE, technique='Lean 4 theorem on the model wipe discipline + stack scan', assumptions=[],
     explanation='model: every temporary that receives secret-derived data is the target of an injected wipe of its full size on every exit path, and a freed seed block is wiped first (theorems over all inputs); code: memzero events of every op compared with the model, plus a scan of the dead stack after every API function x exit path x compiler setting')
prop('C17', level='proof', modules=['Polyseed.Props.C17'], suites=[],
     api=dict(cone={'encode': 'result', 'decode': 'result', 'decodex': 'result'}, weights=dict(roundtrip=5, crafted=3, variants=1), sessions=3), extra='extra_c17',
     text='Theorems maxPhrase_lt_all (for every registered language 16*longest word + 15*separator < POLYSEED_STR_SIZE: kernel-evaluated on the tables and the constant of the CURRENT tree), encodeTmp_length_le (every phrase, all seeds and coins, is at most that long), encode_no_overflow (the str_tmp overflow outcome of the model is unreachable), encode_output_fits (returned size = length of the output < buffer size), lazyNfkd_no_truncation. The extremal witness seed of every language is encoded on the real code under ASan with the caller buffer against a guard page, and decoded back.',
     note=PROOF_NOTE + 'The composed-form bound assumes the injected NFC does not lengthen a phrase (hypothesis hnfc; observed on every encode of the run).',
     technique='Lean 4 proof (kernel-evaluated per-position maxima of the regenerated tables) + extremal witness seeds on the real code',
     assumptions=['NFC composition does not lengthen a string'])
prop('C01', level='proof', modules=['Polyseed.Props.C01'], suites=['pack'],
     api=dict(cone={'encode': 'result', 'decode': 'result', 'decodex': 'result', 'decoden': 'result', 'create': 'result', 'load': 'result', 'dump': 'result', 'store': 'result', 'keygen': 'result+ev:kdf'}, weights=dict(roundtrip=6, crafted=5, mixed=1, crypt=1, storage=1)), extra='extra_norm',
     text='Theorems decodeExplicit_encode (for EVERY canonical supported seed, coin < 2048 and language whose table passed the kernel check: explicit decoding of the encoded phrase returns OK and the identical seed), decode_encode (auto-detection: that seed with that language, or the multiple-languages status; nothing else), decodeExplicit_wrong_coin, normOK_ascii. They rest on polyToData_dataToPoly (packing round trip, all seeds), the GF(2048) algebra, splitN_joinWords, findAll_words (from the tables) and one explicit hypothesis NormOK about the injected normalisers; normOK_of_asciiCheck discharges it for the four languages whose REGENERATED tables are pure ASCII (English, Italian, Portuguese, Czech: kernel-checked asciiOk) from the dependency contract alone (normalisers are the identity on ASCII), so the round trip there has no hypothesis about Unicode data; for the other six NormOK is validated by exhaustive execution (S-norm). S-api performs round trips in all languages with real NFC/NFKD (utf8proc) and compares seeds, serialized bytes and KDF inputs.',
     note=PROOF_NOTE + 'NormOK (NFKD(NFC(phrase)) = words joined by single spaces) is a statement about Unicode data outside the repository: validated by exhaustive execution over all 20480 words and separators with two independent normalisers, not proved.',
     technique='Lean 4 proof (round trip through packing, checksum, tokeniser and table lookup; hypothesis NormOK) + API round trips with real normalisers',
     assumptions=['NormOK for the six non-ASCII languages; allocation succeeds (explicit hypothesis); coin < 2048'])
prop('C07', level='proof', modules=['Polyseed.Props.C07'], suites=['tables', 'find'], extra='extra_prefix_words',
     text='Theorems about the tables REGENERATED from the current tree: frozen (= the committed pinned lists: names, flags, separators, all 20480 words), tables_ok / find_full_word (every word is found at its own index by the library search: bsearch decision-tree certificate for the 8 sorted lists under the language comparator, first-match + bitmap distinctness for the 2 Chinese lists), words_distinct, word_bytes, prefix4_distinct (bitmap over base-27 prefix codes), prefix_languages, accents_imply_compose, empty_token. All by kernel evaluation (decide +kernel), ~1 min on 16 cores when a list changed. The normalisation clauses are validated by exhaustive execution (S-norm), not proved. The literal clause "no word is a prefix of another" is false for 49 English + 30 Spanish three-letter words: KNOWN-FINDINGs, one per word.',
     note=PROOF_NOTE + 'Pinned/ is trusted to be the published lists (generated once from the pinned commit). NFKD/NFC facts are about Unicode data outside the repository: executed exhaustively with unicodedata and utf8proc.',
     technique='Lean 4 proof by kernel evaluation over the regenerated tables (certificate checkers proved sound) + exhaustive normaliser execution',
     assumptions=['plain char signed (model parameter sgn = true); see C19'])
prop('C08', level='proof', modules=['Polyseed.Props.C08', 'Polyseed.Props.C08Phrase'], suites=['find'],
     api=dict(cone={'decode': 'status', 'decodex': 'status', 'decoden': 'status'}, weights=dict(variants=8, badtokens=4, crafted=2, roundtrip=1)),
     text='Theorem find_iff_rule: in ALL ten languages, for EVERY token (NUL-free byte string) and every index, the lookup returns that index if and only if Rule accepts the token for that word, where Rule (written without the code) is: exact word; or, in the six abbreviating languages, a prefix of at least four letters; compared on the accent-stripped forms in Spanish and French. Built from: comparer_zero_iff (zero sets of the four comparators; compare_*_noaccent = compare_* on stripped strings, an identity), findWord_sound (bsearch / linear search return only indices that compare equal), and the per-table bsearch decision-tree certificate extended to EVERY admissible abbreviation of every word (kernel-evaluated, ~1.5 min per list in parallel). Corollaries find_only_by_rule, find_exact_iff, too_short, continues_otherwise. Lifted to phrases (C08Phrase): findAll_of_accepts, decodeExplicit_of_tokens and variant_decodes_same - ANY 16 tokens the rule accepts position by position for the words of a phrase (abbreviated, accents dropped or typed, mixed) decode explicitly to exactly the status, seed and library state of the unaltered phrase, for every coin and allocation outcome; accepts_self and two kernel-evaluated examples show the premises are met. S-find replays every prefix length x accent subset x continuation per word on the real code against the model and an independent Python rendering of the rule; S-api does it through the API with real NFKD. Open finding D6: strip removes every byte >= 0x80, not only combining accents - stated in the theorem as it is, listed as KNOWN-FINDING.',
     note=PROOF_NOTE + 'strip = removal of all bytes >= 0x80; it coincides with "accents dropped" on NFKD Latin text only (D6).',
     technique='Lean 4 proof (comparator zero sets + search soundness + kernel-evaluated decision-tree certificate over all admissible abbreviations) + exhaustive per-word correspondence',
     assumptions=['tokens are NUL-free byte strings (what the tokeniser delivers)'])
prop('C19', level='other', modules=['Polyseed.Props.C19'], suites=[], extra='extra_sign',
     text='Theorems rank_is_signed_order / sgnCmp_is_signed / isNeg_is_signed / isNeg_is_unsigned / rank_facts: after the repair of D2 the model has NO signedness parameter (every comparison goes through the unsigned byte value, as compare_char and IS_NON_ASCII do in the code) and the explicit order is exactly the signed-char order the shipped sorted lists were built for. Runtime (S-sign): the same unit and API scripts (all languages; composed, decomposed, abbreviated, unaccented phrases; non-ASCII passwords) on a -fsigned-char and a -funsigned-char build, each compared with the one model and with each other - a difference is reported with the failing input.', note=PROOF_NOTE, technique='Lean 4 theorem about the model parameter + two builds', assumptions=[],
     explanation='two char-signedness builds of the tree run the same scripts; their transcripts are compared with each other and with the model')
prop('C09', level='proof', modules=['Polyseed.Props.C09'], suites=['detect'],
     api=dict(cone={'decode': 'result', 'decodex': 'result', 'decoden': 'result'}, weights=dict(badtokens=5, mixed=4, variants=3, crafted=3, faults=2, garbage=2, roundtrip=1)),
     text='Theorems phraseDecode_cases (auto-detection = case split on the languages that recognise ALL tokens: none/one/several -> language error/OK with that language/multiple languages, regardless of checksums), decode_eq_explicit (on success: exactly the outcome, state and events of explicit decoding with that language), decode_status and decodeExplicit_status (precedence: word count, language, checksum, memory, unsupported), splitN_inv / strSplit_16 (16 is returned only for exactly 16 space-free tokens joined by single spaces plus at most one trailing space). All generic in the language list. Correspondence: phrase_decode on token lists with common words, foreign/empty/garbage tokens; API decodes with doubled/leading/trailing/ideographic separators, 15/17 tokens, failing allocators.',
     note=PROOF_NOTE + 'For non-ASCII input the tokenised string is what the injected NFKD returns (may truncate to the buffer size): the dependency contract.',
     technique='Lean 4 proof (generic case analysis of the detection loop and tokeniser inversion) + correspondence on phrase_decode and API decodes',
     assumptions=[])
prop('C06', level='proof', modules=['Polyseed.Props.C06'], suites=['store'],
     api=dict(cone={'load': 'result', 'store': 'result'}, weights=dict(storage=8, unsupported=2, crypt=1, roundtrip=1), sessions=4),
     text='Theorems store_bytes, load_store, load_ok_iff (for EVERY list of 32 bytes: accepted iff it is byte-for-byte the image of a canonical supported seed), store_of_loaded, load_status (precedence memory > format > checksum > unsupported), dataLoad_format_iff. polyseed_data_store/load are compared with the model on valid images, field-wise mutations (exhaustive in the thorough tier) and random buffers.',
     note=PROOF_NOTE + 'Modelled, not verified: storage.c and polyseed_load (hand transcription).',
     technique='Lean 4 proof (iff-characterisation over all 32-byte lists) + correspondence on store/load',
     assumptions=['buffers are 32 bytes; allocation outcome is an explicit hypothesis of each theorem'])
prop('C10', level='proof', modules=['Polyseed.Props.C10'], suites=['feat'],
     api=dict(cone={'create': 'status', 'decode': 'status', 'decodex': 'status', 'decoden': 'status', 'load': 'status', 'features': 'result', 'feature': 'result'},
              weights=dict(inject=3, unsupported=5, storage=2, roundtrip=1, crypt=1, queries=1), sessions=3),
     text='Theorems enable_spec (all arguments, higher bits ignored, return value = number of user bits), enable_last_wins, supported_iff (against a bit-level spec written without the code formula, all 8 masks x 32 values by kernel evaluation), create/decode/load unsupported_iff, create_features, getFeature_spec, crypt_user_bits. Correspondence: 17 enabling arguments x 32 values x supported/create/get_feature/is_encrypted, enabling sequences.',
     note=PROOF_NOTE + 'Modelled, not verified: features.c/.h and the feature checks inside polyseed.c.',
     technique='Lean 4 proof (mask algebra, decide +kernel over 8x32) + exhaustive correspondence on the feature entry points',
     assumptions=['feature values held by seeds are 5-bit (proved for every constructor in C13)'])
prop('C11', level='proof', modules=['Polyseed.Props.C11'], suites=['bday'],
     api=dict(cone={'create': 'result', 'birthday': 'result'}, weights=dict(queries=3, roundtrip=2, storage=1, crypt=1, inject=1, clocks=1), sessions=2),
     text='Theorems birthday_in_range (B <= t < B + 2629746 on the whole range), birthday_clamped, birthday_never_future (every t < 2^64), birthday_form (no 64-bit overflow), create_birthday, crypt/store-load preservation. birthday_encode/decode are compared with the model on all 1025 month boundaries +-1, the epoch, 0, 2^31/2^32/2^63/2^64 neighbours and random values.',
     note=PROOF_NOTE + 'Modelled, not verified: birthday.h and the clock call in polyseed_create.',
     technique='Lean 4 proof (omega over all 64-bit clock values) + boundary-exhaustive correspondence',
     assumptions=['the clock value is a uint64_t (t < 2^64)'])


import re as _re
from .cone import cone_differs, in_cone, RESULT


class Violation:
    def __init__(self, kind, key, message, script=None, expected=None, observed=None, suite=None, variant=None, found_input=False):
        self.kind = kind          # 'oracle' | 'correspondence' | 'proof' | 'audit' | 'translator' | 'crash'
        self.key = key
        self.message = message
        self.script = script or []
        self.expected = expected
        self.observed = observed
        self.suite = suite
        self.variant = variant
        self.found_input = found_input


def run_suite(ctx, pid, S, viol, stats):
    for variant in S.variants:
        res = core.run_pair(ctx.tree, variant, S.script, S.name, cone=RESULT)
        res.suite = S.name
        st = stats.setdefault(S.name, dict(evaluations=0, distinct=set(), samples=[], variants=[], wall=0.0, note=S.note, exhaustive=S.exhaustive, mismatches=0, hist={}))
        st['evaluations'] += res.ops
        st['variants'].append(variant)
        st['wall'] += res.wall
        for op in res.c_ops:
            if op.head != 'skip':
                st['distinct'].add(op.head)
                k = op.head.split()[0] + ('/st=' + op.kv('st') if op.kv('st') is not None else '')
                st['hist'][k] = st['hist'].get(k, 0) + 1
        if not st['samples'] and res.c_ops:
            rr = ctx.rnd('sample-' + S.name)
            for op in rr.sample(res.c_ops, min(3, len(res.c_ops))):
                st['samples'].append(op.block()[:6])
        if res.crash:
            last = res.c_ops[-1].head if res.c_ops else '(nothing ran)'
            # the script up to the crashing op is the failing input
            upto = []
            n = 0
            for line in S.script:
                upto.append(line)
                if not line.startswith(('!', '#')):
                    n += 1
                if n >= len(res.c_ops) + 1:
                    break
            viol.append(Violation('crash', 'crash:' + last.split()[0], 'the real code crashed / was stopped by a sanitizer in suite %s (%s) at op "%s": %s' % (S.name, variant, last[:200], res.crash[:1500]),
                                  script=upto[-400:], suite=S.name, variant=variant, found_input=True))
        for (i, head, text) in res.complaints:
            viol.append(Violation('oracle', 'harness:' + text.split()[1] if len(text.split()) > 1 else 'harness', 'harness observed on the real code at op "%s": %s' % (head[:200], text),
                                  script=[suites.INJECT, head], suite=S.name, variant=variant, found_input=True))
        st['mismatches'] += len(res.mismatches)
        for (i, cb, mb) in res.mismatches[:5]:
            opn = cb[0].split()[1] if len(cb[0].split()) > 1 else '?'
            thm = spec_op(pid, opn)
            viol.append(Violation('correspondence', 'corr:%s:%s' % (S.name, opn),
                                  'suite %s (%s): the real code and the model disagree at op %d (%s)%s' % (
                                      S.name, variant, i, cb[0][:120], '; the model\'s answer is what the property demands (%s): code gives %s, demanded %s' % (
                                          thm, [l for l in cb if l.startswith('<')][:1], [l for l in mb if l.startswith('<')][:1]) if thm else ''),
                                  script=context_script(S.script, res, i), expected=mb, observed=cb, suite=S.name, variant=variant, found_input=bool(thm)))
        for orc in S.oracles:
            for (p, key, msg, script) in [x for x in orc(res.c_ops) if x[0] == pid][:50]:
                viol.append(Violation('oracle', key, msg, script=script, suite=S.name, variant=variant, found_input=True))


# C13 says EVERY output equals the abstract model's: an output oracle of a more specific property is a C13 witness too
ALSO = {'C13': ('C01', 'C02', 'C03', 'C04', 'C05', 'C06', 'C08', 'C09', 'C10', 'C11', 'C12')}


def run_api(ctx, pid, viol, stats, weights=None, sessions=None, nops=None, variants=('asan',), cone=None, tag='api'):
    """S-api: feedback-driven histories on the real code (online property oracles) + model diff.
    `cone`: op names whose disagreement with the model concerns this property (None = all)."""
    weights = weights or apigen.DEFAULT_WEIGHTS
    if ctx.thorough:
        sessions, nops = max(120, (sessions or 6) * 20), 700
        variants = tuple(variants) + tuple(v for v in ('clang',) if v not in variants)
    sessions = sessions or 6
    nops = nops or 350
    st = stats.setdefault(tag, dict(evaluations=0, distinct=set(), samples=[], variants=[], wall=0.0,
                                    note='feedback-driven API histories (%d sessions x ~%d ops): outputs of earlier calls are fed back exact and mutated; online oracles judge the real code by the property statement; the transcript is replayed through the Lean model' % (sessions, nops),
                                    exhaustive=False, mismatches=0, hist={}))
    t0 = time.time()
    for variant in variants:
        st['variants'].append(variant)
        for si in range(sessions):
            sess = session.Session(ctx.tree, variant)
            g = apigen.ApiGen(ctx, sess, ctx.rnd('%s-%s-%d' % (tag, variant, si)))
            if sess.crashed:
                viol.append(Violation('crash', 'harness-build', sess.crashed, suite=tag, variant=variant))
                break
            try:
                g.run(nops, weights)
            except Exception as ex:   # the generator met an answer it cannot interpret: report, never crash the check
                import traceback
                viol.append(Violation('crash', 'generator-exception', 'the history generator could not interpret an answer of the real code (%s): %s' % (
                    ex, traceback.format_exc()[-600:]), script=sess.script[-700:], suite=tag, variant=variant))
                sess.close()
            st['evaluations'] += len(sess.ops)
            for op in sess.ops:
                if op.head != 'skip':
                    st['distinct'].add(op.head)
            for k, v in g.hist.items():
                st['hist'][k] = st['hist'].get(k, 0) + v
            if not st['samples'] and sess.ops:
                for op in ctx.rnd('sample-api').sample(sess.ops, min(4, len(sess.ops))):
                    st['samples'].append(op.block()[:5])
            if sess.crashed:
                opn = sess.script[-1].split()[0] if sess.script else '?'
                inside = in_cone(cone, opn)
                viol.append(Violation('crash', 'crash:' + opn,
                                      ('the real code crashed / was stopped by a sanitizer in an API history (%s): %s' if inside else
                                       'exploration of this property was cut short: the real code crashed in "' + opn + '", a call outside this property\'s concern (%s): %s') % (variant, sess.crashed[:1500]),
                                      script=sess.script[-700:], suite=tag, variant=variant, found_input=inside))
            for (p, key, msg, script) in g.viol:
                if p == pid or p in ALSO.get(pid, ()):
                    # fewer bytes wiped than the model's temporaries hold is a broken correspondence (the wipe theorems no longer
                    # describe the code), not yet a failing input: residue on the dead stack (S-stack) is
                    shape = key.startswith('wipe-sizes')
                    viol.append(Violation('correspondence' if shape else 'oracle', key, msg, script=script[-700:], suite=tag, variant=variant, found_input=not shape))
            for (i, cb, mb) in session.diff_with_model(sess, cone)[:5]:
                opname = cb[0].split()[1] if len(cb[0].split()) > 1 else '?'
                st['mismatches'] += 1
                thm = spec_op(pid, opname)
                from .cone import aspect_differs as _ad
                in_result = _ad('result', cb, mb)
                viol.append(Violation('correspondence', 'corr:%s:%s' % (tag, opname),
                                      'API history (%s): the real code and the model disagree at op %d (%s)%s' % (
                                          variant, i, cb[0][:100], '; the model\'s answer is what the property demands (%s): code gives %s, demanded %s' % (
                                              thm, [l for l in cb if l.startswith('<')][:1], [l for l in mb if l.startswith('<')][:1]) if (thm and in_result) else ''),
                                      script=sess.script[-700:], expected=mb, observed=cb, suite=tag, variant=variant, found_input=bool(thm and in_result)))
    st['wall'] += time.time() - t0


def witness_seed(ctx, li):
    """C17: a seed whose phrase in language li is as long as any phrase of that language can be: all 15 data words AND
    the check word are longest words (searched: the check word is a function of the data words), user features enabled so
    that the feature bits are free, the reserved bit (low bit of word 3) kept zero.
    Returns (secret19, birthday, features, coin, predicted_len)."""
    words = ctx.langs.words(li)
    rnd = ctx.rnd('witness-%d' % li)
    mx = max(len(w) for w in words)
    longest = [i for i, w in enumerate(words) if len(w) == mx]
    second = [i for i, w in enumerate(words) if len(w) >= mx - 1]
    best = None
    for pool, tries in ((longest, 8000), (second, 2000)):
        even = [i for i in pool if i % 2 == 0]
        if not even:
            m2 = max(len(words[i]) for i in range(0, len(words), 2))
            even = [i for i in range(0, len(words), 2) if len(words[i]) == m2]
        for _ in range(tries):
            cs = [rnd.choice(pool) for _ in range(15)]
            cs[1] = rnd.choice(even)            # feature bit 3 (reserved) is the low bit of the second data word
            chk = spec.poly_eval([0] + cs)
            total = len(words[chk]) + sum(len(words[c]) for c in cs)
            if best is None or total > best[0]:
                best = (total, cs)
            if total == 16 * mx:
                break
        if best and best[0] == 16 * mx:
            break
    cs = best[1]
    sec, b, f, _ = spec.unpack([0] + cs)
    p = spec.poly(sec, b, f, 0)
    sep = ctx.langs.langs[li]['separator']
    n = sum(len(words[c]) for c in p) + 15 * len(sep)
    return sec, b, f, 0, n


def extra_c17(ctx, pid, viol, stats):
    """encode the extremal witness seeds of every language on the real code (ASan + guard page behind the caller's buffer) and decode the result"""
    t0 = time.time()
    st = stats.setdefault('witness', dict(evaluations=0, distinct=set(), samples=[], variants=['asan'], wall=0.0, exhaustive=True, mismatches=0, hist={},
                                          note='per language: the seed with a longest word at every data position (and at word 2 via the coin), loaded, encoded, decoded back'))
    strsize = ctx.langs.consts['STR_SIZE']
    for li in range(ctx.langs.n):
        sec, b, f, coin, n = witness_seed(ctx, li)
        script = [suites.INJECT, 'features 7', 'load 0 ' + spec.storage(sec, b, f).hex(), 'encode 0 %d %d' % (li, coin)]
        res = core.run_pair(ctx.tree, 'asan', script, 'witness', cone=RESULT)
        st['evaluations'] += res.ops
        for op in res.c_ops:
            st['distinct'].add(op.head)
        if li == 2:
            st['samples'].append(script)
        enc = [op for op in res.c_ops if op.head.startswith('encode')]
        msg = None
        if res.crash:
            msg = 'language %d: encoding the extremal seed (decomposed phrase of %d bytes, POLYSEED_STR_SIZE = %d) crashed the real code: %s' % (li, n, strsize, res.crash[:800])
        elif enc and enc[0].kv('size') is not None and int(enc[0].kv('size')) >= strsize:
            msg = 'language %d: encoded phrase has %s bytes, not shorter than POLYSEED_STR_SIZE = %d' % (li, enc[0].kv('size'), strsize)
        elif n >= strsize:
            msg = 'language %d: the decomposed phrase of the extremal seed has %d bytes, not shorter than POLYSEED_STR_SIZE = %d (the real code did not crash on it)' % (li, n, strsize)
        if msg:
            viol.append(Violation('oracle', 'strsize:lang%d' % li, msg, script=script, suite='witness', variant='asan', found_input=True))
        elif enc and enc[0].kv('str'):
            # feed it back: must decode without truncation to the same seed
            s2 = script + ['decodex 1 %d %d %s' % (coin, li, enc[0].kv('str')), 'store 0', 'store 1']
            r2 = core.run_pair(ctx.tree, 'asan', s2, 'witness2', cone=RESULT)
            st['evaluations'] += r2.ops
            stores = [op.kv('buf') for op in r2.c_ops if op.head.startswith('store')]
            dec = [op for op in r2.c_ops if op.head.startswith('decodex')]
            if r2.crash or not dec or dec[0].kv('st') != '0' or len(stores) != 2 or stores[0] != stores[1]:
                viol.append(Violation('oracle', 'feedback:lang%d' % li, 'language %d: the extremal phrase does not decode back to its seed (status %s)' % (li, dec[0].kv('st') if dec else '?'),
                                      script=s2, suite='witness', variant='asan', found_input=True))
            for (i, cb, mb) in r2.mismatches[:2]:
                viol.append(Violation('correspondence', 'corr:witness', 'extremal seed, language %d: code and model disagree' % li, script=s2, expected=mb, observed=cb, suite='witness', variant='asan'))
    st['wall'] = time.time() - t0


def extra_norm(ctx, pid, viol, stats):
    """S-norm: the normalisation clauses of C07 and the instances of C01's NormOK hypothesis, by exhaustive
    execution of two independent normalisers (Python unicodedata, utf8proc through the harness) over all words."""
    import unicodedata
    t0 = time.time()
    st = stats.setdefault('norm', dict(evaluations=0, distinct=set(), samples=[], variants=['asan'], wall=0.0, exhaustive=True, mismatches=0, hist={},
                                       note='all 20480 words and all separators: NFKD(w)=w, NFKD(NFC(w))=w, NFKD(sep)=space, by unicodedata and by utf8proc; sampled whole phrases'))
    Ls = ctx.langs
    script = []
    want = {}
    for li in range(Ls.n):
        L = Ls.langs[li]
        for wi, w in enumerate(Ls.words(li)):
            try:
                u = w.decode('utf-8')
            except UnicodeDecodeError:
                viol.append(Violation('oracle', 'norm:utf8', 'lang %d word %d is not valid UTF-8: %s' % (li, wi, w.hex()), script=['word %d %d' % (li, wi)], found_input=True))
                continue
            st['evaluations'] += 1
            if unicodedata.normalize('NFKD', u) != u:
                viol.append(Violation('oracle', 'norm:nfkd', 'lang %d word %d "%s" is not NFKD-normalised' % (li, wi, u), script=['word %d %d' % (li, wi)], found_input=True))
            if unicodedata.normalize('NFKD', unicodedata.normalize('NFC', u)) != u:
                viol.append(Violation('oracle', 'norm:nfc-nfkd', 'lang %d word %d "%s" is not stable under NFC then NFKD' % (li, wi, u), script=['word %d %d' % (li, wi)], found_input=True))
            if any(b >= 0x80 for b in w):
                script.append('norm nfkd ' + w.hex())
                want[script[-1]] = w.hex()
                script.append('norm nfkd ' + unicodedata.normalize('NFC', u).encode().hex())
                want[script[-1]] = w.hex()
        sep = L['separator']
        if unicodedata.normalize('NFKD', sep.decode()) != ' ':
            viol.append(Violation('oracle', 'norm:sep', 'separator of lang %d does not normalise to one ASCII space' % li, script=['langname %d' % li], found_input=True))
        script.append('norm nfkd ' + sep.hex())
        want[script[-1]] = '20'
    rnd = ctx.rnd('norm')
    for _ in range(300 if ctx.thorough else 60):
        li = rnd.randrange(Ls.n)
        idx = [rnd.randrange(2048) for _ in range(16)]
        ph = Ls.phrase(li, idx)
        script.append('norm nfkd ' + ph.hex())
        want[script[-1]] = b' '.join(Ls.words(li)[i] for i in idx).hex()
    rc, header, ops, err = core.run_c_only(ctx.tree, 'asan', script, 'norm')
    st['evaluations'] += len(ops)
    for op in ops:
        st['distinct'].add(op.head)
        if want.get(op.head) is not None and op.kv('out') != want[op.head]:
            viol.append(Violation('oracle', 'norm:utf8proc', 'utf8proc: %s gives %s, expected %s' % (op.head, op.kv('out'), want[op.head]), script=[op.head], found_input=True))
    if ops:
        st['samples'].append(ops[len(ops) // 2].block())
    st['wall'] = time.time() - t0


def extra_prefix_words(ctx, pid, viol, stats):
    """the literal clause of C07 'no word is a prefix of another' (abbreviating languages), on the tables of the current tree"""
    Ls = ctx.langs
    st = stats.setdefault('prefix-words', dict(evaluations=0, distinct=set(), samples=[], variants=[], wall=0.0, exhaustive=True, mismatches=0, hist={},
                                               note='all ordered pairs of words of the six abbreviating languages'))
    for li in range(Ls.n):
        L = Ls.langs[li]
        if not L['prefix']:
            continue
        ws = sorted(Ls.words(li))
        for a, b in zip(ws, ws[1:]):
            st['evaluations'] += 1
            if b.startswith(a):
                key = 'prefix-word:%s:%s' % (L['name_en'].decode(), a.decode('utf-8', 'replace'))
                st['distinct'].add(key)
                viol.append(Violation('oracle', key, '%s word "%s" is a prefix of "%s"' % (L['name_en'].decode(), a.decode('utf-8', 'replace'), b.decode('utf-8', 'replace')),
                                      script=['find %d %s' % (li, a.hex())], found_input=True))
    extra_norm(ctx, pid, viol, stats)


def broad_script(ctx, rnd):
    """unit lookups (words, abbreviations, unaccented forms in every language) and API calls (a seed encoded and decoded in
    every language in composed, decomposed and plain-joined form; non-ASCII passwords; keygen; store; free)"""
    Ls = ctx.langs
    script = [suites.INJECT, 'features 7']
    # unit level: words, abbreviations, unaccented forms in every language
    for li in range(Ls.n):
        words = Ls.words(li)
        for wi in rnd.sample(range(len(words)), 120 if ctx.thorough else 50):
            for tok in suites.word_variants(Ls.langs[li], words[wi], rnd, False)[:8]:
                if tok and b'\x00' not in tok:
                    script.append('find %d %s' % (li, suites.hx(tok)))
    # API level: a fixed seed encoded and decoded in every language, in composed and decomposed form, with a non-ASCII password
    import unicodedata
    for rep in range(6 if ctx.thorough else 2):
        sec = [rnd.randrange(256) for _ in range(18)] + [rnd.randrange(64)]
        b, f = rnd.randrange(1024), rnd.choice([0, 1, 5])
        script.append('load 0 ' + spec.storage(sec, b, f).hex())
        for li in range(Ls.n):
            coin = rnd.randrange(2048)
            p = spec.poly(sec, b, f, coin)
            ph = Ls.phrase(li, p)
            nf = Ls.phrase_nfkd(li, p)
            script.append('encode 0 %d %d' % (li, coin))
            for s_ in (ph, nf, b' '.join(Ls.words(li)[c] for c in p)):
                script.append('decodex 1 %d %d %s' % (coin, li, s_.hex()))
                script.append('store 1')
                script.append('free 1')
                script.append('decode 1 %d %s' % (coin, s_.hex()))
                script.append('free 1')
        # phrases with a stray non-ASCII character before / inside / after a token (the accent-insensitive matcher ignores
        # it in Spanish and French; everything else must reject it the same way on every platform), decoded with language
        # auto-detection with and without lang_out, and explicitly
        for li in range(Ls.n):
            coin = rnd.randrange(2048)
            p = spec.poly(sec, b, f, coin)
            toks = [Ls.words(li)[c] for c in p]
            for stray in ('\ufeff', '\u00a1', '\u65e5'):
                for pos in (0, rnd.randrange(1, 16)):
                    t2 = list(toks)
                    t2[pos] = rnd.choice([stray.encode() + t2[pos], t2[pos] + stray.encode()])
                    s_ = b' '.join(t2)
                    script.append('decode 1 %d %s' % (coin, s_.hex()))
                    script.append('free 1')
                    script.append('decoden 1 %d %s' % (coin, s_.hex()))
                    script.append('free 1')
                    script.append('decodex 1 %d %d %s' % (coin, li, s_.hex()))
                    script.append('free 1')
        for pw in ('pässwörd'.encode(), unicodedata.normalize('NFD', 'pässwörd').encode(), '日本語'.encode(), b'ascii'):
            script.append('crypt 0 ' + pw.hex())
            script.append('store 0')
            script.append('keygen 0 0 32')
        script.append('free 0')
    return script


def extra_sign(ctx, pid, viol, stats):
    """S-sign: the same scripts against a -fsigned-char and a -funsigned-char build of the tree; each is compared
    with the model, and the two real transcripts are compared with each other: a difference IS the failing input."""
    t0 = time.time()
    st = stats.setdefault('sign', dict(evaluations=0, distinct=set(), samples=[], variants=['asan', 'unsigned'], wall=0.0, exhaustive=False, mismatches=0, hist={},
                                       note='find/pdecode unit scripts and API scripts (all languages; composed, decomposed, abbreviated, unaccented phrases; non-ASCII passwords) run on both char signedness builds'))
    script = broad_script(ctx, ctx.rnd('sign'))
    results = {}
    for variant in ('asan', 'unsigned'):
        res = core.run_pair(ctx.tree, variant, script, 'sign', cone=RESULT)
        results[variant] = res
        st['evaluations'] += res.ops
        for op in res.c_ops:
            st['distinct'].add(op.head)
        if res.crash:
            viol.append(Violation('crash', 'crash:' + variant, 'build %s crashed: %s' % (variant, res.crash[:1200]), script=script[:400], suite='sign', variant=variant, found_input=True))
        for (i, cb, mb) in res.mismatches[:3]:
            st['mismatches'] += 1
            viol.append(Violation('correspondence', 'corr:sign:' + variant, 'build %s: the real code and the model (sgn=%s) disagree at op %d' % (variant, 'signed' if variant == 'asan' else 'unsigned', i),
                                  script=context_script(script, res, i), expected=mb, observed=cb, suite='sign', variant=variant))
    a, b = results['asan'].c_ops, results['unsigned'].c_ops
    n = 0
    for i in range(min(len(a), len(b))):
        if a[i].canon() != b[i].canon():
            n += 1
            if n <= 3:
                viol.append(Violation('oracle', 'char-signedness', 'the result of "%s" depends on the signedness of plain char: signed build gives %s, unsigned build gives %s' % (
                    a[i].head[:160], (a[i].events + [a[i].result])[-1], (b[i].events + [b[i].result])[-1]),
                    script=context_script(script, results['asan'], i), expected=a[i].block(), observed=b[i].block(), suite='sign', variant='unsigned', found_input=True))
    st['hist']['ops differing between the builds'] = n
    if a:
        st['samples'].append(a[len(a) // 2].block()[:4])
    st['wall'] = time.time() - t0


def extra_faults(ctx, pid, viol, stats):
    """C15 fault enumeration: a fixed history that reaches every outcome class of every constructor, run once for EVERY
    subset of failing allocation requests; each run is diffed against the model and the harness's own ledger is checked."""
    import re
    t0 = time.time()
    st = stats.setdefault('faults', dict(evaluations=0, distinct=set(), samples=[], variants=['asan'], wall=0.0, exhaustive=True, mismatches=0, hist={},
                                         note='history with 9 allocation requests (create ok/unsupported, decode ok/wrong-coin/unsupported/garbage, explicit decode, load ok/format/checksum/unsupported): all 2^k subsets of failing requests (k capped in the quick tier)'))
    Ls = ctx.langs
    rnd = ctx.rnd('faults')
    sec = [rnd.randrange(256) for _ in range(18)] + [rnd.randrange(64)]
    b = rnd.randrange(1024)
    li = rnd.randrange(Ls.n)
    coin = rnd.randrange(2048)
    ph = Ls.phrase(li, spec.poly(sec, b, 0, coin)).hex()
    ph_f = Ls.phrase(li, spec.poly(sec, b, 2, coin)).hex()         # feature bit 1: unsupported under mask 1
    buf = spec.storage(sec, b, 1)
    buf_f = spec.storage(sec, b, 4)
    bad_chk = bytearray(buf); bad_chk[30] ^= 1
    bad_fmt = bytearray(buf); bad_fmt[0] ^= 1
    # (needs_alloc, line): constructors in the order they are called
    points = ['create 0 1', 'decode 1 %d %s' % (coin, ph), 'decodex 2 %d %d %s' % (coin, li, ph), 'decode 3 %d %s' % (coin, ph_f),
              'load 4 ' + buf.hex(), 'load 5 ' + buf_f.hex(), 'load 6 ' + bytes(bad_chk).hex(), 'load 7 ' + bytes(bad_fmt).hex(), 'create 8 0']
    k = len(points) if ctx.thorough else 6
    total = 0
    for mask in range(1 << k):
        script = [suites.INJECT, 'features 1', 'create 9 2', 'decode 10 %d %s' % ((coin + 1) % 2048, ph), 'decode 11 0 ' + b'xxx xxx'.hex()]
        for i, line in enumerate(points):
            if i < k and (mask >> i) & 1:
                script.append('!failalloc 0')
            script.append(line)
            script.append('!failalloc -1')
        script += ['store 0', 'encode 1 %d %d' % (li, coin), 'crypt 2 70617373', 'keygen 4 0 32']
        script += ['free %d' % i for i in range(12)] + ['free null']
        res = core.run_pair(ctx.tree, 'asan', script, 'faults', cone={'*': 'ledger+status'})
        total += 1
        st['evaluations'] += res.ops
        for op in res.c_ops:
            st['distinct'].add(op.head + '|' + (op.result or ''))
        end = [h for h in res.header if h.startswith('# end')]
        live = re.search(r'live=(\d+)', end[0]).group(1) if end else '?'
        if res.crash:
            viol.append(Violation('crash', 'crash:faults', 'failing allocations %s: the real code crashed: %s' % (bin(mask), res.crash[:1000]), script=script, suite='faults', variant='asan', found_input=True))
        elif live != '0':
            viol.append(Violation('oracle', 'leak', 'failing allocations %s: %s block(s) taken from the injected allocator were never returned although every seed was freed' % (bin(mask), live),
                                  script=script, suite='faults', variant='asan', found_input=True))
        for (i, head, text) in res.complaints:
            viol.append(Violation('oracle', 'harness:' + text.split()[1], 'failing allocations %s: harness observed at "%s": %s' % (bin(mask), head[:80], text), script=script, suite='faults', variant='asan', found_input=True))
        for op in res.c_ops:
            if any('foreign' in e for e in op.events):
                viol.append(Violation('oracle', 'foreign-free', 'failing allocations %s: "%s" passed a pointer to the injected free that is not a live block: %s' % (bin(mask), op.head[:80], op.events),
                                      script=script, suite='faults', variant='asan', found_input=True))
            failing = any('ret=null' in e for e in op.events)
            if failing and op.kv('st') != '6':
                viol.append(Violation('oracle', 'alloc-fail-status', 'allocation failed during "%s" but the call returned status %s, not the memory status' % (op.head[:80], op.kv('st')),
                                      script=script, suite='faults', variant='asan', found_input=True))
        for (i, cb, mb) in res.mismatches[:2]:
            st['mismatches'] += 1
            viol.append(Violation('correspondence', 'corr:faults', 'failing allocations %s: code and model disagree at op %d' % (bin(mask), i), script=script, expected=mb, observed=cb, suite='faults', variant='asan'))
        if mask == 5:
            st['samples'].append([l for l in script if not l.startswith('free')][:14])
    st['hist']['fault schedules'] = total
    st['wall'] = time.time() - t0


def extra_stack(ctx, pid, viol, stats):
    """S-stack: every API function x exit path on a dedicated pre-patterned stack, scanned afterwards for secret
    bytes, word indices (16/32/64-bit), phrase text, password and mask; paired with a control run (harness/stackscan.c)."""
    import re
    t0 = time.time()
    st = stats.setdefault('stack', dict(evaluations=0, distinct=set(), samples=[], variants=[], wall=0.0, exhaustive=True, mismatches=0, hist={},
                                        note='20 function/exit-path cases (incl. the multiple-languages exit) x 7 residue kinds per compiler setting and language (English, a composing accented language, Japanese; all ten in the thorough tier), real NFC/NFKD answered from a recorded table so that the normaliser itself leaves nothing on the scanned stack; phrase and password scanned as given and in NFKD form; residue present in the control run (API call skipped) does not count'))
    settings = [('gcc', '-O2'), ('gcc', '-O0')]
    if ctx.thorough:
        settings += [('gcc', '-O3'), ('gcc', '-O1'), ('clang', '-O0'), ('clang', '-O2'), ('clang', '-O3')]
    nl = ctx.langs.n
    composing = [i for i in range(nl) if ctx.langs.langs[i].get('compose')]
    for si, (cc, opt) in enumerate(settings):
        name = 'stackscan-%s%s' % (cc, opt)
        exe, err = core.build_aux(ctx.tree, name, 'stackscan.c', cc, [opt, '-DNDEBUG'], ['-Wl,-z,now', '-lutf8proc'])
        st['variants'].append('%s %s' % (cc, opt))
        if err:
            viol.append(Violation('crash', 'stackscan-build', err, suite='stack'))
            continue
        # languages: all of them in the thorough tier for the first two settings; otherwise English, one composing language
        # with accents and one with an ideographic separator
        if ctx.thorough and si < 2:
            langs = list(range(nl))
        else:
            langs = sorted(set([0] + composing[:1] + composing[-1:]))
        for li in langs:
            r = core.run([exe, str(li)], stderr=__import__('subprocess').PIPE)
            if r.returncode != 0:
                viol.append(Violation('crash', 'stackscan-crash', 'stack scan program (%s %s, language %d) exited with %d: %s' % (cc, opt, li, r.returncode, (r.stderr or '')[-800:]), suite='stack', found_input=True,
                                      script=['harness/stackscan.c built with %s %s, argument %d' % (cc, opt, li)]))
                continue
            for line in r.stdout.split('\n'):
                m = re.match(r'NORMALISATIONS recorded=(\d+) untabled=(\d+)', line)
                if m:
                    st['hist']['normalisations answered from the recorded table'] = st['hist'].get('normalisations answered from the recorded table', 0) + int(m.group(1))
                    st['hist']['normalisations not in the table (identity used)'] = st['hist'].get('normalisations not in the table (identity used)', 0) + int(m.group(2))
                m = re.match(r'SCAN case=(\S+) kind=(\S+) hits=(\d+) control=(\d+) first=(-?\d+)', line)
                if not m:
                    continue
                st['evaluations'] += 1
                case, kind, hits, ctl = m.group(1), m.group(2), int(m.group(3)), int(m.group(4))
                st['distinct'].add('%s %s %d %s %s' % (cc, opt, li, case, kind))
                if hits > ctl:
                    k = 'idx' if kind.startswith('indices') else kind
                    viol.append(Violation('oracle', 'stack:%s:%s' % (case.split('/')[0], k),
                                          'after polyseed_%s returned (%s %s, language %d), the dead stack still holds %s (%d window matches, %d in the control run without the call), first at stack offset %s' % (
                                              case, cc, opt, li, {'idx': 'the 16 word indices'}.get(k, 'the ' + kind), hits, ctl, m.group(5)),
                                          script=['cc=%s opt=%s' % (cc, opt), 'language=%d' % li, 'case=%s' % case, 'kind=%s' % kind, line,
                                                  'rebuild: %s %s -DNDEBUG -w -DPOLYSEED_STATIC -I<tree>/include -iquote <tree>/src harness/stackscan.c <tree>/src/*.c -Wl,-z,now -lutf8proc; run with argument %d' % (cc, opt, li)],
                                          suite='stack', variant='%s %s' % (cc, opt), found_input=True))
            if not st['samples']:
                st['samples'].append([l for l in r.stdout.split('\n') if 'decode/ok' in l][:4])
    st['wall'] = time.time() - t0


# `languages` (lang.c) is an array of pointers that is not const-qualified itself; like polyseed_mul2_table it is never written
WRITABLE_ALLOWED = {'polyseed_deps', 'reserved_features', 'polyseed_mul2_table', 'languages'}
# imports that would be a second source of randomness, time, memory or I/O next to the injected ones
UNDEF_DENIED = {'rand', 'srand', 'random', 'srandom', 'rand_r', 'drand48', 'lrand48', 'mrand48', 'getrandom', 'getentropy', 'arc4random', 'arc4random_buf',
                'arc4random_uniform', 'clock_gettime', 'gettimeofday', 'clock', 'ftime', 'timespec_get', 'localtime', 'gmtime', 'open', 'fopen', 'read', 'fread',
                'calloc', 'realloc', 'posix_memalign', 'aligned_alloc', 'valloc', 'memalign', 'strdup', 'strndup', 'getenv', 'pthread_create', 'explicit_bzero', 'memset_s'}
# the three NULL fall-backs and pure helpers of libc / the compiler runtime
UNDEF_ALLOWED = {'time', 'malloc', 'free', 'bsearch', 'qsort', 'abort', '__assert_fail', '__stack_chk_fail', '_GLOBAL_OFFSET_TABLE_'}


def undef_class(name):
    if name in UNDEF_DENIED:
        return 'denied'
    if name in UNDEF_ALLOWED or name.startswith(('mem', 'str', '__mem', '__str')):
        return 'allowed'
    return 'unknown'


def symbol_inventory(ctx, viol, st, want_writable=True, want_undef=True):
    """S-syms: section-aware symbol tables of the objects compiled from the tree (gcc -O2 and -O0)."""
    import re
    import subprocess
    objdir = os.path.join(ctx.tree.dir, 'objs')
    writable, undef = set(), set()
    for opt in ('-O2', '-O0'):
        d = objdir + opt
        if not os.path.isdir(d):
            os.makedirs(d)
            srcs = core.lib_sources()
            r = core.run(['gcc', opt, '-DNDEBUG', '-w', '-c'] + core.INC + srcs, cwd=d)
            if r.returncode != 0:
                viol.append(Violation('crash', 'objs-build', 'library objects do not build: ' + r.stdout[-1500:], suite='syms'))
                return writable, undef
        objs = [os.path.join(d, f) for f in sorted(os.listdir(d)) if f.endswith('.o')]
        out = core.run(['objdump', '-t'] + objs).stdout
        for line in out.split('\n'):
            p = line.split()
            if len(p) >= 5 and re.match(r'^[0-9a-f]{8,}$', p[0]):
                sec, name = p[-3], p[-1]
                flags = line[17:24] if len(line) > 24 else ''
                if (sec.startswith('.data') and not sec.startswith('.data.rel.ro')) or sec.startswith('.bss') or sec == '*COM*':   # thread-local sections are per thread, not shared
                    if name not in (sec,) and not name.startswith('.'):
                        writable.add(name)
        nm = core.run(['nm', '-u'] + objs).stdout
        for line in nm.split('\n'):
            p = line.split()
            if len(p) == 2 and p[0] == 'U' and not p[1].startswith('polyseed_'):
                undef.add(p[1])
    st['evaluations'] += len(writable) + len(undef)
    st['distinct'] |= {'W:' + w for w in writable} | {'U:' + u for u in undef}
    st['hist']['writable symbols'] = sorted(writable)
    st['hist']['undefined non-polyseed symbols'] = sorted(undef)
    if want_writable:
        for w in sorted(writable - WRITABLE_ALLOWED):
            viol.append(Violation('correspondence', 'writable-symbol:' + w, 'the library objects contain writable static storage "%s" besides the injected-dependency table, the feature mask, the GF table and the registry: shared state that the model (and thread_serial) does not cover' % w,
                                  script=['objdump -t <objects built from the tree>', w], suite='syms'))
    if want_undef:
        for u in sorted(undef):
            c = undef_class(u)
            if c == 'denied':
                viol.append(Violation('oracle', 'undefined-symbol:' + u, 'the library objects import "%s": a source of randomness, time, memory or I/O that is not injected' % u,
                                      script=['nm -u <objects built from the tree>', u], suite='syms', found_input=True))
            elif c == 'unknown':
                viol.append(Violation('correspondence', 'undefined-symbol:' + u, 'the library objects import "%s", which is neither a known pure helper nor one of the three documented NULL fall-backs (time, malloc, free): the model does not cover it' % u,
                                      script=['nm -u <objects built from the tree>', u], suite='syms'))
    return writable, undef


def watch_run(ctx, viol, st):
    """S-watch: every writable static of the library objects (found with objdump in the objects built from the tree, located with
    nm in a -no-pie harness) is snapshotted before and compared after EVERY operation of a broad script.  An operation other
    than inject/enable_features that changes one writes shared state: two threads making that call race (C20) - reported with
    the call as the failing input.  A writable static outside the known four is accepted as configuration state when the
    run shows it written by inject/enable_features and by nothing else; one that nothing in the run writes is reported as
    uncovered (no failing input)."""
    import re
    sub = dict(evaluations=0, distinct=set(), hist={})
    writable, _ = symbol_inventory(ctx, viol, sub, want_writable=False, want_undef=False)
    st['hist']['writable symbols'] = sorted(writable)
    exe, err = ctx.tree.harness('watch')
    if err:
        viol.append(Violation('crash', 'watch-build', err, suite='watch'))
        return
    regions = []
    for line in core.run(['nm', '-S', '--defined-only', exe]).stdout.split('\n'):
        p = line.split()
        if len(p) == 4 and p[2] in 'bBdD' and p[3] in writable and int(p[1], 16) > 0:
            regions.append((p[0], int(p[1], 16), p[3]))
    located = {r[2] for r in regions}
    script = ['!watch %s %d %s' % r for r in regions]
    rnd = ctx.rnd('watch')
    script += broad_script(ctx, rnd)
    Ls = ctx.langs
    script += ['features 0', 'create 2 0', 'store 2', 'birthday 2', 'feature 2 7', 'isenc 2', 'features 5', 'create 3 5', 'create 4 2',
               'inject 21 22 23 24 25 26 27 28', 'create 5 1', 'encode 5 0 7', 'keygen 5 3 16', 'free 5', 'inject 11 12 13 14 15 0 0 0', 'create 5 0', 'free 5',
               suites.INJECT, 'decode 6 0 ' + b'not a phrase at all'.hex(), 'decodex 6 0 1 ' + 'あ い'.encode().hex(), 'load 6 ' + bytes(32).hex(),
               'numlangs', 'langname 3', 'free 2', 'free 3', 'free null']
    rc, header, ops, errtxt = core.run_c_only(ctx.tree, 'watch', script, 'watch')
    st['evaluations'] += len(ops)
    st['hist']['watched statics'] = ['%s (%d bytes)' % (r[2], r[1]) for r in regions]
    cfg = set()
    for h in header:
        m = re.match(r'# config-write (\S+)', h)
        if m:
            cfg.add(m.group(1))
    st['hist']['statics written by inject/enable_features'] = sorted(cfg)
    if rc != 0:
        viol.append(Violation('crash', 'watch-crash', 'watch harness exited with %d: %s' % (rc, (errtxt or '')[-1200:]), script=script[-60:], suite='watch'))
    written = {}
    for i, op in enumerate(ops):
        for c in op.complaints:
            m = re.match(r'! global-write name=(\S+) offset=(\d+) op=(\S+)', c)
            if m and m.group(1) not in written:
                written[m.group(1)] = (op.head, i)
    st['hist']['statics written by other calls'] = sorted(written)
    for name, (head, i) in sorted(written.items()):
        viol.append(Violation('oracle', 'global-write:' + name,
                              'the call "%s" writes the library-wide static "%s": two threads making this call on their own seeds write the same memory (data race), and the library state is no longer just the injected table and the feature mask' % (head[:160], name),
                              script=[l for l in script if l.startswith('!watch')] + [suites.INJECT, 'features 7'] + [l for l in script if not l.startswith('!watch')][max(0, i - 6):i + 3],
                              suite='watch', variant='watch', found_input=True))
    for w in sorted(writable - WRITABLE_ALLOWED):
        if w in written:
            continue
        if w in cfg:
            st['hist'].setdefault('accepted as configuration state', []).append(w)
            continue
        viol.append(Violation('correspondence', 'writable-symbol:' + w,
                              'the library objects contain writable static storage "%s" besides the injected-dependency table, the feature mask, the GF table and the registry, and no call of the watch run wrote it%s: shared state that the model (and thread_serial) does not cover' % (
                                  w, '' if w in located else ' (it could not be located in the harness binary)'),
                              script=['objdump -t <objects built from the tree>', w], suite='syms'))


def extra_threads(ctx, pid, viol, stats):
    """S-tsan + S-syms"""
    import re
    import subprocess
    t0 = time.time()
    st = stats.setdefault('threads', dict(evaluations=0, distinct=set(), samples=[], variants=['tsan'], wall=0.0, exhaustive=False, mismatches=0, hist={},
                                          note='N threads on their own seeds under ThreadSanitizer (harness/threads.c): per-thread digest of every observable result, serial vs concurrent; yields injected through the dependency stubs; plus the writable-symbol inventory of the objects'))
    watch_run(ctx, viol, st)
    exe, err = core.build_aux(ctx.tree, 'threads-tsan', 'threads.c', 'gcc', ['-O1', '-g', '-fsanitize=thread', '-DNDEBUG'], ['-lpthread', '-lutf8proc'])
    if err:
        viol.append(Violation('crash', 'threads-build', err, suite='threads'))
        return
    runs = [(16, 12), (4, 40), (32, 4)] if not ctx.thorough else [(16, 60), (4, 300), (32, 30), (64, 10), (2, 600)]
    for nt, iters in runs:
        env = dict(os.environ, TSAN_OPTIONS='halt_on_error=0:exitcode=66:second_deadlock_stack=1')
        r = subprocess.run([exe, str(nt), str(iters)], stdout=subprocess.PIPE, stderr=subprocess.PIPE, text=True, env=env)
        st['evaluations'] += nt * iters
        races = r.stderr.count('WARNING: ThreadSanitizer')
        diff = re.search(r'different=(\d+)', r.stdout)
        st['hist']['%d threads x %d iterations' % (nt, iters)] = 'races=%d %s' % (races, diff.group(0) if diff else 'no-result')
        for line in r.stdout.split('\n'):
            if line.startswith('THREAD'):
                st['distinct'].add(line.split('serial=')[1][:16])
        if races or r.returncode == 66:
            first = r.stderr[r.stderr.find('WARNING: ThreadSanitizer'):][:2500]
            viol.append(Violation('oracle', 'data-race', 'ThreadSanitizer reports %d data race(s) with %d threads on disjoint seeds: %s' % (races, nt, first),
                                  script=['harness/threads.c %d %d' % (nt, iters)], suite='threads', variant='tsan', found_input=True))
        elif r.returncode != 0:
            viol.append(Violation('crash', 'threads-crash', 'thread harness exited with %d: %s' % (r.returncode, r.stderr[-1500:]), script=['harness/threads.c %d %d' % (nt, iters)], suite='threads', found_input=True))
        elif not diff or diff.group(1) != '0':
            bad = [l for l in r.stdout.split('\n') if 'DIFFERENT' in l][:3]
            viol.append(Violation('oracle', 'thread-results', 'with %d concurrent threads some thread observed results that differ from the serial execution of its own calls: %s' % (nt, bad),
                                  script=['harness/threads.c %d %d' % (nt, iters)], suite='threads', variant='tsan', found_input=True))
        if not st['samples']:
            st['samples'].append(r.stdout.split('\n')[:3])
    st['wall'] = time.time() - t0


def _thread_counters(ctx, viol, stats, tag, note, judge):
    """run harness/threads.c (TSan build, reports switched off: only its own counters are read) and hand its output to `judge`"""
    import subprocess
    t0 = time.time()
    st = stats.setdefault(tag, dict(evaluations=0, distinct=set(), samples=[], variants=['tsan'], wall=0.0, exhaustive=False, mismatches=0, hist={}, note=note))
    exe, err = core.build_aux(ctx.tree, 'threads-tsan', 'threads.c', 'gcc', ['-O1', '-g', '-fsanitize=thread', '-DNDEBUG'], ['-lpthread', '-lutf8proc'])
    if err:
        viol.append(Violation('crash', 'threads-build', err, suite=tag))
        return
    for nt, iters in ([(8, 20)] if not ctx.thorough else [(8, 100), (32, 30), (3, 300)]):
        env = dict(os.environ, TSAN_OPTIONS='halt_on_error=0:exitcode=0:report_bugs=0')
        r = subprocess.run([exe, str(nt), str(iters)], stdout=subprocess.PIPE, stderr=subprocess.PIPE, text=True, env=env)
        st['evaluations'] += nt * iters
        st['distinct'].add('%dx%d' % (nt, iters))
        if 'DONE threads' not in r.stdout:
            viol.append(Violation('crash', 'threads-crash', 'thread harness exited with %d: %s' % (r.returncode, r.stderr[-1200:]), script=['harness/threads.c %d %d' % (nt, iters)], suite=tag))
            continue
        judge(r.stdout, nt, iters, st)
    if not st['samples']:
        st['samples'].append(['harness/threads.c 8 20'])
    st['wall'] = time.time() - t0


def extra_kdf_threads(ctx, pid, viol, stats):
    """C04 under concurrency: the password and salt handed to the injected KDF must not change while the KDF runs (the stub
    copies them on entry, sleeps, compares): a shared static salt or password buffer shows up here (harness/threads.c)"""
    import re

    def judge(out, nt, iters, st):
        m = re.search(r'KDF-UNSTABLE (\d+)', out)
        st['hist']['%d threads x %d iterations' % (nt, iters)] = m.group(0) if m else 'no-result'
        if m and int(m.group(1)) > 0:
            viol.append(Violation('oracle', 'kdf-input-unstable', 'with %d threads deriving keys from their own seeds, the password or salt handed to the injected KDF changed %s time(s) WHILE the KDF was running: the inputs of one derivation are overwritten by another call' % (nt, m.group(1)),
                                  script=['harness/threads.c %d %d' % (nt, iters), 'look for KDF-UNSTABLE in the output'], suite='kdf-threads', variant='tsan', found_input=True))
    _thread_counters(ctx, viol, stats, 'kdf-threads', 'N threads derive keys and encrypt their own seeds concurrently; the KDF stub checks that its inputs are stable during the call', judge)


def extra_coin_threads(ctx, pid, viol, stats):
    """C05 under concurrency: every thread decodes its own phrases for two wrong coins (explicitly and with auto-detection)
    while the others decode theirs; the normaliser stub sleeps so that the calls overlap.  Anything but the checksum status
    (or multiple-languages) is counted, serially and concurrently."""
    import re

    def judge(out, nt, iters, st):
        m = re.search(r'WRONG-COIN-NOT-CHECKSUM serial=(\d+) concurrent=(\d+)', out)
        st['hist']['%d threads x %d iterations' % (nt, iters)] = m.group(0) if m else 'no-result'
        if m and (int(m.group(1)) > 0 or int(m.group(2)) > 0):
            viol.append(Violation('oracle', 'wrong-coin-threads', 'phrases decoded for a coin other than their own did not give the checksum status %s time(s) in the serial run and %s time(s) with %d threads decoding their own phrases concurrently' % (m.group(1), m.group(2), nt),
                                  script=['harness/threads.c %d %d' % (nt, iters), 'look for WRONG-COIN-NOT-CHECKSUM in the output'], suite='coin-threads', variant='tsan', found_input=True))
    _thread_counters(ctx, viol, stats, 'coin-threads', 'N threads decode their own phrases for wrong coins concurrently (sleeping normaliser stub)', judge)


def extra_syms_undef(ctx, pid, viol, stats):
    st = stats.setdefault('syms', dict(evaluations=0, distinct=set(), samples=[['nm -u / objdump -t of the objects compiled from the tree']], variants=['gcc -O2', 'gcc -O0'], wall=0.0, exhaustive=True, mismatches=0, hist={},
                                       note='undefined-symbol inventory: no source of randomness or time other than the injected ones (libc time/malloc/free only as NULL fall-backs)'))
    symbol_inventory(ctx, viol, st, want_writable=False, want_undef=True)


def extra_malformed(ctx, pid, viol, stats):
    """C14: the malformed stream, through every string/buffer entry point, under ASan+UBSan with inputs and output buffers flush against guard pages"""
    t0 = time.time()
    st = stats.setdefault('malformed', dict(evaluations=0, distinct=set(), samples=[], variants=['asan'], wall=0.0, exhaustive=False, mismatches=0, hist={},
                                            note='raw bytes, invalid UTF-8, strings of STR_SIZE-3..STR_SIZE+3 and far longer, separator floods, grammar-based mutations of valid phrases, random and mutated 32-byte buffers; as phrase (both decoders, all languages), as password, as storage'))
    rnd = ctx.rnd('malformed')
    Ls = ctx.langs
    S = Ls.consts['STR_SIZE']
    script = [suites.INJECT, 'features 5', 'create 0 1']
    strings = []
    for n in [0, 1, 2, S - 3, S - 2, S - 1, S, S + 1, S + 2, 2 * S, 5000, 40000]:
        strings.append(b'a' * n)
        strings.append((b'ab ' * (n // 3 + 1))[:n])
        strings.append(('é' * (n // 2 + 1)).encode()[:n])
        strings.append((' '.join(['日本'] * (n // 7 + 1))).encode()[:n])
        strings.append(b' ' * n)
        # an ASCII prefix followed by non-ASCII text (the lazily normalised form), incl. characters whose NFKD form is longer
        # than the character itself (one half: 2 -> 5 bytes; U+FDFA: 3 -> 33 bytes) so that the normal form crosses the
        # buffer size while the input does not
        for pfx in sorted({1, max(1, n // 2), max(1, n - 3), max(1, n - 40)}):
            if pfx < n:
                strings.append(b'a' * pfx + ('\u00e9' * ((n - pfx) // 2 + 1)).encode()[:n - pfx])
                strings.append(b'ab ' * (pfx // 3) + ('\u00bd' * ((n - pfx) // 2 + 1)).encode()[:(n - pfx) // 2 * 2])
        strings.append(b'word ' * 3 + ('\ufdfa' * (n // 30 + 1)).encode())
    for _ in range(400 if ctx.thorough else 80):
        k = rnd.randrange(6)
        if k == 0:
            strings.append(bytes(rnd.randrange(1, 256) for _ in range(rnd.randrange(1, 600))))
        elif k == 1:
            strings.append(bytes(rnd.choice([0xC3, 0x28, 0xA0, 0xE2, 0x82, 0xF0, 0x90, 0x80, 0xFF, 0xFE, 0x20, 0x61]) for _ in range(rnd.randrange(1, 200))))
        else:
            li = rnd.randrange(Ls.n)
            toks = [rnd.choice(Ls.words(li)) for _ in range(rnd.choice([15, 16, 16, 17, 30]))]
            for _ in range(rnd.randrange(3)):
                i = rnd.randrange(len(toks))
                t = bytearray(toks[i])
                if t:
                    t[rnd.randrange(len(t))] = rnd.randrange(1, 256)
                toks[i] = bytes(t)
            sep = rnd.choice([b' ', b'  ', Ls.langs[li]['separator'], b'\xe3\x80\x80', b'\t', b'\xc2\xa0'])
            strings.append(sep.join(toks))
    for sx in strings:
        if b'\x00' in sx:
            continue
        h = suites.hx(sx)
        script.append('decode 1 %d %s' % (rnd.randrange(2048), h))
        script.append('free 1')
        script.append('decodex 1 %d %d %s' % (rnd.randrange(2048), rnd.randrange(Ls.n), h))
        script.append('free 1')
        if len(sx) < 3000:
            script.append('crypt 0 ' + h)
    for _ in range(600 if ctx.thorough else 150):
        b = bytearray(rnd.randrange(256) for _ in range(32))
        if rnd.random() < 0.6:
            b[:8] = b'POLYSEED'
        if rnd.random() < 0.5:
            b[29] = 0xFF
            b[31] = 0x70 | (b[31] & 7)
        script.append('load 2 ' + bytes(b).hex())
        script.append('free 2')
    res = core.run_pair(ctx.tree, 'asan', script, 'malformed', cone={'*': 'status'})
    st['evaluations'] += res.ops
    documented = {'decode': {'0', '1', '2', '3', '4', '6', '7'}, 'decodex': {'0', '1', '2', '3', '4', '6'}, 'load': {'0', '3', '4', '5', '6'}}
    for op in res.c_ops:
        st['distinct'].add(op.head[:200])
        k = op.head.split()[0]
        if op.kv('st') is not None:
            st['hist'][k + '/st=' + op.kv('st')] = st['hist'].get(k + '/st=' + op.kv('st'), 0) + 1
            if k in documented and op.kv('st') not in documented[k]:
                viol.append(Violation('oracle', 'undocumented-status', '%s returned status %s, which is not one of its documented statuses' % (op.head[:100], op.kv('st')), script=[suites.INJECT, op.head], suite='malformed', variant='asan', found_input=True))
            if op.kv('st') != '0' and op.kv('seed') not in (None, '-'):
                viol.append(Violation('oracle', 'seed-on-failure', '%s failed but produced a seed' % op.head[:100], script=[suites.INJECT, op.head], suite='malformed', variant='asan', found_input=True))
    if res.crash:
        viol.append(Violation('crash', 'crash:malformed', 'the real code crashed / was stopped by a sanitizer or guard page: %s' % res.crash[:1500], script=context_script(script, res, len(res.c_ops) - 1) if res.c_ops else script[:5], suite='malformed', variant='asan', found_input=True))
    for (i, head, text) in res.complaints:
        viol.append(Violation('oracle', 'harness:' + text.split()[1], 'harness observed at "%s": %s' % (head[:100], text), script=[suites.INJECT, head], suite='malformed', variant='asan', found_input=True))
    for (i, cb, mb) in res.mismatches[:3]:
        st['mismatches'] += 1
        viol.append(Violation('correspondence', 'corr:malformed', 'malformed input: code and model disagree at op %d (%s)' % (i, cb[0][:80]), script=context_script(script, res, i), expected=mb, observed=cb, suite='malformed', variant='asan'))
    end = [h for h in res.header if h.startswith('# end')]
    if res.c_ops:
        st['samples'].append(res.c_ops[len(res.c_ops) // 3].block()[:3])
    st['wall'] = time.time() - t0


CBMC_FUNCS = {'C02': ['mul2', 'eval'], 'C03': ['pack', 'unpack'], 'C05': ['mul2', 'eval'], 'C06': ['store_load'], 'C10': ['features'], 'C11': ['birthday'],
              'C01': ['pack', 'unpack'], 'C13': ['pack', 'unpack', 'store_load']}


def extra_cbmc(ctx, pid, viol, stats):
    """supporting evidence for the tie: CBMC proves for ALL inputs of the fixed-size arithmetic functions that the C code of the
    current tree satisfies the closed form / the property assertions of harness/cbmc_ref.c (never a substitute for a theorem)"""
    import re
    import shutil
    t0 = time.time()
    st = stats.setdefault('cbmc', dict(evaluations=0, distinct=set(), samples=[], variants=['cbmc 6.11'], wall=0.0, exhaustive=True, mismatches=0, hist={},
                                       note='CBMC equivalence of the repository functions with closed forms over ALL inputs (model validation, not proof): ' + ', '.join(CBMC_FUNCS.get(pid, []))))
    if not shutil.which('cbmc') or not shutil.which('goto-cc'):
        st['hist']['skipped'] = 'cbmc not on PATH'
        return
    gb = os.path.join(ctx.tree.dir, 'ref.gb')
    if not os.path.exists(gb):
        srcs = [os.path.join(core.REPO, 'src', f) for f in ('gf.c', 'storage.c', 'features.c')]
        r = core.run(['goto-cc', '-DNDEBUG'] + core.INC + [os.path.join(core.VERIF, 'harness', 'cbmc_ref.c')] + srcs + ['-o', gb + '.tmp'])
        if r.returncode != 0:
            viol.append(Violation('correspondence', 'cbmc-build', 'the CBMC equivalence harness no longer compiles against the tree (internal interfaces changed): ' + r.stdout[-1200:], suite='cbmc'))
            return
        os.rename(gb + '.tmp', gb)
    for fn in CBMC_FUNCS.get(pid, []):
        r = core.run(['cbmc', gb, '--function', 'check_' + fn, '--unwind', '160', '--unwinding-assertions', '--trace'])
        st['evaluations'] += 1
        st['distinct'].add(fn)
        ok = 'VERIFICATION SUCCESSFUL' in r.stdout
        m = re.search(r'\*\* (\d+) of (\d+) failed', r.stdout)
        st['hist'][fn] = m.group(0) if m else ('ok' if ok else 'no verdict')
        if not ok:
            failed = re.findall(r'\[check_\w+\.assertion\.\d+\] line \d+ ([^:]+): FAILURE', r.stdout)
            assigns = re.findall(r'^\s+(\w[\w\.\[\]]*)=(\S+) \(', r.stdout, re.M)
            inputs = ['%s=%s' % (a, b) for a, b in assigns if a.split('.')[0].split('[')[0] in ('x', 't', 'm', 'f', 'c', 'buf', 'd', 'p')][:60]
            viol.append(Violation('oracle', 'cbmc:' + fn, 'CBMC finds an input on which the C code violates "%s" (check_%s in harness/cbmc_ref.c); assignments of the counterexample: %s' % (
                '; '.join(sorted(set(failed))[:4]) or 'an assertion', fn, ' '.join(inputs)[:1500]),
                script=['cbmc <ref.gb built from the tree> --function check_%s --unwind 160 --unwinding-assertions --trace' % fn] + inputs[:40],
                suite='cbmc', variant='cbmc', found_input=bool(failed)))
    st['samples'].append(['check_' + f for f in CBMC_FUNCS.get(pid, [])])
    st['wall'] = time.time() - t0


def context_script(script, res, i):
    """script lines needed to reproduce op i: for stateless unit ops just the line, else the prefix"""
    head = res.c_ops[i].head
    unit = ('mul2', 'eval', 'pack', 'unpack', 'dstore', 'dload', 'bdayenc', 'bdaydec', 'find', 'findx', 'pdecode', 'pdecodex', 'word', 'langname', 'numlangs')
    if head.split()[0] in unit:
        return [head]
    # count script ops up to i (ops that print a '>' line, including auto-frees: conservatively keep the prefix)
    out = []
    n = 0
    for line in script:
        out.append(line)
        if not line.startswith(('!', '#')):
            n += 1
        if n > i:
            break
    return out[-600:]


def check(ctx, pid):
    t0 = time.time()
    P = PROPS[pid]
    viol = []
    stats = {}
    proof = dict(obligations=0, discharged=0, theorems=[], axioms={}, failed=[])
    with core.Lock():
        tree = core.Tree()
        ctx.tree = tree
        tree.prune()
        err = tree.translate()
        if err:
            viol.append(Violation('translator', 'translator', err))
        else:
            ctx.langs = spec.Langs(tree.dump)
        # ---- proof obligations
        mods = P['modules']
        names = []
        for m in mods:
            names += core.theorem_names(m)
        proof['theorems'] = names
        proof['obligations'] = len(names)
        ok, out = core.lake_build(mods + ['driver'])
        if not ok:
            okd, outd = core.lake_build(['driver'])
            failed = core.failing_theorems(out)
            proof['failed'] = failed
            viol.append(Violation('proof', 'proof:' + pid, 'proof obligations of %s no longer check: %s' % (pid, '; '.join(failed)[:3000])))
            if not okd:
                viol.append(Violation('proof', 'driver', 'the model driver does not build: ' + '; '.join(core.failing_theorems(outd))[:2000]))
        else:
            hits = core.audit_sources()
            if hits:
                viol.append(Violation('audit', 'audit', 'forbidden construct in the Lean sources: ' + '; '.join(hits[:10])))
            ax, _txt = core.print_axioms(mods, names)
            proof['axioms'] = {k: v for k, v in ax.items()}
            bad = [k for k, v in ax.items() if v is None or any(a not in core.ALLOWED_AXIOMS for a in v)]
            if bad:
                viol.append(Violation('audit', 'axioms', 'theorems with missing or disallowed axioms: %s' % ', '.join('%s:%s' % (k, ax[k]) for k in bad)[:2000]))
            proof['discharged'] = len(names) - len(bad) if not hits else 0
            if ctx.thorough:
                closure = core.import_closure(mods)
                failed, n = core.leancheck(closure)
                proof['leanchecker'] = dict(modules=n, failed=[m for m, _ in failed])
                if failed:
                    proof['discharged'] = 0
                    viol.append(Violation('audit', 'leanchecker', 'leanchecker rejects compiled modules: %s' % '; '.join('%s: %s' % (m, t[-200:]) for m, t in failed)[:2000]))
        # ---- correspondence + oracles
        if os.path.exists(core.driver_path()) and ctx.langs is not None:
            for sname in P['suites']:
                S = getattr(suites, 'suite_' + sname)(ctx)
                run_suite(ctx, pid, S, viol, stats)
        if P.get('api') is not None and os.path.exists(core.driver_path()) and ctx.langs is not None:
            run_api(ctx, pid, viol, stats, **P['api'])
        if P.get('extra'):
            globals()[P['extra']](ctx, pid, viol, stats)
        if pid in CBMC_FUNCS and ctx.tree is not None:
            extra_cbmc(ctx, pid, viol, stats)
    return report(ctx, pid, P, viol, stats, proof, t0)


def report(ctx, pid, P, viol, stats, proof, t0):
    opened, _fixed = core.known_findings()
    known = dict(opened.get(pid, []))
    exit_code = 0
    n_rep = 0
    printed_known = set()
    # a concrete failing input outranks a broken obligation
    found = [v for v in viol if v.found_input]
    unlisted = []
    for v in viol:
        if v.key in known:
            if v.key not in printed_known:
                log('KNOWN-FINDING: property=%s %s' % (pid, known[v.key]))
                printed_known.add(v.key)
        else:
            unlisted.append(v)
    if unlisted:
        exit_code = 1
        lead = [v for v in unlisted if v.found_input] or unlisted
        v = lead[0]
        n_rep += 1
        data = dict(property=pid, tier=ctx.tier, seed=ctx.seed, kind=v.kind, key=v.key, message=v.message, suite=v.suite,
                    variant=v.variant, script=v.script, expected_by_model=v.expected, observed_on_code=v.observed,
                    tree=ctx.tree.hash if ctx.tree else None,
                    unchecked=[dict(kind=u.kind, key=u.key, message=u.message[:600]) for u in unlisted[:20]],
                    how_to_replay='python3 check.py --replay <this file>')
        path = core.write_replay(pid, n_rep, data)
        for u in unlisted[:8]:
            log('  [%s] %s' % (u.kind, u.message[:400].replace('\n', ' | ')))
        suffix = '' if v.found_input else ' no-failing-input-found'
        log('VIOLATION property=%s replay=%s%s' % (pid, path, suffix))
    # evidence
    evaluations = sum(s['evaluations'] for s in stats.values())
    distinct = sum(len(s['distinct']) for s in stats.values())
    samples = []
    for s in stats.values():
        samples += s['samples'][:2]
    cov = dict(
        obligations=proof['obligations'], discharged=proof['discharged'],
        checker_cmd='cd /verif/lean && lake build %s   # then #print axioms on each theorem' % ' '.join(P['modules']),
        trusted_base=TRUSTED_COMMON + P.get('trusted', []),
        theorems=proof['theorems'], axioms=proof['axioms'], failed_obligations=proof['failed'], leanchecker=proof.get('leanchecker', 'thorough tier only'),
        evaluations=evaluations, distinct_nontrivial=distinct,
        rule='correspondence: every op line is run on the real code and on the model and compared; distinct = distinct op lines (inputs) across suites; non-trivial = not skipped by the harness',
        samples=samples or [['(no correspondence run)']],
        suites={k: dict(evaluations=s['evaluations'], distinct=len(s['distinct']), variants=s['variants'], wall_s=round(s['wall'], 2), note=s['note'],
                        exhaustive_part=s['exhaustive'], mismatches=s['mismatches'], histogram=dict(sorted(s['hist'].items())[:60])) for k, s in stats.items()},
        explanation=P.get('explanation', ''),
    )
    ev = dict(property_id=pid, tier=ctx.tier, seed=ctx.seed, level=P['level'], coverage=cov,
              assumptions=P.get('assumptions', []) + ['see DESIGN.md section 8 for what is modelled rather than verified'],
              wall_s=round(time.time() - t0, 2), violations=len(viol) and len([1 for v in viol if v.key not in known]))
    core.write_evidence(pid, ev)
    log('%s %s: %d/%d obligations, %d ops compared in %d suites, %.1fs -> %s' % (
        pid, ctx.tier, proof['discharged'], proof['obligations'], evaluations, len(stats), time.time() - t0, 'FAIL' if exit_code else 'ok'))
    return exit_code


def replay(path):
    with open(path) as f:
        data = json.load(f)
    with core.Lock():
        tree = core.Tree()
        err = tree.translate()
        if err:
            log(err)
            return 1
        ok, out = core.lake_build(['driver'])
        script = data.get('script') or []
        if not script:
            log('replay has no script (proof-level finding): %s' % data.get('message'))
            return 1
        res = core.run_pair(tree, data.get('variant') or 'asan', script, 'replay')
    for op in res.c_ops[-3:]:
        log('\n'.join(op.block()))
    if res.ok:
        log('replay: real code and model agree on this script now')
        return 0
    for (i, cb, mb) in res.mismatches[:3]:
        log('code :\n  ' + '\n  '.join(cb))
        log('model:\n  ' + '\n  '.join(mb))
    if res.crash:
        log(res.crash)
    log('replay: difference persists')
    return 1
