"""Shared machinery of check.py: tree hashing, translator, Lean build + audit,
harness builds, correspondence runs, replay files, evidence."""
import fcntl
import hashlib
import json
import os
import re
import shutil
import subprocess
import sys
import time

VERIF = os.path.dirname(os.path.dirname(os.path.abspath(__file__)))
REPO = os.environ.get('VERIF_REPO', '/repo')
LEAN = os.path.join(VERIF, 'lean')
CACHE = os.path.join(VERIF, '.cache')
# runs against a scratch copy of the repository (seeded-change experiments) must not overwrite the evidence of /repo
_SCRATCH = os.path.realpath(REPO) != '/repo'
REPLAYS = os.path.join(VERIF, '.cache', 'replays-scratch') if _SCRATCH else os.path.join(VERIF, 'replays')
EVIDENCE = os.path.join(VERIF, '.cache', 'evidence-scratch') if _SCRATCH else os.path.join(VERIF, 'evidence')
NPROC = os.cpu_count() or 4

ALLOWED_AXIOMS = {'propext', 'Classical.choice', 'Quot.sound'}
FORBIDDEN = re.compile(r'\bsorry\b|\badmit\b|^\s*axiom\s|native_decide|bv_decide|implemented_by|\bunsafe\s|maxHeartbeats\s+0|\bextern\s')


def log(*a):
    print(*a, flush=True)


def run(cmd, **kw):
    kw.setdefault('stdout', subprocess.PIPE)
    kw.setdefault('stderr', subprocess.STDOUT)
    kw.setdefault('text', True)
    return subprocess.run(cmd, **kw)


class Lock:
    def __init__(self, name='lock'):
        os.makedirs(CACHE, exist_ok=True)
        self.path = os.path.join(CACHE, name)

    def __enter__(self):
        self.f = open(self.path, 'w')
        fcntl.flock(self.f, fcntl.LOCK_EX)
        return self

    def __exit__(self, *a):
        fcntl.flock(self.f, fcntl.LOCK_UN)
        self.f.close()


# ------------------------------------------------------------------ tree

def src_files():
    out = []
    for d in ('src', 'include'):
        p = os.path.join(REPO, d)
        for fn in sorted(os.listdir(p)):
            if fn.endswith(('.c', '.h')):
                out.append(os.path.join(p, fn))
    return out


def lib_sources():
    p = os.path.join(REPO, 'src')
    return [os.path.join(p, fn) for fn in sorted(os.listdir(p)) if fn.endswith('.c')]


def tree_hash():
    h = hashlib.sha256()
    for f in src_files():
        h.update(f.encode())
        with open(f, 'rb') as fh:
            h.update(fh.read())
    for extra in ('harness/drv.c', 'harness/stackscan.c', 'harness/threads.c', 'harness/probe.c', 'gen/dump.c', 'gen/emit.py', 'gen/ctrans.py'):
        if not os.path.exists(os.path.join(VERIF, extra)):
            continue
        with open(os.path.join(VERIF, extra), 'rb') as fh:
            h.update(fh.read())
    return h.hexdigest()[:16]


INC = ['-DPOLYSEED_STATIC', '-I' + os.path.join(REPO, 'include'), '-iquote', os.path.join(REPO, 'src')]


class Tree:
    """Per-tree cache directory with the dumper output and harness binaries."""

    def __init__(self):
        self.hash = tree_hash()
        self.dir = os.path.join(CACHE, self.hash)
        os.makedirs(self.dir, exist_ok=True)
        self.dump = os.path.join(self.dir, 'dump.txt')
        self.errors = []
        self.funcs = {}

    def prune(self, keep=3):
        ds = [os.path.join(CACHE, d) for d in os.listdir(CACHE) if os.path.isdir(os.path.join(CACHE, d)) and re.fullmatch(r'[0-9a-f]{16}', d)]
        ds.sort(key=lambda d: os.path.getmtime(d), reverse=True)
        for d in ds[keep:]:
            if d != self.dir:
                shutil.rmtree(d, ignore_errors=True)

    GROUPS = ('GF', 'PACK', 'STORE', 'BDAY', 'FEAT', 'LANG')

    def internals(self):
        """which internal interfaces the unit-level harness can reach in this tree (harness/probe.c; cached):
        returns (compiler flags switching off the unreachable groups, list of unreachable groups)"""
        path = os.path.join(self.dir, 'internals.json')
        if os.path.exists(path):
            with open(path) as f:
                missing = json.load(f)
        else:
            missing = []
            from concurrent.futures import ThreadPoolExecutor

            def probe(g):
                r = run(['gcc', '-O0', '-w', '-Werror=implicit-function-declaration', '-Werror=incompatible-pointer-types', '-DP_' + g] + INC +
                        [os.path.join(VERIF, 'harness', 'probe.c')] + lib_sources() + ['-o', os.path.join(self.dir, 'probe-' + g)])
                try:
                    os.unlink(os.path.join(self.dir, 'probe-' + g))
                except OSError:
                    pass
                return g, r.returncode
            with ThreadPoolExecutor(max_workers=len(self.GROUPS)) as ex:
                for g, rc in ex.map(probe, self.GROUPS):
                    if rc != 0:
                        missing.append(g)
            # nothing links at all: the tree itself does not build; not a matter of renamed internals
            if len(missing) == len(self.GROUPS):
                missing = []
            with open(path + '.tmp', 'w') as f:
                json.dump(missing, f)
            os.rename(path + '.tmp', path)
        return ['-DDRV_NO_' + g for g in missing], missing

    def translate(self):
        """dumper (compiled from the tree) -> dump.txt -> Gen/*.lean. Returns error text or None."""
        if not os.path.exists(self.dump):
            exe = os.path.join(self.dir, 'dump')
            srcs = [os.path.join(VERIF, 'gen', 'dump.c')] + [s for s in lib_sources() if os.path.basename(s) != 'polyseed.c']
            r = run(['gcc', '-O0', '-w'] + self.internals()[0] + INC + srcs + ['-o', exe])
            if r.returncode != 0:
                return 'dumper does not compile against the tree:\n' + r.stdout[-3000:]
            r = run([exe], stderr=subprocess.PIPE)
            if r.returncode != 0:
                return 'dumper failed: ' + (r.stderr or '')[-2000:]
            with open(self.dump + '.tmp', 'w') as f:
                f.write(r.stdout)
            os.rename(self.dump + '.tmp', self.dump)
        r = run([sys.executable, os.path.join(VERIF, 'gen', 'emit.py'), self.dump, LEAN])
        if r.returncode != 0:
            return 'emit.py failed: ' + r.stdout[-2000:]
        # function translator: typed clang AST of the current source -> Gen/Funcs.lean (tied by Tables.Funcs)
        r = run([sys.executable, os.path.join(VERIF, 'gen', 'ctrans.py'), REPO, LEAN], stderr=subprocess.PIPE)
        if r.returncode != 0:
            return 'ctrans.py failed: ' + ((r.stderr or '') + r.stdout)[-2000:]
        try:
            self.funcs = json.loads(r.stdout)
        except ValueError:
            return 'ctrans.py: unreadable status: ' + r.stdout[-500:]
        return None

    def harness(self, variant):
        """build (cached) a harness variant; returns (path, error)"""
        v = VARIANTS[variant]
        exe = os.path.join(self.dir, 'drv-' + variant)
        if os.path.exists(exe):
            return exe, None
        cmd = [v['cc']] + v['flags'] + ['-w'] + self.internals()[0] + INC + [os.path.join(VERIF, 'harness', 'drv.c')] + lib_sources() + \
              ['-Wl,--wrap=malloc,--wrap=free,--wrap=time', '-lutf8proc', '-o', exe + '.tmp']
        r = run(cmd)
        if r.returncode != 0:
            return None, 'harness variant %s does not build:\n%s' % (variant, r.stdout[-3000:])
        os.rename(exe + '.tmp', exe)
        return exe, None


def build_aux(tree, name, src, cc, flags, libs):
    """build (cached) an auxiliary harness program from the tree; returns (path, error)"""
    exe = os.path.join(tree.dir, name)
    if os.path.exists(exe):
        return exe, None
    cmd = [cc] + flags + ['-w'] + INC + [os.path.join(VERIF, 'harness', src)] + lib_sources() + libs + ['-o', exe + '.tmp']
    r = run(cmd)
    if r.returncode != 0:
        return None, '%s does not build (%s %s):\n%s' % (src, cc, ' '.join(flags), r.stdout[-3000:])
    os.rename(exe + '.tmp', exe)
    return exe, None


VARIANTS = {
    'asan': dict(cc='gcc', flags=['-O1', '-g', '-fsanitize=address,undefined', '-fno-sanitize-recover=all', '-DNDEBUG']),
    'asan-dbg': dict(cc='gcc', flags=['-O1', '-g', '-fsanitize=address,undefined', '-fno-sanitize-recover=all']),
    'o2': dict(cc='gcc', flags=['-O2', '-DNDEBUG']),
    'o0': dict(cc='gcc', flags=['-O0', '-DNDEBUG']),
    'unsigned': dict(cc='gcc', flags=['-O1', '-g', '-funsigned-char', '-fsanitize=address,undefined', '-fno-sanitize-recover=all', '-DNDEBUG']),
    'watch': dict(cc='gcc', flags=['-O1', '-g', '-no-pie', '-DNDEBUG']),
    'clang': dict(cc='clang', flags=['-O2', '-DNDEBUG']),
    'clang-unsigned': dict(cc='clang', flags=['-O2', '-funsigned-char', '-DNDEBUG']),
}


# ------------------------------------------------------------------ Lean

def lake_build(targets):
    """returns (ok, output)"""
    r = run(['lake', 'build'] + targets, cwd=LEAN)
    return r.returncode == 0, r.stdout


def import_closure(modules):
    """Polyseed.* modules reachable from the given ones through `import` lines (Gen/Pinned tables excluded)"""
    seen, todo = [], list(modules)
    while todo:
        m = todo.pop()
        if m in seen or not m.startswith('Polyseed.'):
            continue
        path = os.path.join(LEAN, m.replace('.', '/') + '.lean')
        if not os.path.exists(path):
            continue
        seen.append(m)
        with open(path) as f:
            for line in f:
                mm = re.match(r'\s*import\s+(\S+)', line)
                if mm:
                    todo.append(mm.group(1))
    return [m for m in seen if '.Gen.' not in m and '.Pinned.' not in m]


def leancheck(modules):
    """independent re-check of compiled modules with leanchecker (one module per call); returns (failed: list of (module, text), checked: int)"""
    from concurrent.futures import ThreadPoolExecutor
    def one(m):
        r = run(['lake', 'env', 'leanchecker', m], cwd=LEAN)
        bad = r.returncode != 0 or 'uncaught exception' in r.stdout or 'error' in r.stdout.lower()
        return (m, r.stdout[-800:]) if bad else None
    with ThreadPoolExecutor(max_workers=max(2, NPROC // 2)) as ex:
        res = list(ex.map(one, modules))
    return [r for r in res if r], len(modules)


def driver_path():
    return os.path.join(LEAN, '.lake', 'build', 'bin', 'driver')


def theorem_names(module):
    """theorem names declared in a Props module, with their namespace"""
    path = os.path.join(LEAN, module.replace('.', '/') + '.lean')
    names = []
    ns = []
    with open(path) as f:
        for line in f:
            m = re.match(r'\s*namespace\s+(\S+)', line)
            if m:
                ns.append(m.group(1))
            m = re.match(r'\s*end\s+(\S+)', line)
            if m and ns and ns[-1] == m.group(1):
                ns.pop()
            m = re.match(r'\s*(?:protected\s+|private\s+)?theorem\s+([^\s:({\[]+)', line)
            if m:
                names.append('.'.join(ns + [m.group(1)]))
    return names


def failing_theorems(output):
    """map `error: File.lean:line:col` of a lake build log to the enclosing theorem names"""
    res = []
    for m in re.finditer(r'error: (\S+?\.lean):(\d+):(\d+): (.*)', output):
        path, line = m.group(1), int(m.group(2))
        full = path if os.path.isabs(path) else os.path.join(LEAN, path)
        name = None
        try:
            with open(full) as f:
                lines = f.readlines()
            for i in range(min(line, len(lines)) - 1, -1, -1):
                mm = re.match(r'\s*(?:theorem|def|example|lemma|instance)\s+([^\s:({\[]+)?', lines[i])
                if mm:
                    name = mm.group(1) or ('example@%d' % (i + 1))
                    break
        except OSError:
            pass
        res.append('%s:%d %s: %s' % (os.path.relpath(full, LEAN), line, name or '?', m.group(4)[:200]))
    if not res:
        for m in re.finditer(r'error: (.*)', output):
            res.append(m.group(1)[:300])
    return res


def lean_sources():
    out = []
    for root, _, files in os.walk(os.path.join(LEAN, 'Polyseed')):
        for fn in files:
            if fn.endswith('.lean'):
                out.append(os.path.join(root, fn))
    out.append(os.path.join(LEAN, 'Main.lean'))
    out.append(os.path.join(LEAN, 'Polyseed.lean'))
    return out


def strip_comments(text):
    # remove nested block comments and line comments
    out = []
    i, depth, n = 0, 0, len(text)
    while i < n:
        if text.startswith('/-', i):
            depth += 1
            i += 2
        elif depth and text.startswith('-/', i):
            depth -= 1
            i += 2
        elif depth:
            if text[i] == '\n':
                out.append('\n')
            i += 1
        elif text.startswith('--', i):
            while i < n and text[i] != '\n':
                i += 1
        else:
            out.append(text[i])
            i += 1
    return ''.join(out)


def audit_sources():
    """grep for forbidden constructs outside comments; returns list of hits"""
    hits = []
    for p in lean_sources():
        try:
            with open(p) as f:
                body = strip_comments(f.read())
        except OSError:
            continue
        for ln, line in enumerate(body.split('\n'), 1):
            if FORBIDDEN.search(line):
                hits.append('%s:%d: %s' % (os.path.relpath(p, LEAN), ln, line.strip()[:120]))
    return hits


def print_axioms(modules, names):
    """returns {name: [axioms]} via `#print axioms`; names missing from the environment map to None"""
    if not names:
        return {}, ''
    tmp = os.path.join(CACHE, 'axioms-%d.lean' % os.getpid())
    with open(tmp, 'w') as f:
        for m in modules:
            f.write('import %s\n' % m)
        for n in names:
            f.write('#print axioms %s\n' % n)
    r = run(['lake', 'env', 'lean', tmp], cwd=LEAN)
    os.unlink(tmp)
    res = {n: None for n in names}
    text = r.stdout
    for n in names:
        short = re.escape(n)
        m = re.search(r"'%s' depends on axioms: \[([^\]]*)\]" % short, text, re.S)
        if m:
            res[n] = [a.strip() for a in m.group(1).replace('\n', ' ').split(',') if a.strip()]
            continue
        if re.search(r"'%s' does not depend on any axioms" % short, text):
            res[n] = []
    return res, text


# ------------------------------------------------------------------ correspondence

class Op:
    __slots__ = ('head', 'events', 'result', 'complaints', 'line_no')

    def __init__(self, head, line_no):
        self.head = head
        self.events = []
        self.result = None
        self.complaints = []
        self.line_no = line_no

    def block(self):
        return ['> ' + self.head] + self.events + (['< ' + self.result] if self.result is not None else []) + self.complaints

    def canon(self):
        # stack wipes inside one op are order-insensitive: sort each consecutive run
        ev = list(self.events)
        i = 0
        while i < len(ev):
            j = i
            while j < len(ev) and ' stack len=' in ev[j] and ev[j].startswith('E zero'):
                j += 1
            if j > i:
                ev[i:j] = sorted(ev[i:j])
                i = j
            else:
                i += 1
        return (self.head, tuple(ev), self.result)

    def cblock(self):
        h, ev, r = self.canon()
        return ['> ' + h] + list(ev) + (['< ' + r] if r is not None else [])

    def kv(self, key):
        m = re.search(r'(?:^|\s)%s=(\S+)' % re.escape(key), self.result or '')
        return m.group(1) if m else None


def parse_transcript(text):
    ops = []
    header = []
    cur = None
    for ln, line in enumerate(text.split('\n')):
        if line.startswith('> '):
            cur = Op(line[2:], ln)
            ops.append(cur)
        elif line.startswith('E ') and cur is not None:
            cur.events.append(line)
        elif line.startswith('< ') and cur is not None:
            cur.result = line[2:]
        elif line.startswith('<') and cur is not None and cur.result is None:
            cur.result = line[1:].lstrip()
        elif line.startswith('!'):
            if cur is not None:
                cur.complaints.append(line)
            else:
                header.append(line)
        elif line.startswith('#'):
            header.append(line)
    return header, ops


class CorrResult:
    def __init__(self):
        self.ops = 0
        self.mismatches = []   # (index, c_block, m_block)
        self.complaints = []   # (index, head, text)
        self.crash = None      # text
        self.c_ops = []
        self.header = []
        self.script = []
        self.variant = None
        self.suite = None
        self.wall = 0.0

    @property
    def ok(self):
        return not self.mismatches and not self.complaints and self.crash is None


def run_pair(tree, variant, script_lines, tag, cone=None):
    """run script on the real code (harness variant) and on the model; diff in the aspects named by `cone`
    (vlib/cone.py; None = everything). Returns CorrResult."""
    from . import cone as _cone
    t0 = time.time()
    res = CorrResult()
    res.variant = variant
    res.script = script_lines
    exe, err = tree.harness(variant)
    if err:
        res.crash = err
        return res
    base = os.path.join(tree.dir, 'run-%s-%s-%d' % (tag, variant, os.getpid()))
    with open(base + '.script', 'w') as f:
        f.write('\n'.join(script_lines) + '\n')
    env = dict(os.environ, ASAN_OPTIONS='detect_leaks=0:abort_on_error=0:exitcode=99', UBSAN_OPTIONS='print_stacktrace=1:exitcode=98', TZ='XXX5')
    with open(base + '.script') as fin, open(base + '.c', 'w') as fout, open(base + '.err', 'w') as ferr:
        rc = subprocess.run([exe], stdin=fin, stdout=fout, stderr=ferr, env=env).returncode
    with open(base + '.c', errors='replace') as f:
        ctext = f.read()
    with open(base + '.c') as fin, open(base + '.m', 'w') as fout:
        rm = subprocess.run([driver_path()], stdin=fin, stdout=fout, stderr=subprocess.PIPE, text=True)
    with open(base + '.m', errors='replace') as f:
        mtext = f.read()
    header, cops = parse_transcript(ctext)
    _, mops = parse_transcript(mtext)
    res.header = header
    res.c_ops = cops
    res.ops = len(cops)
    if rc != 0:
        with open(base + '.err', errors='replace') as f:
            errtxt = f.read()
        last = cops[-1].block() if cops else []
        res.crash = 'harness exit %d after op %r\n%s' % (rc, last[:1], errtxt[:3000])
    if rm.returncode != 0:
        res.crash = (res.crash or '') + '\nmodel driver exit %d: %s' % (rm.returncode, (rm.stderr or '')[:1000])
    for i, c in enumerate(cops):
        if c.complaints:
            res.complaints.append((i, c.head, '; '.join(c.complaints)))
        if c.head == 'skip':
            continue
        if c.result is None and i == len(cops) - 1 and rc != 0:
            continue  # the crashing op itself, reported as crash
        m = mops[i] if i < len(mops) else None
        if m is None or (c.canon() != m.canon() and _cone.cone_differs(cone, c.cblock(), m.cblock())):
            res.mismatches.append((i, c.block(), m.block() if m else ['(model produced nothing)']))
            if len(res.mismatches) >= 25:
                break
    for hline in header:
        if hline.startswith('!'):
            res.complaints.append((-1, 'header', hline))
    for ext in ('.script', '.c', '.m', '.err'):
        try:
            os.unlink(base + ext)
        except OSError:
            pass
    res.wall = time.time() - t0
    return res


def run_c_only(tree, variant, script_lines, tag):
    """run a script on the real code only; returns (rc, header, ops, stderr)"""
    exe, err = tree.harness(variant)
    if err:
        return 97, [], [], err
    env = dict(os.environ, ASAN_OPTIONS='detect_leaks=0:exitcode=99', UBSAN_OPTIONS='print_stacktrace=1:exitcode=98', TZ='XXX5')
    r = subprocess.run([exe], input='\n'.join(script_lines) + '\n', stdout=subprocess.PIPE, stderr=subprocess.PIPE,
                       text=True, errors='replace', env=env)
    header, ops = parse_transcript(r.stdout)
    return r.returncode, header, ops, r.stderr


def run_model_only(ctext):
    r = subprocess.run([driver_path()], input=ctext, stdout=subprocess.PIPE, stderr=subprocess.PIPE, text=True)
    return parse_transcript(r.stdout)[1]


def minimise(tree, variant, script, fails, budget=40):
    """greedy line removal keeping `fails(script)` true; `fails` runs the pair"""
    cur = list(script)
    n = 0
    chunk = max(1, len(cur) // 2)
    while chunk >= 1 and n < budget:
        i = 0
        changed = False
        while i < len(cur) and n < budget:
            cand = cur[:i] + cur[i + chunk:]
            n += 1
            if cand and fails(cand):
                cur = cand
                changed = True
            else:
                i += chunk
        if chunk == 1 and not changed:
            break
        chunk = max(1, chunk // 2) if chunk > 1 else (1 if changed else 0)
        if chunk == 0:
            break
    return cur


# ------------------------------------------------------------------ replay + evidence

def write_replay(prop, n, data):
    os.makedirs(REPLAYS, exist_ok=True)
    path = os.path.join(REPLAYS, '%s-%d.json' % (prop, n))
    with open(path, 'w') as f:
        json.dump(data, f, indent=1)
    return path


def write_evidence(prop, ev):
    os.makedirs(EVIDENCE, exist_ok=True)
    path = os.path.join(EVIDENCE, prop + '.json')
    with open(path + '.tmp', 'w') as f:
        json.dump(ev, f, indent=1)
    os.rename(path + '.tmp', path)
    return path


def known_findings():
    """returns (open: {prop: [(key, text)]}, fixed: [...])"""
    path = os.path.join(VERIF, 'KNOWN_FINDINGS.txt')
    op, fixed = {}, []
    if not os.path.exists(path):
        return op, fixed
    with open(path) as f:
        for line in f:
            line = line.strip()
            if not line or line.startswith('#'):
                continue
            m = re.match(r'open:\s+property=(\S+)\s+key=(\S+)\s+(.*)', line)
            if m:
                op.setdefault(m.group(1), []).append((m.group(2), m.group(3)))
            elif line.startswith('fixed:'):
                fixed.append(line)
    return op, fixed
