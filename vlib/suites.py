"""Correspondence suites: script generators (one PRNG, seeded from VERIF_SEED) plus
property oracles that judge the REAL code's transcript by the property statement
itself (expected values from vlib.spec)."""
import random
import unicodedata

from . import spec

EPOCH, STEP = spec.EPOCH, spec.TIME_STEP


def hx(b):
    return bytes(b).hex() if len(b) else '-'


class Suite:
    def __init__(self, name, script, variants=('asan',), oracles=None, note='', exhaustive=False):
        self.name = name
        self.script = script
        self.variants = variants
        self.oracles = oracles or []   # list of fn(ops) -> list of (prop, key, message, script_lines)
        self.note = note
        self.exhaustive = exhaustive


INJECT = 'inject 11 12 13 14 15 16 17 18'

# ---------------------------------------------------------------- S-gf


def suite_gf(ctx):
    rnd = ctx.rnd('gf')
    s = ['mul2 %d' % x for x in range(2048)]
    # every position x every value: single non-zero coefficient (basis of the linear map)
    step = 1 if ctx.thorough else 7
    for pos in range(16):
        for v in range(rnd.randrange(step) if step > 1 else 0, 2048, step):
            c = [0] * 16
            c[pos] = v
            s.append('eval ' + ' '.join(map(str, c)))
    for _ in range(20000 if ctx.thorough else 3000):
        s.append('eval ' + ' '.join(str(rnd.randrange(2048)) for _ in range(16)))
    # valid code words (check must be 1)
    for _ in range(2000 if ctx.thorough else 300):
        c = [0] + [rnd.randrange(2048) for _ in range(15)]
        c[0] = spec.poly_eval(c)
        s.append('eval ' + ' '.join(map(str, c)))

    def oracle(ops):
        bad = []
        for op in ops:
            if op.head.startswith('mul2 '):
                x = int(op.head.split()[1])
                if op.kv('v') != str(spec.mul2(x)):
                    bad.append(('C02', 'mul2', 'gf_elem_mul2(%d) = %s, multiplication by x mod x^11+x^2+1 gives %d' % (x, op.kv('v'), spec.mul2(x)), [op.head]))
            elif op.head.startswith('eval '):
                c = [int(t) for t in op.head.split()[1:]]
                if op.kv('v') != str(spec.poly_eval(c)):
                    bad.append(('C02', 'eval', 'gf_poly_eval%r = %s, expected %d' % (c, op.kv('v'), spec.poly_eval(c)), [op.head]))
        return bad
    return Suite('gf', s, oracles=[oracle], note='mul2 on all 2048 field elements; eval on unit vectors, random and valid polynomials', exhaustive=True)


# ---------------------------------------------------------------- S-bday

def bday_times(ctx, rnd):
    ts = [0, 1, EPOCH - 1, EPOCH, EPOCH + 1, 2 ** 31 - 1, 2 ** 31, 2 ** 32 - 1, 2 ** 32, 2 ** 32 + 1, 2 ** 63 - 1, 2 ** 63,
          2 ** 64 - 1, 2 ** 64 - 2, EPOCH + 1024 * STEP - 1, EPOCH + 1024 * STEP, EPOCH + 1024 * STEP + 1,
          EPOCH + 2048 * STEP - 1, EPOCH + 2048 * STEP]
    for k in range(1025):
        for d in (-1, 0, 1):
            ts.append(EPOCH + k * STEP + d)
    for _ in range(4000 if ctx.thorough else 600):
        ts.append(EPOCH + rnd.randrange(1024 * STEP))
    for _ in range(1000 if ctx.thorough else 200):
        ts.append(rnd.randrange(2 ** 64))
    for _ in range(200):
        ts.append(rnd.randrange(EPOCH))
    return [t for t in ts if 0 <= t < 2 ** 64]


def suite_bday(ctx):
    rnd = ctx.rnd('bday')
    s = ['bdayenc %d' % t for t in bday_times(ctx, rnd)]
    s += ['bdaydec %d' % b for b in range(1024)]

    def oracle(ops):
        bad = []
        enc = {}
        for op in ops:
            if op.head.startswith('bdayenc '):
                enc[int(op.head.split()[1])] = int(op.kv('v'))
        for t, b in enc.items():
            B = EPOCH + b * STEP
            msg = None
            if not (0 <= b < 1024):
                msg = 'birthday index %d out of range for t=%d' % (b, t)
            elif t < EPOCH or t == 2 ** 64 - 1:
                if b != 0:
                    msg = 't=%d (before the epoch / error value) reports birthday index %d, not the epoch' % (t, b)
            elif B > t:
                msg = 't=%d reports birthday %d which is later than t' % (t, B)
            elif t < EPOCH + 1024 * STEP and not (B <= t < B + STEP):
                msg = 't=%d reports birthday %d: not within one month' % (t, B)
            if msg:
                bad.append(('C11', 'birthday_encode', msg, ['bdayenc %d' % t]))
        for op in ops:
            if op.head.startswith('bdaydec '):
                b = int(op.head.split()[1])
                if op.kv('v') != str(EPOCH + b * STEP):
                    bad.append(('C11', 'birthday_decode', 'index %d decodes to %s, expected %d' % (b, op.kv('v'), EPOCH + b * STEP), [op.head]))
        return bad
    return Suite('bday', s, oracles=[oracle], note='all 1025 month boundaries -1/0/+1, epoch, 0, 2^31/2^32/2^63/2^64 neighbours, random')


# ---------------------------------------------------------------- S-feat

def suite_feat(ctx):
    rnd = ctx.rnd('feat')
    s = [INJECT]
    masks = list(range(8)) + [8, 16, 31, 32, 0xFFFFFFF8, 0xFFFFFFFF, 0x80000001, 9, 21]
    for m in masks:
        s.append('features %d' % m)
        for f in range(32):
            s.append('supported %d' % f)
        for f in list(range(8)) + [8, 9, 16, 17, 31, 0xFFFFFFF8 | 1, 0xFFFFFFFF]:
            s.append('create 0 %d' % f)
            s.append('dump 0')
            for q in (1, 2, 4, 7, 8, 16, 31, 0xFFFFFFFF):
                s.append('feature 0 %d' % q)
            s.append('isenc 0')
    # sequences of enabling calls: the last one wins
    for _ in range(300 if ctx.thorough else 60):
        seq = [rnd.choice(masks) for _ in range(rnd.randrange(1, 4))]
        for m in seq:
            s.append('features %d' % m)
        for f in range(32):
            s.append('supported %d' % f)
    s.append('features 0')

    def oracle(ops):
        bad = []
        mask = 0
        hist = []
        for op in ops:
            t = op.head.split()
            if t[0] == 'features':
                m = int(t[1])
                hist.append(op.head)
                mask = m & 7
                if op.kv('n') != str(bin(m & 7).count('1')):
                    bad.append(('C10', 'enable-return', 'enable_features(%d) returned %s, %d user bits are set' % (m, op.kv('n'), bin(m & 7).count('1')), [op.head]))
            elif t[0] == 'supported':
                f = int(t[1])
                exp = 1 if (f & 31 & ~(mask | 16)) == 0 else 0
                if op.kv('v') != str(exp):
                    bad.append(('C10', 'supported', 'with user mask %d enabled, feature value %d is %s by polyseed_features_supported but must be %s' % (mask, f, 'accepted' if op.kv('v') == '1' else 'refused', 'accepted' if exp else 'refused'), hist[-3:] + [op.head]))
            elif t[0] == 'create':
                f = int(t[1]) & 7
                exp = 0 if (f & ~mask) == 0 else 4
                if op.kv('st') != str(exp):
                    bad.append(('C10', 'create', 'create(%s) with mask %d returned status %s, expected %d' % (t[1], mask, op.kv('st'), exp), [INJECT] + hist[-3:] + [op.head]))
        return bad
    return Suite('feat', s, oracles=[oracle], note='8 masks + arguments with high bits x 32 feature values x supported/create/get_feature; enabling sequences', exhaustive=True)


# ---------------------------------------------------------------- S-pack

def rand_secret(rnd):
    k = rnd.randrange(8)
    if k == 0:
        b = [0] * 19
    elif k == 1:
        b = [255] * 18 + [63]
    elif k == 2:
        b = [0] * 19
        i = rnd.randrange(150)
        if i < 144:
            b[i // 8] = 128 >> (i % 8)
        else:
            b[18] = 32 >> (i - 144)
    else:
        b = [rnd.randrange(256) for _ in range(18)] + [rnd.randrange(64)]
    return b


def bit_seed(i):
    """the i-th of the 165 single-bit seeds: (secret19, birthday, features)"""
    b = [0] * 19
    if i < 144:
        b[i // 8] = 128 >> (i % 8)
        return b, 0, 0
    if i < 150:
        b[18] = 32 >> (i - 144)
        return b, 0, 0
    if i < 160:
        return b, 1 << (i - 150), 0
    return b, 0, 1 << (i - 160)


def suite_pack(ctx):
    rnd = ctx.rnd('pack')
    s = []
    seeds = [bit_seed(i) for i in range(165)]
    pairs = [(i, j) for i in range(165) for j in range(i + 1, 165)]
    if not ctx.thorough:
        pairs = rnd.sample(pairs, 2500)
    for (i, j) in pairs:
        a, b = bit_seed(i), bit_seed(j)
        seeds.append(([x | y for x, y in zip(a[0], b[0])], a[1] | b[1], a[2] | b[2]))
    for _ in range(20000 if ctx.thorough else 3000):
        seeds.append((rand_secret(rnd), rnd.randrange(1024), rnd.randrange(32)))
    seeds.append(([255] * 18 + [63], 1023, 31))
    for sec, b, f in seeds:
        s.append('pack %d %d %s' % (b, f, hx(sec + [0] * 13)))
        p = spec.poly(sec, b, f)
        s.append('unpack ' + ' '.join(map(str, p)))
    # non-canonical inputs the code may also meet (byte 18 with the two top bits set is masked by callers; pack itself ignores them)
    for _ in range(300):
        sec = [rnd.randrange(256) for _ in range(19)]
        s.append('pack %d %d %s' % (rnd.randrange(1024), rnd.randrange(32), hx(sec + [0] * 13)))
    for _ in range(3000 if ctx.thorough else 500):
        s.append('unpack ' + ' '.join(str(rnd.randrange(2048)) for _ in range(16)))

    def oracle(ops):
        bad = []
        for op in ops:
            t = op.head.split()
            if t[0] == 'pack':
                b, f = int(t[1]), int(t[2])
                sec = list(bytes.fromhex(t[3]))[:19]
                if sec[18] >= 64:
                    continue
                exp = ' '.join(map(str, spec.coeffs(sec, b, f)))
                if (op.result or '').strip() != exp:
                    bad.append(('C03', 'data_to_poly', 'coefficients for secret=%s birthday=%d features=%d are [%s], the published layout gives [%s]' % (hx(sec), b, f, (op.result or '').strip(), exp), [op.head]))
            elif t[0] == 'unpack':
                p = [int(x) for x in t[1:]]
                sec, b, f, chk = spec.unpack(p)
                exp = 'b=%d f=%d secret=%s chk=%d' % (b, f, hx(sec + [0] * 13), chk)
                if op.result != exp:
                    bad.append(('C03', 'poly_to_data', 'unpack %r gives "%s", the published layout gives "%s"' % (p, op.result, exp), [op.head]))
        return bad
    return Suite('pack', s, oracles=[oracle], note='165 single-bit seeds, pairs of them, random and extremal seeds; unpack of their images and of random coefficient vectors',
                 exhaustive=ctx.thorough)


# ---------------------------------------------------------------- S-store

def suite_store(ctx):
    rnd = ctx.rnd('store')
    s = []
    imgs = []
    for _ in range(400 if ctx.thorough else 80):
        sec, b, f = rand_secret(rnd), rnd.randrange(1024), rnd.randrange(32)
        chk = spec.checksum(sec, b, f)
        s.append('dstore %d %d %s %d' % (b, f, hx(sec + [0] * 13), chk))
        imgs.append(spec.storage(sec, b, f))
        s.append('dload ' + imgs[-1].hex())
    # dstore of non-canonical data (what a uint16 conversion does with large fields)
    for _ in range(200):
        s.append('dstore %d %d %s %d' % (rnd.randrange(2 ** 12), rnd.randrange(2 ** 8), hx([rnd.randrange(256) for _ in range(32)]), rnd.randrange(2 ** 13)))
    base = imgs[:3]
    for img in base:
        for pos in range(8):
            for v in (range(256) if ctx.thorough or pos in (0, 7) else rnd.sample(range(256), 24)):
                m = bytearray(img); m[pos] = v
                s.append('dload ' + m.hex())
        v1s = range(65536) if ctx.thorough else sorted(set(rnd.sample(range(65536), 3000) + [0, 0x7FFF, 0x8000, 0xFFFF, 0x7C00, 0x8400]))
        for v in v1s:
            m = bytearray(img); m[8] = v & 255; m[9] = v >> 8
            s.append('dload ' + m.hex())
        for v in range(256):
            m = bytearray(img); m[28] = v
            s.append('dload ' + m.hex())
            m = bytearray(img); m[29] = v
            s.append('dload ' + m.hex())
        v2s = range(65536) if ctx.thorough else sorted(set(rnd.sample(range(65536), 3000) + [0x7000, 0x77FF, 0x7800, 0x6FFF, 0xF000, 0x0000]))
        for v in v2s:
            m = bytearray(img); m[30] = v & 255; m[31] = v >> 8
            s.append('dload ' + m.hex())
    for _ in range(5000 if ctx.thorough else 800):
        img = bytearray(rnd.choice(imgs))
        for _ in range(rnd.randrange(1, 4)):
            img[rnd.randrange(32)] ^= 1 << rnd.randrange(8)
        s.append('dload ' + img.hex())
    for _ in range(500):
        s.append('dload ' + bytes(rnd.randrange(256) for _ in range(32)).hex())

    def oracle(ops):
        bad = []
        for op in ops:
            t = op.head.split()
            if t[0] == 'dstore':
                b, f, chk = int(t[1]), int(t[2]), int(t[4])
                sec = list(bytes.fromhex(t[3]))
                if b < 1024 and f < 32 and chk < 2048:
                    exp = spec.storage(sec[:19], b, f, chk).hex()
                    if op.kv('buf') != exp:
                        bad.append(('C06', 'data_store', 'store of b=%d f=%d chk=%d gives %s, the published format is %s' % (b, f, chk, op.kv('buf'), exp), [op.head]))
            elif t[0] == 'dload':
                buf = bytes.fromhex(t[1])
                wf = (buf[:8] == b'POLYSEED' and (buf[9] >> 7) == 0 and buf[28] < 64 and buf[29] == 0xFF and (buf[31] & 0xF8) == 0x70)
                st = op.kv('st')
                if wf and st != '0':
                    bad.append(('C06', 'data_load', 'well-formed buffer %s rejected with status %s' % (buf.hex(), st), [op.head]))
                if not wf and st != '5':
                    bad.append(('C06', 'data_load', 'malformed buffer %s gives status %s, expected the format status' % (buf.hex(), st), [op.head]))
        return bad
    return Suite('store', s, oracles=[oracle], note='store of random seeds; load of valid images, field-wise mutations (header bytes, v1, byte 28, byte 29, v2), bit flips and random buffers',
                 exhaustive=ctx.thorough)


# ---------------------------------------------------------------- S-find

def strip_marks_u(u):
    return ''.join(c for c in u if not unicodedata.combining(c))


def rule_match(L, tok, word):
    """C08's rule, written from the property statement: exact word, or a prefix of at least four
    characters; accents (combining marks of the NFKD form) ignored in Spanish and French."""
    try:
        t = unicodedata.normalize('NFKD', tok.decode('utf-8'))
        w = word.decode('utf-8')
    except UnicodeDecodeError:
        return tok == word
    if L['accents']:
        t, w = strip_marks_u(t), strip_marks_u(w)
    else:
        t = t if tok.decode('utf-8') == t else tok.decode('utf-8')
    if t == w:
        return True
    return bool(L['prefix']) and len(t) >= 4 and w.startswith(t)


class RuleIndex:
    """C08's rule as a lookup structure: candidates(tok) = indices of the words the rule accepts the token for"""

    def __init__(self, L, words, code=False):
        """code=True: the matcher's own comparison form (every byte >= 0x80 dropped in the accent-folding languages,
        proved in Props/C08.find_iff_rule) instead of the property's (combining accents dropped); they differ by finding D6 only"""
        import bisect
        self.L = L
        self.code = code
        self.bisect = bisect
        self.raw = {}
        for i, w in enumerate(words):
            self.raw.setdefault(w, []).append(i)
        self.keys = []
        for i, w in enumerate(words):
            try:
                u = w.decode('utf-8')
            except UnicodeDecodeError:
                u = None
            if code:
                u = bytes(b for b in w if b < 0x80 or not L['accents']).decode('latin-1')
            elif u is not None and L['accents']:
                u = strip_marks_u(u)
            self.keys.append(u)
        self.sorted = sorted((k, i) for i, k in enumerate(self.keys) if k is not None)
        self.skeys = [k for k, _ in self.sorted]

    def candidates(self, tok):
        if not tok:
            return []
        if self.code:
            t = bytes(b for b in tok if b < 0x80 or not self.L['accents']).decode('latin-1')
            lo = self.bisect.bisect_left(self.skeys, t)
            out = []
            j = lo
            while j < len(self.skeys) and self.skeys[j].startswith(t):
                k, i = self.sorted[j]
                if k == t or (self.L['prefix'] and len(t) >= 4):
                    out.append(i)
                j += 1
            return sorted(out)
        try:
            t0 = tok.decode('utf-8')
        except UnicodeDecodeError:
            return list(self.raw.get(tok, []))
        t = unicodedata.normalize('NFKD', t0)
        if self.L['accents']:
            t = strip_marks_u(t)
        else:
            t = t0
        lo = self.bisect.bisect_left(self.skeys, t)
        out = []
        j = lo
        while j < len(self.skeys) and self.skeys[j].startswith(t):
            k, i = self.sorted[j]
            if k == t or (self.L['prefix'] and len(t) >= 4):
                out.append(i)
            j += 1
        return sorted(out)


def word_variants(L, word, rnd, full):
    """tokens derived from one word: every prefix length, accents kept/dropped (every subset for short words), continuations"""
    out = [word]
    try:
        u = word.decode('utf-8')
    except UnicodeDecodeError:
        return out
    base = [i for i, c in enumerate(u) if not unicodedata.combining(c)]
    cuts = list(range(1, len(base) + 1))
    for k in cuts:
        end = base[k] if k < len(base) else len(u)
        p = u[:end]                      # keeps the accents of the kept letters
        out.append(p.encode())
        marks = [i for i, c in enumerate(p) if unicodedata.combining(c)]
        if marks:
            subsets = range(1, 1 << len(marks)) if len(marks) <= 3 else [rnd.randrange(1, 1 << len(marks)) for _ in range(4)]
            for m in subsets:
                q = ''.join(c for i, c in enumerate(p) if not (i in marks and (m >> marks.index(i)) & 1))
                out.append(q.encode())
    # composed input form (what a user types) only matters through NFKD, exercised via the API; here: raw continuations
    out.append(word + b'x')
    out.append(word + b's')
    if full:
        out.append(word + '日'.encode())     # a non-accent non-ASCII continuation
        out.append(word[:-1] if len(word) > 1 else word)
        out.append(word + b'\xcc\x81')
    return out


def suite_find(ctx):
    rnd = ctx.rnd('find')
    Ls = ctx.langs
    s = []
    exp = {}
    stride = 1 if ctx.thorough else 6
    for li in range(Ls.n):
        L = Ls.langs[li]
        words = Ls.words(li)
        off = rnd.randrange(stride)
        for wi in range(len(words)):
            # every word in full, always (C07: each word decodes to its own index); variants for every stride-th word
            toks = word_variants(L, words[wi], rnd, (wi // stride) % 4 == 0) if wi % stride == off else [words[wi]]
            for tok in toks:
                if b'\x00' in tok or not tok:
                    continue
                line = 'find %d %s' % (li, hx(tok))
                if line not in exp:
                    exp[line] = (li, tok)
                    s.append(line)
        s.append('find %d -' % li)
    # synthetic flag combinations (reach compare_str_noaccent, which no shipped language selects)
    for li, flags in [(3, 0b1010), (3, 0b1000), (3, 0b1110), (0, 0b1000), (0, 0b1100), (4, 0b1010), (8, 0b0000), (2, 0b1000)]:
        if li >= Ls.n:
            continue
        words = Ls.words(li)
        for wi in rnd.sample(range(len(words)), 150 if ctx.thorough else 40):
            for tok in word_variants(Ls.langs[li], words[wi], rnd, True)[:12]:
                if tok and b'\x00' not in tok:
                    s.append('findx %d %d %s' % (li, flags, hx(tok)))

    def oracle(ops):
        bad = []
        cache = {}
        idx = {li: RuleIndex(Ls.langs[li], Ls.words(li)) for li in range(Ls.n)}
        for op in ops:
            if not op.head.startswith('find '):
                continue
            t = op.head.split()
            li = int(t[1])
            tok = b'' if t[2] == '-' else bytes.fromhex(t[2])
            L = Ls.langs[li]
            words = Ls.words(li)
            got = int(op.kv('v'))
            # candidates by the rule
            if li not in cache:
                cache[li] = {}
            # cheap candidate search: exact or prefix over the table
            cand = idx[li].candidates(tok)
            want = cand[0] if len(cand) == 1 else (-1 if not cand else None)
            if want is None:
                # ambiguous by the rule itself: the table facts (C07) exclude this
                bad.append(('C07', 'ambiguous-token', 'token %r is accepted for several words %s by the rule' % (tok, cand[:4]), [op.head]))
                continue
            if got != want and tok in idx[li].raw:
                bad.append(('C07', 'full-word:%d' % li, 'lang %d (%s): the word "%s" (index %s) typed in full is %s' % (
                    li, L['name_en'].decode(), tok.decode('utf-8', 'replace'), idx[li].raw[tok], 'not recognised' if got < 0 else 'recognised as index %d' % got), [op.head]))
            if got != want:
                try:
                    ts = tok.decode('utf-8')
                except UnicodeDecodeError:
                    ts = repr(tok)
                if want >= 0 and got == -1 and L['accents'] and tok[-1] >= 0x80:
                    key = 'prefix-ending-in-accent'
                elif want == -1 and got >= 0 and L['accents'] and any(b >= 0x80 for b in tok):
                    key = 'non-accent-nonascii-ignored'
                else:
                    key = 'find-rule'
                bad.append(('C08', key, 'lang %d (%s): token "%s" (%s) is %s, the rule says %s' % (
                    li, L['name_en'].decode(), ts, tok.hex(), 'rejected' if got < 0 else 'accepted as word %d "%s"' % (got, words[got].decode('utf-8', 'replace')),
                    'no word matches' if want < 0 else 'it is word %d "%s"' % (want, words[want].decode('utf-8', 'replace'))), [op.head]))
        return bad
    return Suite('find', s, oracles=[oracle], exhaustive=ctx.thorough,
                 note='every %s word of every language x every prefix length x accents kept/dropped (all subsets up to 3 marks) x continuations, through polyseed_lang_find_word; synthetic flag combinations' % ('' if ctx.thorough else '6th'))


# ---------------------------------------------------------------- S-detect (unit-level auto-detection)

def suite_detect(ctx):
    rnd = ctx.rnd('detect')
    Ls = ctx.langs
    s = [INJECT]
    pools = {li: Ls.words(li) for li in range(Ls.n)}
    common = {}
    for a in range(Ls.n):
        for b in range(a + 1, Ls.n):
            c = list(set(pools[a]) & set(pools[b]))
            if len(c) >= 4:
                common[(a, b)] = c
    for _ in range(3000 if ctx.thorough else 500):
        li = rnd.randrange(Ls.n)
        toks = [rnd.choice(pools[li]) for _ in range(16)]
        k = rnd.random()
        if k < 0.25 and common:
            (a, b) = rnd.choice(list(common))
            toks = [rnd.choice(common[(a, b)]) for _ in range(16)]
            if rnd.random() < 0.5:
                toks[rnd.randrange(16)] = rnd.choice(pools[a])
        elif k < 0.45:
            lj = rnd.randrange(Ls.n)
            toks[rnd.randrange(16)] = rnd.choice(pools[lj])
        elif k < 0.55:
            toks[rnd.randrange(16)] = b''
        elif k < 0.65:
            toks[rnd.randrange(16)] = b'zzzz'
        elif k < 0.8:
            # abbreviations, and stray non-ASCII code points which the accent-folding matcher skips (first token included)
            for j in ([0] if rnd.random() < 0.5 else []) + rnd.sample(range(16), 3):
                t = toks[j]
                if Ls.langs[li]['prefix'] and len(t) > 5 and rnd.random() < 0.5:
                    t = t[:rnd.randrange(4, len(t))]
                    while t and (t[-1] & 0xC0) == 0x80 and len(t) > 4:
                        t = t[:-1]
                if Ls.langs[li]['accents']:
                    t = rnd.choice(['\ufeff', '\u65e5', '\u00b7']).encode() + t if rnd.random() < 0.6 else t + '\u0301'.encode()
                toks[j] = t
        s.append('pdecode ' + ' '.join(hx(t) for t in toks))
        if rnd.random() < 0.3:
            s.append('pdecodex %d ' % rnd.randrange(Ls.n) + ' '.join(hx(t) for t in toks))

    # always: in every language a stray non-ASCII code point before / after the first, a middle and the last token
    # (the accent-folding matcher of Spanish and French skips it, every other list must reject the token)
    for li in range(Ls.n):
        for stray in ('\ufeff', '\u65e5', '\u00b7', '\u00a1'):
            for pos in (0, 7, 15):
                for front in (True, False):
                    toks = [rnd.choice(pools[li]) for _ in range(16)]
                    toks[pos] = stray.encode() + toks[pos] if front else toks[pos] + stray.encode()
                    s.append('pdecode ' + ' '.join(hx(t) for t in toks))

    def oracle(ops):
        bad = []
        idx = {li: RuleIndex(Ls.langs[li], Ls.words(li), code=True) for li in range(Ls.n)}
        for op in ops:
            if not op.head.startswith('pdecode '):
                continue
            toks = [b'' if t == '-' else bytes.fromhex(t) for t in op.head.split()[1:]]
            rec = []
            for li in range(Ls.n):
                L = Ls.langs[li]
                ok = True
                for t in toks:
                    if not t or len(idx[li].candidates(t)) != 1:
                        ok = False
                        break
                if ok:
                    rec.append(li)
            st = op.kv('st')
            want = '2' if not rec else ('0' if len(rec) == 1 else '7')
            if st != want:
                bad.append(('C09', 'detect', 'languages %s recognise all 16 tokens but phrase_decode returned status %s (expected %s)' % (rec, st, want), [op.head]))
            elif st == '0' and op.kv('lang') != str(rec[0]):
                bad.append(('C09', 'detect-lang', 'reported language %s, the only recognising language is %d' % (op.kv('lang'), rec[0]), [op.head]))
        return bad
    return Suite('detect', s, oracles=[oracle], note='polyseed_phrase_decode on 16-token lists: single language, all-common words (Chinese lists share 1275), one foreign/empty/garbage token')


# ---------------------------------------------------------------- S-tables (translator cross-check)

def suite_tables(ctx):
    """every word, name and flag-dependent behaviour of every language as the REAL code has it vs the regenerated Lean tables:
    the tables the theorems talk about are the tables the code uses"""
    Ls = ctx.langs
    s = ['numlangs']
    for li in range(Ls.n + 1):
        s.append('langname %d' % li)
        for wi in range(2048):
            s.append('word %d %d' % (li, wi))
    return Suite('tables', s, note='all 20480 words and the language names read from the real library (polyseed_get_lang) vs Gen/*.lean', exhaustive=True)
