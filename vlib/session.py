"""Interactive session with a harness variant: ops are sent one at a time so the
generator can feed outputs of earlier calls (phrases, buffers) back as inputs.
The lines sent are recorded (= replay script), the transcript is kept for the
model diff."""
import os
import subprocess

from . import core


class Session:
    def __init__(self, tree, variant):
        self.variant = variant
        self.exe, err = tree.harness(variant)
        self.error = err
        self.script = []
        self.lines = []
        self.ops = []
        self.crashed = None
        self.header = []
        if err:
            self.crashed = err
            return
        self.errpath = os.path.join(tree.dir, 'sess-%d.err' % os.getpid())
        self.errf = open(self.errpath, 'w')
        env = dict(os.environ, ASAN_OPTIONS='detect_leaks=0:exitcode=99', UBSAN_OPTIONS='print_stacktrace=1:exitcode=98', TZ='XXX5')
        self.p = subprocess.Popen([self.exe], stdin=subprocess.PIPE, stdout=subprocess.PIPE, stderr=self.errf,
                                  text=True, bufsize=1, errors='replace', env=env)
        line = self.p.stdout.readline()
        self.lines.append(line.rstrip('\n'))
        self.header.append(line.rstrip('\n'))

    def directive(self, line):
        if self.crashed:
            return
        self.script.append(line)
        try:
            self.p.stdin.write(line + '\n')
        except (BrokenPipeError, OSError):
            self._dead()

    def _dead(self):
        rc = self.p.wait()
        self.errf.close()
        with open(self.errpath, errors='replace') as f:
            txt = f.read()
        self.crashed = 'harness exit %d after "%s"\n%s' % (rc, self.script[-1] if self.script else '', txt[:3000])

    def op(self, line):
        """send one op; returns core.Op or None (crash). A skipped op returns an Op with head 'skip'."""
        if self.crashed:
            return None
        self.script.append(line)
        try:
            self.p.stdin.write(line + '\n')
            self.p.stdin.flush()
        except (BrokenPipeError, OSError):
            self._dead()
            return None
        cur = None
        while True:
            out = self.p.stdout.readline()
            if out == '':
                self._dead()
                if cur is not None:
                    self.ops.append(cur)
                return None
            out = out.rstrip('\n')
            self.lines.append(out)
            if out.startswith('> '):
                cur = core.Op(out[2:], len(self.lines))
                if out == '> skip':
                    self.ops.append(cur)
                    return cur
            elif cur is None:
                if out.startswith('!'):
                    self.header.append(out)
                continue
            elif out.startswith('E '):
                cur.events.append(out)
            elif out.startswith('!'):
                cur.complaints.append(out)
            elif out.startswith('<'):
                cur.result = out[1:].lstrip()
                self.ops.append(cur)
                return cur

    def close(self):
        if self.error:
            return
        if not self.crashed:
            try:
                self.p.stdin.close()
            except OSError:
                pass
            rest = self.p.stdout.read()
            for l in rest.split('\n'):
                if l:
                    self.lines.append(l)
                    if l.startswith('#') or l.startswith('!'):
                        self.header.append(l)
            rc = self.p.wait()
            self.errf.close()
            if rc != 0:
                with open(self.errpath, errors='replace') as f:
                    self.crashed = 'harness exit %d at end of session\n%s' % (rc, f.read()[:3000])
        try:
            os.unlink(self.errpath)
        except OSError:
            pass

    def transcript(self):
        return '\n'.join(self.lines) + '\n'


def diff_with_model(sess, cone=None):
    """run the model on the session transcript; returns list of (index, c_block, m_block) that disagree in the
    aspects named by `cone` (vlib/cone.py; None = everything)"""
    from . import cone as _cone
    mops = core.run_model_only(sess.transcript())
    out = []
    cops = sess.ops
    for i, c in enumerate(cops):
        if c.head == 'skip':
            continue
        if c.result is None:
            continue
        m = mops[i] if i < len(mops) else None
        if m is None or (c.canon() != m.canon() and _cone.cone_differs(cone, c.cblock(), m.cblock())):
            out.append((i, c.block(), m.block() if m else ['(model produced nothing)']))
            if len(out) >= 25:
                break
    return out
