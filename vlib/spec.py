"""Independent rendering of the PUBLISHED polyseed format (README.md), used by the
generators to build valid inputs and by the property-directed searchers as the
expected value.  It shares no code with the repository or with the Lean model;
its agreement with the Lean `Spec` is itself checked through the driver
(`spec*` ops) in the correspondence suites.
"""
import unicodedata

EPOCH = 1635768000
TIME_STEP = 2629746
HEADER = b'POLYSEED'


def mul2(x):
    x <<= 1
    if x & 2048:
        x ^= 2048 | 5
    return x


def poly_eval(c):
    r = 0
    for v in reversed(c):
        r = mul2(r) ^ v
    return r


def coeffs(secret19, birthday, features):
    """15 data coefficients: 10 secret bits (MSB first) + 1 extra bit, extra = features(5) ++ birthday(10)."""
    assert len(secret19) == 19 and secret19[18] < 64
    S = (int.from_bytes(bytes(secret19[:18]), 'big') << 6) | secret19[18]
    E = (features << 10) | birthday
    out = []
    for i in range(15):
        s = (S >> (10 * (14 - i))) & 1023
        e = (E >> (14 - i)) & 1
        out.append((s << 1) | e)
    return out


def checksum(secret19, birthday, features):
    cs = coeffs(secret19, birthday, features)
    return poly_eval([0] + cs)


def poly(secret19, birthday, features, coin=0):
    cs = coeffs(secret19, birthday, features)
    p = [poly_eval([0] + cs)] + cs
    p[1] ^= coin
    return p


def unpack(p):
    """inverse of coeffs on 16 coefficients (coin already removed): (secret19, birthday, features, checksum)"""
    S = 0
    E = 0
    for c in p[1:]:
        S = (S << 10) | (c >> 1)
        E = (E << 1) | (c & 1)
    sec = list((S >> 6).to_bytes(18, 'big')) + [S & 63]
    return sec, E & 1023, E >> 10, p[0]


def storage(secret19, birthday, features, chk=None):
    if chk is None:
        chk = checksum(secret19, birthday, features)
    v1 = (features << 10) | birthday
    v2 = 0x7000 | chk
    return HEADER + bytes([v1 & 255, v1 >> 8]) + bytes(secret19) + b'\xff' + bytes([v2 & 255, v2 >> 8])


def keygen_salt(coin, birthday, features):
    return (b'POLYSEED key\x00\xff\xff\xff' + coin.to_bytes(4, 'little') + birthday.to_bytes(4, 'little')
            + features.to_bytes(4, 'little') + b'\x00' * 4)


CRYPT_SALT = b'POLYSEED mask\x00\xff\xff'


def birthday_of(t):
    if t == 2 ** 64 - 1 or t < EPOCH:
        return 0
    return ((t - EPOCH) // TIME_STEP) & 1023


class Langs:
    """word tables as the translator dumped them from the current tree"""

    def __init__(self, dump_path):
        self.langs = {}
        self.consts = {}
        with open(dump_path) as f:
            for line in f:
                p = line.split()
                if p[0] == 'const':
                    self.consts[p[1]] = int(p[2])
                elif p[0] == 'lang':
                    L = self.langs.setdefault(int(p[1]), {'words': {}})
                    if p[2] == 'flags':
                        L['sorted'], L['prefix'], L['accents'], L['compose'] = [bool(int(x)) for x in p[3:7]]
                    else:
                        L[p[2]] = b'' if p[3] == '-' else bytes.fromhex(p[3])
                elif p[0] == 'word':
                    L = self.langs.setdefault(int(p[1]), {'words': {}})
                    L['words'][int(p[2])] = b'' if p[3] == '-' else bytes.fromhex(p[3])
        self.n = len(self.langs)
        for L in self.langs.values():
            L['w'] = [L['words'][i] for i in range(len(L['words']))]

    def words(self, li):
        return self.langs[li]['w']

    def phrase_nfkd(self, li, p):
        L = self.langs[li]
        return L['separator'].join(L['w'][c] for c in p)

    def phrase(self, li, p):
        """published output form: joined by the separator, NFC-composed iff the language composes"""
        L = self.langs[li]
        s = self.phrase_nfkd(li, p)
        if L['compose']:
            s = unicodedata.normalize('NFC', s.decode('utf-8')).encode('utf-8')
        return s
