"""Cones: what of a disagreement between the real code and the model concerns a property.

An op block is the list of transcript lines of one operation (`> op`, `E dependency-call` ..., `< result`).  The model
reproduces the dependency calls of the code as it is written today; a rewrite that keeps a property may well change
calls the property does not speak about (an extra wipe, the clock read before the allocation, validation before
allocation).  So each property compares only the ASPECTS its statement (and the theorems standing for it) constrain:

  full      the whole block (after the canonicalisation of `Op.canon`)
  result    the `<` line(s): statuses, outputs, handles
  status    status and whether a seed was handed out
  ev:K1,K2  the dependency-call records of these kinds, in order, each kind separately listed after the other
  ids       for every kind of dependency both sides call in this op: the identities of the functions that served it
  ledger    NET effect on the allocator ledger: blocks taken and still held at the end of the op, blocks that were live
            before the op and were returned; (blocks taken and returned inside the op cancel)
  wipes     every block the code frees was wiped (zeroed=1 in the allocator's own record), the same previously live blocks
            are returned as in the model, and at least as many of their bytes went through the injected wipe (in any number
            of calls); the bytes of STACK temporaries wiped are judged by the wipe-sizes oracle + the dead-stack scan
  A+B       both
"""
import re

_num = re.compile(r'len=(\d+)')


def _events(block):
    return [l for l in block if l.startswith('E ')]


def _results(block):
    # the value left in *lang_out by a decoder that does not return OK is documented as undefined: not compared
    out = []
    for l in block:
        if l.startswith('< '):
            m = re.search(r'st=(\d+)', l)
            if m and m.group(1) != '0':
                l = re.sub(r' lang=\S+', '', l)
            out.append(l)
    return out


def _kind(e):
    p = e.split()
    return p[1] if len(p) > 1 else '?'


def _status(block):
    out = []
    for l in _results(block):
        m = re.search(r'st=(\d+)', l)
        out.append(m.group(0) if m else (l if not any(k in l for k in ('seed=', 'key=', 'buf=', 'str=')) else ''))
        m = re.search(r'seed=(\S+)', l)
        out.append('seed' if (m and m.group(1) != '-') else 'noseed')
    return out


def _ledger(block):
    took, gave = [], []
    for e in _events(block):
        p = e.split()
        if p[1] == 'alloc':
            m = re.search(r'ret=(b\d+)', e)
            if m:
                took.append(m.group(1))
        elif p[1] == 'free':
            m = re.search(r'\s(b\d+)(\s|$)', e)
            gave.append(m.group(1) if m else e)
    net_new = list(took)
    net_freed = []
    for b in gave:
        if b in net_new:
            net_new.remove(b)
        else:
            net_freed.append(b)
    return sorted(net_new), sorted(net_freed)


def _stack_wiped(block):
    return sum(int(_num.search(e).group(1)) for e in _events(block) if e.startswith('E zero') and ' stack ' in e and _num.search(e))


def _block_wipes(block):
    """block -> number of its bytes passed to the injected wipe in this op (one call over the whole block, or several calls
    over parts of it: `bN` = at its start, `inside-bN` = further in)"""
    out = {}
    for e in _events(block):
        if e.startswith('E zero') and ' stack ' not in e:
            m = re.search(r'\s(?:inside-)?(b\d+)\s', e + ' ')
            n = _num.search(e)
            if m and n:
                out[m.group(1)] = out.get(m.group(1), 0) + int(n.group(1))
    return out


def aspect_differs(aspect, cb, mb):
    """does code block cb disagree with model block mb in this aspect?"""
    if cb and mb and cb[0] != mb[0]:
        return True
    for a in aspect.split('+'):
        if a == 'full':
            if tuple(cb) != tuple(mb):
                return True
        elif a == 'result':
            if _results(cb) != _results(mb):
                return True
        elif a == 'status':
            if _status(cb) != _status(mb):
                return True
        elif a.startswith('ev:'):
            for k in a[3:].split(','):
                if [e for e in _events(cb) if _kind(e) == k] != [e for e in _events(mb) if _kind(e) == k]:
                    return True
        elif a == 'ids':
            ci, mi = {}, {}
            for blk, d in ((cb, ci), (mb, mi)):
                for e in _events(blk):
                    p = e.split()
                    d.setdefault(p[1], set()).add(p[2])
            for k in ci:
                if k in mi and ci[k] != mi[k]:
                    return True
        elif a == 'ledger':
            if _ledger(cb) != _ledger(mb):
                return True
        elif a == 'wipes':
            # (how many bytes of STACK temporaries are wiped is judged by the wipe-sizes oracle together with the dead-stack
            # scan: a function that has no such temporary has nothing to wipe)
            if any(e.startswith('E free') and e.endswith('zeroed=0') for e in _events(cb)):
                return True
            if _ledger(cb)[1] != _ledger(mb)[1]:
                return True
            cw, mw = _block_wipes(cb), _block_wipes(mb)
            for b in _ledger(mb)[1]:
                if cw.get(b, 0) < mw.get(b, 0):
                    return True
        else:
            raise ValueError('unknown aspect ' + a)
    return False


def opname(block):
    p = block[0].split() if block else []
    return p[1] if len(p) > 1 else '?'


def cone_differs(cone, cb, mb):
    """cone: None (everything, full), list of op names (whole block), or dict op name -> aspect ('*' = any other op)"""
    if cone is None:
        return tuple(cb) != tuple(mb)
    name = opname(cb)
    if isinstance(cone, (list, tuple, set)):
        return name in cone and tuple(cb) != tuple(mb)
    asp = cone.get(name, cone.get('*'))
    if asp is None:
        return False
    return aspect_differs(asp, cb, mb)


def in_cone(cone, name):
    if cone is None:
        return True
    if isinstance(cone, (list, tuple, set)):
        return name in cone
    return name in cone or '*' in cone


RESULT = {'*': 'result'}
