import Polyseed.Model.Step
import Polyseed.Gen.Registry
import Polyseed.Gen.Consts
/-!
# Line-protocol driver of the model

Reads the transcript the C harness produced (`> op`, `E dependency-call`, `< result`),
replays every op through the SAME definitions the theorems are about, answering
the model's dependency calls from the recorded `E` lines, and prints its own
transcript in the same format.  `check.py` diffs the two.
-/
open Polyseed

def hexDigit (c : Char) : Option Nat :=
  if '0' ≤ c ∧ c ≤ '9' then some (c.toNat - '0'.toNat)
  else if 'a' ≤ c ∧ c ≤ 'f' then some (c.toNat - 'a'.toNat + 10)
  else if 'A' ≤ c ∧ c ≤ 'F' then some (c.toNat - 'A'.toNat + 10)
  else none

partial def unhexGo : List Char → List Nat → List Nat
  | a :: b :: rest, acc =>
    match hexDigit a, hexDigit b with
    | some x, some y => unhexGo rest ((x * 16 + y) :: acc)
    | _, _ => acc.reverse
  | _, acc => acc.reverse

def unhex (s : String) : List Nat := if s == "-" then [] else unhexGo s.toList []

def hexChar (n : Nat) : Char := if n < 10 then Char.ofNat (48 + n) else Char.ofNat (87 + n)

def hex (bs : List Nat) : String :=
  if bs.isEmpty then "-" else
  String.ofList (bs.foldr (fun b acc => hexChar ((b / 16) % 16) :: hexChar (b % 16) :: acc) [])

def num (s : String) : Nat := s.toNat?.getD 0

/-- value of `key=value` among tokens -/
def kv (toks : List String) (key : String) : String :=
  match toks.find? (fun t => t.startsWith (key ++ "=")) with
  | some t => (t.drop (key.length + 1)).toString
  | none => ""

/-- `bN` → N -/
def blockId (s : String) : Option Nat :=
  if s.startsWith "b" then (s.drop 1).toString.toNat? else none

def junk : Data := { birthday := 0xA5A5A5A5, features := 0xA5A5A5A5, secret := List.replicate 32 0xA5, checksum := 0xA5A5A5A5A5A5A5A5 }

structure Recorded where
  kdfs : List ((List Nat × List Nat × Nat × Nat) × List Nat) := []
  nfcs : List (List Nat × List Nat) := []
  nfkds : List (List Nat × List Nat) := []
  rands : List (List Nat) := []
  times : List Nat := []
  allocs : List (Option (Nat × Data)) := []

def record (r : Recorded) (line : String) : Recorded :=
  let toks := line.splitOn " "
  match toks with
  | "E" :: "kdf" :: _ =>
    { r with kdfs := r.kdfs ++ [((unhex (kv toks "pw"), unhex (kv toks "salt"), num (kv toks "iters"), num (kv toks "keylen")), unhex (kv toks "out"))] }
  | "E" :: "nfc" :: _ => { r with nfcs := r.nfcs ++ [(unhex (kv toks "in"), unhex (kv toks "out"))] }
  | "E" :: "nfkd" :: _ => { r with nfkds := r.nfkds ++ [(unhex (kv toks "in"), unhex (kv toks "out"))] }
  | "E" :: "rand" :: _ => { r with rands := r.rands ++ [unhex (kv toks "out")] }
  | "E" :: "time" :: _ => { r with times := r.times ++ [num (kv toks "t")] }
  | "E" :: "alloc" :: _ =>
    { r with allocs := r.allocs ++ [(blockId (kv toks "ret")).map (fun b => (b, junk))] }
  | _ => r

/-- a byte string no real call returns: marks a dependency call the C run did not make with these arguments -/
def missing : List Nat := [0x4D, 0x49, 0x53, 0x53]

def Recorded.env (r : Recorded) : Env :=
  { kdf := fun _ pw salt it n => ((r.kdfs.lookup (pw, salt, it, n)).getD missing),
    nfc := fun _ s => (r.nfcs.lookup s).getD missing,
    nfkd := fun _ s => (r.nfkds.lookup s).getD missing }

/-- a block id the harness never hands out -/
def phantomBlock : Nat := 999999999

/-- The allocation outcomes are those of the C run.  When the C run made NO allocation request in this call (the code
may validate before it allocates), the model's request - if it makes one - succeeds with a phantom block: a call that
fails gives the block back and agrees in its result; a call that succeeds names a block the C run does not know and
is reported. -/
def Recorded.world (r : Recorded) : World :=
  { rands := r.rands, times := r.times,
    allocs := if r.allocs.isEmpty then [some (phantomBlock, junk)] else r.allocs }

def showEvent : Event → String
  | .alloc f size ret => s!"E alloc f={f} size={size} ret=" ++ (match ret with | some b => s!"b{b}" | none => "null")
  | .free f b => s!"E free f={f} b{b} zeroed=1"
  | .zeroBlock f b len => s!"E zero f={f} b{b} len={len}"
  | .zeroStack f _ len => s!"E zero f={f} stack len={len}"
  | .rand f n out => s!"E rand f={f} n={n} out={hex out}"
  | .time f t => s!"E time f={f} t={t}"
  | .kdf f pw salt it n out => s!"E kdf f={f} pw={hex pw} salt={hex salt} iters={it} keylen={n} out={hex out}"
  | .nfc f i o => s!"E nfc f={f} in={hex i} out={hex o}"
  | .nfkd f i o => s!"E nfkd f={f} in={hex i} out={hex o}"

def seedRef : Option Nat → String
  | some b => s!"b{b}"
  | none => "-"

def optNum : Option Nat → String
  | some b => s!"{b}"
  | none => "-"

def showData (d : Data) : String := s!"b={d.birthday} f={d.features} secret={hex d.secret} chk={d.checksum}"

structure DState where
  cfg : Cfg
  lib : Lib

def mkCfg : Cfg :=
  { strSize := Gen.STR_SIZE, sizeofData := Gen.SIZEOF_DATA, sizeofPoly := Gen.SIZEOF_POLY,
    sizeofPhrase := Gen.SIZEOF_PHRASE, sizeofIdx := Gen.SIZEOF_IDX, numWords := Gen.NUM_WORDS, langs := Gen.registry }


def emit (evs : List Event) (res : String) : List String := evs.map showEvent ++ ["< " ++ res]

/-- run one op; returns the new state and the lines after the `>` echo -/
def runOp (st : DState) (toks : List String) (r : Recorded) : DState × List String :=
  let cfg := st.cfg
  let lib := st.lib
  let env := r.env
  let w := r.world
  let withSeed (s : String) (k : Nat → Data → DState × List String) : DState × List String :=
    match blockId s with
    | some b => match lib.get b with
      | some d => k b d
      | none => (st, ["< dead-handle"])
    | none => (st, ["< bad-handle"])
  match toks with
  | ["inject", a, b, c, d, e, f, g, h] =>
    ({ st with lib := inject lib ⟨num a, num b, num c, num d, num e, num f, num g, num h⟩ }, ["< ok"])
  | ["features", m] =>
    let (lib', n) := enable lib (num m)
    ({ st with lib := lib' }, [s!"< n={n}"])
  | ["create", f] =>
    let res := create cfg lib (num f) w
    ({ st with lib := res.lib }, emit res.events s!"st={res.out.1.toNat} seed={seedRef res.out.2}")
  | ["free", "null"] =>
    let (lib', evs) := free cfg lib none
    ({ st with lib := lib' }, emit evs "ok")
  | ["free", s] => withSeed s fun b _ =>
    let (lib', evs) := free cfg lib (some b)
    ({ st with lib := lib' }, emit evs "ok")
  | ["birthday", s] => withSeed s fun _ d => (st, [s!"< v={getBirthday d}"])
  | ["isenc", s] => withSeed s fun _ d => (st, [s!"< v={isEncryptedSeed d}"])
  | ["feature", s, m] => withSeed s fun _ d => (st, [s!"< v={getFeature d (num m)}"])
  | ["store", s] => withSeed s fun _ d => (st, [s!"< buf={hex (store d)}"])
  | ["dump", s] => withSeed s fun _ d => (st, ["< " ++ showData d])
  | ["encode", s, li, coin] => withSeed s fun _ d =>
    let (out, evs) := encode cfg env lib d (langAt cfg (num li)) (num coin)
    match out with
    | .ok str size => (st, emit evs s!"size={size} str={hex str}")
    | .overflow n => (st, emit evs s!"overflow needed={n}")
  | ["decode", coin, str] =>
    let res := decode cfg env lib (unhex str) (num coin) w
    ({ st with lib := res.lib },
      emit res.events s!"st={res.out.status.toNat} seed={seedRef res.out.seed} lang={optNum res.out.langOut}")
  | ["decoden", coin, str] =>
    -- `lang_out == NULL`: the same call, nothing is written through the pointer
    let res := decode cfg env lib (unhex str) (num coin) w
    ({ st with lib := res.lib },
      emit res.events s!"st={res.out.status.toNat} seed={seedRef res.out.seed} lang=-")
  | ["decodex", coin, li, str] =>
    let res := decodeExplicit cfg env lib (unhex str) (num coin) (langAt cfg (num li)) w
    ({ st with lib := res.lib },
      emit res.events s!"st={res.out.status.toNat} seed={seedRef res.out.seed} lang={optNum res.out.langOut}")
  | ["keygen", s, coin, n] => withSeed s fun _ d =>
    let (key, evs) := keygen env lib d (num coin) (num n)
    (st, emit evs s!"key={hex key}")
  | ["load", buf] =>
    let res := load cfg lib (unhex buf) w
    ({ st with lib := res.lib }, emit res.events s!"st={res.out.1.toNat} seed={seedRef res.out.2}")
  | ["crypt", s, pw] => withSeed s fun b d =>
    let (lib', evs) := crypt cfg env lib b d (unhex pw)
    ({ st with lib := lib' }, emit evs "ok")
  | ["note"] => (st, ["< ok"])
  | ["norm", _, _] => (st, ["< (utf8proc)"])
  | ["numlangs"] => (st, [s!"< v={cfg.langs.length}"])
  | ["langname", li] =>
    let L := langAt cfg (num li)
    (st, [s!"< name={hex L.name} name_en={hex L.nameEn}"])
  | ["word", li, wi] => (st, [s!"< w={hex ((langAt cfg (num li)).words.getD (num wi) [])}"])
  | ["mul2", x] => (st, [s!"< v={mul2 (num x)}"])
  | "eval" :: cs =>
    let p := cs.map num
    (st, [s!"< v={polyEval p} check={if polyCheck p then 1 else 0}"])
  | ["pack", b, f, sec] =>
    let cs := dataToPoly { birthday := num b, features := num f, secret := unhex sec, checksum := 0 }
    (st, ["<" ++ String.join (cs.map (fun c => s!" {c}"))])
  | "unpack" :: cs => (st, ["< " ++ showData (polyToData (cs.map num))])
  | ["dstore", b, f, sec, chk] =>
    (st, [s!"< buf={hex (dataStore { birthday := num b, features := num f, secret := unhex sec, checksum := num chk })}"])
  | ["dload", buf] =>
    match dataLoad (unhex buf) with
    | (_, some d) => (st, ["< st=0 " ++ showData d])
    | (s, none) => (st, [s!"< st={s.toNat}"])
  | ["bdayenc", t] => (st, [s!"< v={birthdayEncode (num t)}"])
  | ["bdaydec", b] => (st, [s!"< v={birthdayDecode (num b)}"])
  | ["supported", f] => (st, [s!"< v={if featuresSupported lib.reserved (num f) then 1 else 0}"])
  | ["find", li, w] =>
    (st, ["< v=" ++ (match findWord (langAt cfg (num li)) (unhex w) with | some i => s!"{i}" | none => "-1")])
  | ["findx", li, flags, w] =>
    let fl := num flags
    let L := langAt cfg (num li)
    let L' := { L with isSorted := fl / 8 % 2 == 1, hasPrefix := fl / 4 % 2 == 1, hasAccents := fl / 2 % 2 == 1, compose := fl % 2 == 1 }
    (st, ["< v=" ++ (match findWord L' (unhex w) with | some i => s!"{i}" | none => "-1")])
  | "pdecode" :: ts =>
    let det := phraseDecode cfg.langs (ts.map unhex)
    let idx := if det.status == .ok then " idx=" ++ ",".intercalate (det.idx.map toString) else ""
    (st, [showEvent (detectWipe cfg lib), s!"< st={det.status.toNat} lang={optNum det.langOut}{idx}"])
  | "pdecodex" :: li :: ts =>
    let rr := phraseDecodeExplicit (langAt cfg (num li)) (ts.map unhex)
    let idx := if rr.1 == .ok then " idx=" ++ ",".intercalate (rr.2.map toString) else ""
    (st, [s!"< st={rr.1.toNat}{idx}"])
  | _ => (st, ["< unknown-op"])

partial def loop (h : IO.FS.Stream) (out : IO.FS.Stream) (st : DState) (cur : Option (List String)) (rec : Recorded) : IO Unit := do
  let line ← h.getLine
  if line.isEmpty then return ()
  let line : String := (line.dropEndWhile (fun c => c == '\n' || c == '\r')).toString
  if line.startsWith "# cfg" then
    let toks := line.splitOn " "
    out.putStrLn line
    loop h out { st with cfg := mkCfg } none {}
  else if line.startsWith "> " then
    out.putStrLn line
    let toks := (line.drop 2).toString.splitOn " "
    if toks == ["skip"] then loop h out st none {} else loop h out st (some toks) {}
  else if line.startsWith "E " then
    loop h out st cur (record rec line)
  else if line.startsWith "< " then
    match cur with
    | some toks =>
      let (st', lines) := runOp st toks rec
      for l in lines do out.putStrLn l
      loop h out st' none {}
    | none => loop h out st none {}
  else if line.startsWith "#" then
    out.putStrLn line
    loop h out st cur rec
  else
    -- harness complaints (`! ...`) are never produced by the model: they show up in the diff
    loop h out st cur rec

def main : IO Unit := do
  let stdin ← IO.getStdin
  let stdout ← IO.getStdout
  loop stdin stdout { cfg := mkCfg, lib := Lib.init } none {}
