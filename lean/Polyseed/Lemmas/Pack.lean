import Polyseed.Model.Pack
import Polyseed.Model.Spec
import Polyseed.Model.Canon
import Polyseed.Lemmas.Bits
/-!
# `polyseed_data_to_poly` / `polyseed_poly_to_data`: the chunk loops compute the published layout

The loops are unrolled symbolically by `simp` (their control flow does not depend on the data), the
bit operations are turned into `/`, `%`, `*`, `+` and each of the per-coefficient / per-byte equations is
closed by `omega`.
-/
namespace Polyseed

theorem or_eq_add (a y k : Nat) (hy : y < 2 ^ k) (ha : a % 2 ^ k = 0) : a ||| y = a + y := by
  have : a = 2 ^ k * (a / 2 ^ k) := by
    have := Nat.div_add_mod a (2 ^ k); omega
  rw [this, ← Nat.two_pow_add_eq_or_of_lt hy]

theorem and_15 (x : Nat) : x &&& 15 = x % 16 := Nat.and_two_pow_sub_one_eq_mod x 4
theorem and_3 (x : Nat) : x &&& 3 = x % 4 := Nat.and_two_pow_sub_one_eq_mod x 2

macro "or_to_add" : tactic => `(tactic|
  repeat (first
    | rw [or_eq_add _ _ 1 (by omega) (by omega)]
    | rw [or_eq_add _ _ 2 (by omega) (by omega)]
    | rw [or_eq_add _ _ 4 (by omega) (by omega)]
    | rw [or_eq_add _ _ 6 (by omega) (by omega)]
    | rw [or_eq_add _ _ 8 (by omega) (by omega)]
    | rw [or_eq_add _ _ 10 (by omega) (by omega)]))

macro "bits_to_arith" : tactic => `(tactic|
  simp only [and_255, and_63, and_15, and_3, and_1023, Nat.shiftLeft_eq, Nat.shiftRight_eq_div_pow, Nat.reducePow])

theorem exists19 (l : List Nat) (h : 19 ≤ l.length) :
    ∃ b0 b1 b2 b3 b4 b5 b6 b7 b8 b9 b10 b11 b12 b13 b14 b15 b16 b17 b18 rest, l = b0 :: b1 :: b2 :: b3 :: b4 :: b5 :: b6 :: b7 :: b8 :: b9 :: b10 :: b11 :: b12 :: b13 :: b14 :: b15 :: b16 :: b17 :: b18 :: rest := by
  rcases l with _ | ⟨b0, l⟩
  · simp at h; try omega
  rcases l with _ | ⟨b1, l⟩
  · simp at h; try omega
  rcases l with _ | ⟨b2, l⟩
  · simp at h; try omega
  rcases l with _ | ⟨b3, l⟩
  · simp at h; try omega
  rcases l with _ | ⟨b4, l⟩
  · simp at h; try omega
  rcases l with _ | ⟨b5, l⟩
  · simp at h; try omega
  rcases l with _ | ⟨b6, l⟩
  · simp at h; try omega
  rcases l with _ | ⟨b7, l⟩
  · simp at h; try omega
  rcases l with _ | ⟨b8, l⟩
  · simp at h; try omega
  rcases l with _ | ⟨b9, l⟩
  · simp at h; try omega
  rcases l with _ | ⟨b10, l⟩
  · simp at h; try omega
  rcases l with _ | ⟨b11, l⟩
  · simp at h; try omega
  rcases l with _ | ⟨b12, l⟩
  · simp at h; try omega
  rcases l with _ | ⟨b13, l⟩
  · simp at h; try omega
  rcases l with _ | ⟨b14, l⟩
  · simp at h; try omega
  rcases l with _ | ⟨b15, l⟩
  · simp at h; try omega
  rcases l with _ | ⟨b16, l⟩
  · simp at h; try omega
  rcases l with _ | ⟨b17, l⟩
  · simp at h; try omega
  rcases l with _ | ⟨b18, l⟩
  · simp at h; try omega
  exact ⟨b0, b1, b2, b3, b4, b5, b6, b7, b8, b9, b10, b11, b12, b13, b14, b15, b16, b17, b18, l, rfl⟩

theorem exists15 (l : List Nat) (h : l.length = 15) :
    ∃ c0 c1 c2 c3 c4 c5 c6 c7 c8 c9 c10 c11 c12 c13 c14, l = [c0, c1, c2, c3, c4, c5, c6, c7, c8, c9, c10, c11, c12, c13, c14] := by
  rcases l with _ | ⟨c0, l⟩
  · simp at h
  rcases l with _ | ⟨c1, l⟩
  · simp at h
  rcases l with _ | ⟨c2, l⟩
  · simp at h
  rcases l with _ | ⟨c3, l⟩
  · simp at h
  rcases l with _ | ⟨c4, l⟩
  · simp at h
  rcases l with _ | ⟨c5, l⟩
  · simp at h
  rcases l with _ | ⟨c6, l⟩
  · simp at h
  rcases l with _ | ⟨c7, l⟩
  · simp at h
  rcases l with _ | ⟨c8, l⟩
  · simp at h
  rcases l with _ | ⟨c9, l⟩
  · simp at h
  rcases l with _ | ⟨c10, l⟩
  · simp at h
  rcases l with _ | ⟨c11, l⟩
  · simp at h
  rcases l with _ | ⟨c12, l⟩
  · simp at h
  rcases l with _ | ⟨c13, l⟩
  · simp at h
  rcases l with _ | ⟨c14, l⟩
  · simp at h
  rcases l with _ | ⟨x, l⟩
  · exact ⟨c0, c1, c2, c3, c4, c5, c6, c7, c8, c9, c10, c11, c12, c13, c14, rfl⟩
  · simp at h

set_option maxRecDepth 10000 in
/-- the loop transcription equals the closed form of the published layout, on explicit bytes -/
theorem dataToPoly_explicit (b0 b1 b2 b3 b4 b5 b6 b7 b8 b9 b10 b11 b12 b13 b14 b15 b16 b17 b18 : Nat) (rest : List Nat) (bd ft k : Nat)
    (h0 : b0 < 256) (h1 : b1 < 256) (h2 : b2 < 256) (h3 : b3 < 256) (h4 : b4 < 256) (h5 : b5 < 256) (h6 : b6 < 256) (h7 : b7 < 256) (h8 : b8 < 256) (h9 : b9 < 256) (h10 : b10 < 256) (h11 : b11 < 256) (h12 : b12 < 256) (h13 : b13 < 256) (h14 : b14 < 256) (h15 : b15 < 256) (h16 : b16 < 256) (h17 : b17 < 256) (h18 : b18 < 256) (hbd : bd < 1024) :
    dataToPoly (Data.mk bd ft (b0 :: b1 :: b2 :: b3 :: b4 :: b5 :: b6 :: b7 :: b8 :: b9 :: b10 :: b11 :: b12 :: b13 :: b14 :: b15 :: b16 :: b17 :: b18 :: rest) k) =
      Spec.coeffs (Spec.secretNat (b0 :: b1 :: b2 :: b3 :: b4 :: b5 :: b6 :: b7 :: b8 :: b9 :: b10 :: b11 :: b12 :: b13 :: b14 :: b15 :: b16 :: b17 :: b18 :: rest)) (Spec.extraNat ft bd) := by
  simp [dataToPoly, packOuter, packInner, SHARE_BITS, DATA_WORDS, SECRET_BITS, FEATURE_BITS, DATE_BITS,
    Spec.coeffs, Spec.split, Spec.join, Spec.secretNat, Spec.extraNat]
  have he : ft <<< 10 ||| bd = ft * 1024 + bd := by
    rw [Nat.shiftLeft_eq, or_eq_add _ _ 10 (by omega) (by omega)]
  rw [he]
  refine ⟨?_, ?_, ?_, ?_, ?_, ?_, ?_, ?_, ?_, ?_, ?_, ?_, ?_, ?_, ?_⟩ <;> (bits_to_arith; or_to_add; omega)


set_option maxRecDepth 10000 in
/-- (A') `polyseed_data_to_poly` in plain arithmetic, on explicit bytes -/
theorem dataToPoly_arith (b0 b1 b2 b3 b4 b5 b6 b7 b8 b9 b10 b11 b12 b13 b14 b15 b16 b17 b18 : Nat) (rest : List Nat) (bd ft k : Nat)
    (h0 : b0 < 256) (h1 : b1 < 256) (h2 : b2 < 256) (h3 : b3 < 256) (h4 : b4 < 256) (h5 : b5 < 256) (h6 : b6 < 256) (h7 : b7 < 256) (h8 : b8 < 256) (h9 : b9 < 256) (h10 : b10 < 256) (h11 : b11 < 256) (h12 : b12 < 256) (h13 : b13 < 256) (h14 : b14 < 256) (h15 : b15 < 256) (h16 : b16 < 256) (h17 : b17 < 256) (h18 : b18 < 256) (hbd : bd < 1024) :
    dataToPoly (Data.mk bd ft (b0 :: b1 :: b2 :: b3 :: b4 :: b5 :: b6 :: b7 :: b8 :: b9 :: b10 :: b11 :: b12 :: b13 :: b14 :: b15 :: b16 :: b17 :: b18 :: rest) k) =
      [((b0 % 256) * 4 + b1 / 64 % 4) * 2 + (ft * 1024 + bd) / 16384 % 2,
       ((b1 % 64) * 16 + b2 / 16 % 16) * 2 + (ft * 1024 + bd) / 8192 % 2,
       ((b2 % 16) * 64 + b3 / 4 % 64) * 2 + (ft * 1024 + bd) / 4096 % 2,
       ((b3 % 4) * 256 + b4 % 256) * 2 + (ft * 1024 + bd) / 2048 % 2,
       ((b5 % 256) * 4 + b6 / 64 % 4) * 2 + (ft * 1024 + bd) / 1024 % 2,
       ((b6 % 64) * 16 + b7 / 16 % 16) * 2 + (ft * 1024 + bd) / 512 % 2,
       ((b7 % 16) * 64 + b8 / 4 % 64) * 2 + (ft * 1024 + bd) / 256 % 2,
       ((b8 % 4) * 256 + b9 % 256) * 2 + (ft * 1024 + bd) / 128 % 2,
       ((b10 % 256) * 4 + b11 / 64 % 4) * 2 + (ft * 1024 + bd) / 64 % 2,
       ((b11 % 64) * 16 + b12 / 16 % 16) * 2 + (ft * 1024 + bd) / 32 % 2,
       ((b12 % 16) * 64 + b13 / 4 % 64) * 2 + (ft * 1024 + bd) / 16 % 2,
       ((b13 % 4) * 256 + b14 % 256) * 2 + (ft * 1024 + bd) / 8 % 2,
       ((b15 % 256) * 4 + b16 / 64 % 4) * 2 + (ft * 1024 + bd) / 4 % 2,
       ((b16 % 64) * 16 + b17 / 16 % 16) * 2 + (ft * 1024 + bd) / 2 % 2,
       ((b17 % 16) * 64 + b18 % 64) * 2 + (ft * 1024 + bd) / 1 % 2] := by
  simp [dataToPoly, packOuter, packInner, SHARE_BITS, DATA_WORDS, SECRET_BITS, FEATURE_BITS, DATE_BITS]
  have he : ft <<< 10 ||| bd = ft * 1024 + bd := by
    rw [Nat.shiftLeft_eq, or_eq_add _ _ 10 (by omega) (by omega)]
  rw [he]
  refine ⟨?_, ?_, ?_, ?_, ?_, ?_, ?_, ?_, ?_, ?_, ?_, ?_, ?_, ?_, ?_⟩ <;> (bits_to_arith; or_to_add; try omega)

set_option maxRecDepth 10000 in
/-- (B') `polyseed_poly_to_data` in plain arithmetic, on explicit coefficients -/
theorem polyToData_arith (k c0 c1 c2 c3 c4 c5 c6 c7 c8 c9 c10 c11 c12 c13 c14 : Nat) :
    polyToData [k, c0, c1, c2, c3, c4, c5, c6, c7, c8, c9, c10, c11, c12, c13, c14] =
      Data.mk ((((((((((((((((c0 % 2) * 2 + c1 % 2) * 2 + c2 % 2) * 2 + c3 % 2) * 2 + c4 % 2) * 2 + c5 % 2) * 2 + c6 % 2) * 2 + c7 % 2) * 2 + c8 % 2) * 2 + c9 % 2) * 2 + c10 % 2) * 2 + c11 % 2) * 2 + c12 % 2) * 2 + c13 % 2) * 2 + c14 % 2) % 1024) ((((((((((((((((c0 % 2) * 2 + c1 % 2) * 2 + c2 % 2) * 2 + c3 % 2) * 2 + c4 % 2) * 2 + c5 % 2) * 2 + c6 % 2) * 2 + c7 % 2) * 2 + c8 % 2) * 2 + c9 % 2) * 2 + c10 % 2) * 2 + c11 % 2) * 2 + c12 % 2) * 2 + c13 % 2) * 2 + c14 % 2) / 1024)
        [c0 / 2 / 4 % 256,
         (c0 / 2 % 4) * 64 % 256 + c1 / 2 / 16 % 64,
         (c1 / 2 % 16) * 16 % 256 + c2 / 2 / 64 % 16,
         (c2 / 2 % 64) * 4 % 256 + c3 / 2 / 256 % 4,
         c3 / 2 % 256,
         c4 / 2 / 4 % 256,
         (c4 / 2 % 4) * 64 % 256 + c5 / 2 / 16 % 64,
         (c5 / 2 % 16) * 16 % 256 + c6 / 2 / 64 % 16,
         (c6 / 2 % 64) * 4 % 256 + c7 / 2 / 256 % 4,
         c7 / 2 % 256,
         c8 / 2 / 4 % 256,
         (c8 / 2 % 4) * 64 % 256 + c9 / 2 / 16 % 64,
         (c9 / 2 % 16) * 16 % 256 + c10 / 2 / 64 % 16,
         (c10 / 2 % 64) * 4 % 256 + c11 / 2 / 256 % 4,
         c11 / 2 % 256,
         c12 / 2 / 4 % 256,
         (c12 / 2 % 4) * 64 % 256 + c13 / 2 / 16 % 64,
         (c13 / 2 % 16) * 16 % 256 + c14 / 2 / 64 % 16,
         c14 / 2 % 64, 0, 0, 0, 0, 0, 0, 0, 0, 0, 0, 0, 0, 0] k := by
  simp [polyToData, unpackOuter, unpackInner, SECRET_BUFFER_SIZE, DATE_BITS, DATE_MASK]
  refine ⟨?_, ?_, ?_⟩
  · bits_to_arith; or_to_add
  · bits_to_arith; or_to_add
  · refine ⟨?_, ?_, ?_, ?_, ?_, ?_, ?_, ?_, ?_, ?_, ?_, ?_, ?_, ?_, ?_, ?_, ?_, ?_, ?_⟩ <;> (bits_to_arith; try or_to_add)


set_option maxRecDepth 10000 in
/-- (B) `polyseed_poly_to_data` reads the published layout back, on explicit coefficients -/
theorem polyToData_explicit (k c0 c1 c2 c3 c4 c5 c6 c7 c8 c9 c10 c11 c12 c13 c14 : Nat) (g0 : c0 < 2048) (g1 : c1 < 2048) (g2 : c2 < 2048) (g3 : c3 < 2048) (g4 : c4 < 2048) (g5 : c5 < 2048) (g6 : c6 < 2048) (g7 : c7 < 2048) (g8 : c8 < 2048) (g9 : c9 < 2048) (g10 : c10 < 2048) (g11 : c11 < 2048) (g12 : c12 < 2048) (g13 : c13 < 2048) (g14 : c14 < 2048) :
    polyToData [k, c0, c1, c2, c3, c4, c5, c6, c7, c8, c9, c10, c11, c12, c13, c14] =
      Data.mk ((Spec.unpack [c0, c1, c2, c3, c4, c5, c6, c7, c8, c9, c10, c11, c12, c13, c14]).2 % 1024) ((Spec.unpack [c0, c1, c2, c3, c4, c5, c6, c7, c8, c9, c10, c11, c12, c13, c14]).2 / 1024)
        (Spec.secretBytes (Spec.unpack [c0, c1, c2, c3, c4, c5, c6, c7, c8, c9, c10, c11, c12, c13, c14]).1 ++ List.replicate 13 0) k := by
  rw [polyToData_arith]
  simp only [Spec.unpack, Spec.secretBytes, Spec.split, Spec.join, List.map, List.length, List.replicate, List.cons_append, List.nil_append,
    Nat.reducePow, Nat.reduceAdd, Nat.pow_zero, Nat.mul_one, Nat.add_zero, Nat.div_one, Data.mk.injEq, List.cons.injEq, and_true, true_and]
  refine ⟨?_, ?_, ?_, ?_, ?_, ?_, ?_, ?_, ?_, ?_, ?_, ?_, ?_, ?_, ?_, ?_, ?_, ?_, ?_, ?_, ?_⟩ <;> omega

end Polyseed
