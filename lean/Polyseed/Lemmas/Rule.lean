import Polyseed.Lemmas.Tables
/-!
# The zero sets of the four comparators: what `polyseed_lang_find_word` can accept

* `compare_prefix` returns 0 exactly for `key = elm` or `key` a prefix of `elm` of at least `n` bytes;
* the two accent-insensitive comparators ARE the plain ones applied to the strings with every byte
  `>= 0x80` removed (`strip`) — this is where D6 is visible: all non-ASCII bytes are removed, not only accents.
-/
namespace Polyseed

theorem strip_cons (b : Nat) (bs : List Nat) : strip (b :: bs) = if isNeg b then strip bs else b :: strip bs := by
  unfold strip; simp only [List.filter_cons]; cases isNeg b <;> simp

theorem strip_idem (s : List Nat) : strip (strip s) = strip s := by
  unfold strip; rw [List.filter_filter]; simp

theorem skipNeg_strip (s : List Nat) : strip (skipNeg s) = strip s := by
  induction s with
  | nil => rfl
  | cons b bs ih =>
    simp only [skipNeg]
    cases h : isNeg b
    · simp
    · simp only [↓reduceIte, ih, strip_cons, h]

theorem skipNeg_nil_iff (s : List Nat) : skipNeg s = [] ↔ strip s = [] := by
  induction s with
  | nil => simp [skipNeg, strip]
  | cons b bs ih =>
    simp only [skipNeg, strip_cons]
    cases h : isNeg b <;> simp [ih]

theorem skipNeg_cons (s : List Nat) (e : Nat) (es : List Nat) (h : skipNeg s = e :: es) :
    isNeg e = false ∧ strip s = e :: strip es := by
  induction s with
  | nil => simp [skipNeg] at h
  | cons b bs ih =>
    simp only [skipNeg] at h
    cases hb : isNeg b
    · simp only [hb, Bool.false_eq_true, ↓reduceIte, List.cons.injEq] at h
      obtain ⟨rfl, rfl⟩ := h
      exact ⟨hb, by simp [strip_cons, hb]⟩
    · simp only [hb, ↓reduceIte] at h
      obtain ⟨h1, h2⟩ := ih h
      exact ⟨h1, by simp [strip_cons, hb, h2]⟩

theorem hd_skipNeg (s : List Nat) : hd (skipNeg s) = hd (strip s) := by
  cases h : skipNeg s with
  | nil => rw [(skipNeg_nil_iff s).mp h]
  | cons e es => rw [(skipNeg_cons s e es h).2]; rfl

/-- `compare_prefix_noaccent` is `compare_prefix` on the stripped strings (an identity, not only on zero sets) -/
theorem cmpPrefixNoaccent_eq (n : Nat) : ∀ (key elm : List Nat) (i : Nat),
    cmpPrefixNoaccent n i key elm = cmpPrefix n i (strip key) (strip elm) := by
  intro key
  induction key with
  | nil => intro elm i; simp [cmpPrefixNoaccent, cmpPrefix, strip, hd_skipNeg]
  | cons k ks ih =>
    intro elm i
    unfold cmpPrefixNoaccent
    cases hk : isNeg k
    · simp only [Bool.false_eq_true, ↓reduceIte, strip_cons, hk]
      unfold cmpPrefix
      simp only [skipNeg_nil_iff]
      by_cases hc : n ≤ i ∧ strip ks = []
      · simp only [hc, and_self, ↓reduceIte, hd_skipNeg]
      · simp only [hc, ↓reduceIte]
        cases he : skipNeg elm with
        | nil => simp only [(skipNeg_nil_iff elm).mp he]
        | cons e es =>
          obtain ⟨_, hs⟩ := skipNeg_cons elm e es he
          simp only [hs]
          by_cases hke : k = e
          · simp only [hke, ↓reduceIte]; exact ih es (i + 1)
          · simp only [hke, ↓reduceIte]
    · simp only [↓reduceIte, strip_cons, hk]
      exact ih elm i

/-- `compare_str_noaccent` is `compare_str` on the stripped strings -/
theorem cmpStrNoaccent_eq : ∀ (key elm : List Nat), cmpStrNoaccent key elm = cmpStr (strip key) (strip elm) := by
  intro key
  induction key with
  | nil => intro elm; simp [cmpStrNoaccent, cmpStr, strip, hd_skipNeg]
  | cons k ks ih =>
    intro elm
    unfold cmpStrNoaccent
    cases hk : isNeg k
    · simp only [Bool.false_eq_true, ↓reduceIte, strip_cons, hk]
      cases he : skipNeg elm with
      | nil => simp only [(skipNeg_nil_iff elm).mp he, cmpStr]
      | cons e es =>
        obtain ⟨_, hs⟩ := skipNeg_cons elm e es he
        simp only [hs, cmpStr]
        by_cases hke : k = e
        · simp only [hke, ↓reduceIte]; exact ih es
        · simp only [hke, ↓reduceIte]
    · simp only [↓reduceIte, strip_cons, hk]
      exact ih elm

theorem sgnCmp_zero_iff (a b : Nat) (ha : a < 256) (hb : b < 256) : sgnCmp a b = 0 ↔ a = b := sgnCmp_eq_zero a b ha hb

/-- the zero set of `compare_prefix(key, elm, n)` with loop counter `i` -/
theorem cmpPrefix_eq_zero (n : Nat) : ∀ (key elm : List Nat) (i : Nat), BytesOK key → BytesOK elm →
    (cmpPrefix n i key elm = 0 ↔ key = elm ∨ (key ≠ [] ∧ n ≤ i + key.length - 1 ∧ key <+: elm)) := by
  intro key
  induction key with
  | nil =>
    intro elm i _ he
    cases elm with
    | nil => simp [cmpPrefix, hd, sgnCmp]
    | cons e es =>
      have := he e (by simp)
      simp only [cmpPrefix, hd, List.headD_cons, sgnCmp_zero_iff 0 e (by omega) this.2]
      constructor
      · intro h; omega
      · rintro (h | ⟨h, _⟩)
        · cases h
        · exact absurd rfl h
  | cons k ks ih =>
    intro elm i hk he
    have hk0 := hk k (by simp)
    have hks : BytesOK ks := fun x hx => hk x (by simp [hx])
    unfold cmpPrefix
    by_cases hc : n ≤ i ∧ ks = []
    · obtain ⟨hni, rfl⟩ := hc
      simp only [hni, and_self, ↓reduceIte, List.length_cons, List.length_nil, Nat.zero_add, Nat.add_sub_cancel, ne_eq,
        List.cons_ne_self, not_false_eq_true, true_and, reduceCtorEq]
      cases elm with
      | nil =>
        simp only [hd, List.headD_nil, sgnCmp_zero_iff k 0 hk0.2 (by omega)]
        constructor
        · intro h; omega
        · rintro (h | h)
          · cases h
          · simp at h
      | cons e es =>
        have he0 := he e (by simp)
        simp only [hd, List.headD_cons, sgnCmp_zero_iff k e hk0.2 he0.2]
        constructor
        · rintro rfl; right; simp
        · rintro (h | h)
          · simp at h; exact h.1
          · simp at h; exact h
    · simp only [hc, ↓reduceIte]
      cases elm with
      | nil =>
        simp only [sgnCmp_zero_iff k 0 hk0.2 (by omega)]
        constructor
        · intro h; omega
        · rintro (h | ⟨_, _, h⟩)
          · cases h
          · simp at h
      | cons e es =>
        have he0 := he e (by simp)
        have hes : BytesOK es := fun x hx => he x (by simp [hx])
        by_cases hke : k = e
        · subst hke
          simp only [↓reduceIte, ih es (i + 1) hks hes, List.cons.injEq, true_and, ne_eq, reduceCtorEq, not_false_eq_true,
            List.length_cons, List.cons_prefix_cons]
          constructor
          · rintro (h | ⟨h1, h2, h3⟩)
            · left; exact h
            · right; exact ⟨by omega, h3⟩
          · rintro (h | ⟨h2, h3⟩)
            · left; exact h
            · by_cases hnil : ks = []
              · subst hnil
                have : ¬ (n ≤ i) := fun h => hc ⟨h, rfl⟩
                simp at h2; omega
              · right; exact ⟨hnil, by have := List.length_pos_iff.mpr hnil; omega, h3⟩
        · simp only [hke, ↓reduceIte, sgnCmp_zero_iff k e hk0.2 he0.2, List.cons.injEq, false_and, ne_eq, reduceCtorEq,
            not_false_eq_true, List.cons_prefix_cons, true_and, false_or, false_iff, not_and]
          intro _; trivial

theorem strip_bytesOK (s : List Nat) (h : BytesOK s) : BytesOK (strip s) := fun b hb => h b (List.mem_filter.mp hb).1

end Polyseed
