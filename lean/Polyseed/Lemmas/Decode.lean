import Polyseed.Lemmas.Tables
import Polyseed.Model.Str
/-!
# Tokeniser and phrase-decoding lemmas
-/
namespace Polyseed

theorem span_no_space (w t : List Nat) (h : ∀ b ∈ w, b ≠ 32) :
    takeWord (w ++ 32 :: t) = (w, 32 :: t) := by
  induction w with
  | nil => simp [takeWord]
  | cons b bs ih =>
    have hb : b ≠ 32 := h b (by simp)
    have := ih (fun x hx => h x (by simp [hx]))
    simp only [List.cons_append, takeWord, hb, ↓reduceIte, this]

theorem span_no_space_end (w : List Nat) (h : ∀ b ∈ w, b ≠ 32) : takeWord w = (w, []) := by
  induction w with
  | nil => rfl
  | cons b bs ih =>
    have hb : b ≠ 32 := h b (by simp)
    have := ih (fun x hx => h x (by simp [hx]))
    simp only [takeWord, hb, ↓reduceIte, this]

/-- words that are non-empty and contain no space survive joining with single spaces and splitting. -/
theorem splitN_joinWords : ∀ (ws : List (List Nat)) (n : Nat), ws.length ≤ n →
    (∀ w ∈ ws, w ≠ [] ∧ ∀ b ∈ w, b ≠ 32) → splitN n (joinWords [32] ws) = (ws, false) := by
  intro ws
  induction ws with
  | nil => intro n _ _; cases n <;> simp [joinWords, splitN]
  | cons w ws ih =>
    intro n hn h
    obtain ⟨hne, hsp⟩ := h w (by simp)
    cases n with
    | zero => simp at hn
    | succ n =>
      have hws : ∀ x ∈ ws, x ≠ [] ∧ ∀ b ∈ x, b ≠ 32 := fun x hx => h x (by simp [hx])
      cases ws with
      | nil =>
        obtain ⟨c, cs, rfl⟩ := List.exists_cons_of_ne_nil hne
        simp only [joinWords, splitN, span_no_space_end (c :: cs) hsp, List.drop_nil]
        cases n <;> simp [splitN]
      | cons w2 rest =>
        obtain ⟨c, cs, rfl⟩ := List.exists_cons_of_ne_nil hne
        have hj : joinWords [32] ((c :: cs) :: w2 :: rest) = (c :: cs) ++ 32 :: joinWords [32] (w2 :: rest) := by
          simp [joinWords]
        rw [hj]
        have hs := span_no_space (c :: cs) (joinWords [32] (w2 :: rest)) hsp
        simp only [List.cons_append] at hs ⊢
        simp only [splitN, hs, List.drop_succ_cons, List.drop_zero]
        rw [ih n (by simpa using hn) hws]

theorem strSplit_joinWords (ws : List (List Nat)) (h : ∀ w ∈ ws, w ≠ [] ∧ ∀ b ∈ w, b ≠ 32) (n : Nat) (hn : ws.length ≤ n) :
    strSplit n (joinWords [32] ws) = (ws, ws.length) := by
  simp [strSplit, splitN_joinWords ws n hn h]

/-- all 16 (or any number of) full words of a checked table are recognised as their own indices. -/
theorem findAll_words (L : Lang) (hT : TableOK L) : ∀ (idx : List Nat), (∀ i ∈ idx, i < 2048) →
    findAll L (idx.map (fun i => L.words.getD i [])) = some idx := by
  intro idx
  induction idx with
  | nil => intro _; rfl
  | cons i is ih =>
    intro h
    have hi : i < L.words.size := by rw [hT.size]; exact h i (by simp)
    have hw : L.words.getD i [] = L.words[i] := by simp [Array.getD, hi]
    simp only [List.map_cons, findAll, hw, hT.finds i hi, ih (fun x hx => h x (by simp [hx]))]

/-! ### language auto-detection: the loop with the `have_lang` flag is a case split on the matching languages -/

/-- positions and index lists of the languages that recognise all tokens, in registry order -/
def matching (toks : List (List Nat)) : List Lang → Nat → List (Nat × List Nat)
  | [], _ => []
  | L :: Ls, li =>
    match findAll L toks with
    | none => matching toks Ls (li + 1)
    | some idx => (li, idx) :: matching toks Ls (li + 1)

theorem detectAux_some (toks : List (List Nat)) : ∀ (Ls : List Lang) (li l0 : Nat) (i0 : List Nat),
    detectAux toks Ls li (some (l0, i0)) =
      (if matching toks Ls li = [] then ⟨.ok, i0, some l0⟩ else ⟨.multLang, i0, some l0⟩) := by
  intro Ls
  induction Ls with
  | nil => intro li l0 i0; simp [detectAux, matching]
  | cons L Ls ih =>
    intro li l0 i0
    unfold detectAux matching
    cases h : findAll L toks with
    | none => simp only; exact ih (li + 1) l0 i0
    | some idx => simp

/-- `polyseed_phrase_decode`: OK iff exactly one language recognises all tokens (and then its position and
indices are reported); the multiple-languages status iff two or more do (the first one is what was written to
`lang_out`); the language error iff none does. -/
theorem phraseDecode_spec (langs : List Lang) (toks : List (List Nat)) :
    phraseDecode langs toks =
      match matching toks langs 0 with
      | [] => ⟨.lang, [], none⟩
      | [(l, idx)] => ⟨.ok, idx, some l⟩
      | (l, idx) :: _ :: _ => ⟨.multLang, idx, some l⟩ := by
  unfold phraseDecode
  generalize 0 = li
  induction langs generalizing li with
  | nil => simp [detectAux, matching]
  | cons L Ls ih =>
    unfold detectAux matching
    cases h : findAll L toks with
    | none => simp only; exact ih (li + 1)
    | some idx =>
      simp only [detectAux_some]
      cases hm : matching toks Ls (li + 1) with
      | nil => simp
      | cons a as => simp

theorem matching_mem (toks : List (List Nat)) : ∀ (Ls : List Lang) (li l : Nat) (idx : List Nat),
    (l, idx) ∈ matching toks Ls li ↔ ∃ (k : Nat) (hk : k < Ls.length), l = li + k ∧ findAll Ls[k] toks = some idx := by
  intro Ls
  induction Ls with
  | nil => intro li l idx; simp [matching]
  | cons L Ls ih =>
    intro li l idx
    unfold matching
    cases h : findAll L toks with
    | none =>
      simp only [ih]
      constructor
      · rintro ⟨k, hk, rfl, hf⟩
        exact ⟨k + 1, by simpa using hk, by omega, by simpa using hf⟩
      · rintro ⟨k, hk, rfl, hf⟩
        cases k with
        | zero => simp [h] at hf
        | succ k => exact ⟨k, by simpa using hk, by omega, by simpa using hf⟩
    | some i0 =>
      simp only [List.mem_cons, Prod.mk.injEq, ih]
      constructor
      · rintro (⟨rfl, rfl⟩ | ⟨k, hk, rfl, hf⟩)
        · exact ⟨0, by simp, rfl, by simpa using h⟩
        · exact ⟨k + 1, by simpa using hk, by omega, by simpa using hf⟩
      · rintro ⟨k, hk, rfl, hf⟩
        cases k with
        | zero => left; simp [h] at hf; exact ⟨rfl, hf.symm⟩
        | succ k => right; exact ⟨k, by simpa using hk, by omega, by simpa using hf⟩

end Polyseed
