import Polyseed.Model.Lang
/-!
# A computational certificate that `bsearch` finds every table word at its own index

`treeOk cmp seg` walks the decision tree of glibc's `bsearch` over the segment: at each node the pivot
must compare equal to itself, every word left of it must compare `< 0` against it and every word right
of it `> 0`.  That is n·log n comparator calls; no order theory is needed and it is uniform in the
comparator and in `char` signedness.
-/
namespace Polyseed

/-- `keys w`: the tokens that must be found at the index of table word `w` (the word itself, and for the
abbreviating languages its admissible abbreviations) -/
def treeOk (cmp : List Nat → List Nat → Int) (keys : List Nat → List (List Nat)) : Nat → List (List Nat) → Bool
  | 0, seg => seg.isEmpty
  | fuel + 1, seg =>
    if seg.isEmpty then true else
    let m := seg.length / 2
    let pivot := seg.getD m []
    (keys pivot).all (fun k => cmp k pivot == 0)
      && (seg.take m).all (fun w => (keys w).all (fun k => decide (cmp k pivot < 0)))
      && (seg.drop (m + 1)).all (fun w => (keys w).all (fun k => decide (cmp k pivot > 0)))
      && treeOk cmp keys fuel (seg.take m) && treeOk cmp keys fuel (seg.drop (m + 1))

/-- the elements `l..u-1` of the table -/
def segOf (ws : Array (List Nat)) (l u : Nat) : List (List Nat) := (ws.toList.drop l).take (u - l)

theorem segOf_length (ws : Array (List Nat)) (l u : Nat) (hu : u ≤ ws.size) : (segOf ws l u).length = u - l := by
  simp [segOf]; omega

theorem segOf_getD (ws : Array (List Nat)) (l u j : Nat) (hu : u ≤ ws.size) (hj : l + j < u) :
    (segOf ws l u).getD j [] = ws[l + j]'(by omega) := by
  simp only [segOf, List.getD]
  rw [List.getElem?_take_of_lt (by omega), List.getElem?_drop]
  simp [show l + j < ws.size by omega]

theorem segOf_take (ws : Array (List Nat)) (l u m : Nat) (hm : l + m ≤ u) : (segOf ws l u).take m = segOf ws l (l + m) := by
  simp only [segOf, List.take_take]
  congr 1; omega

theorem segOf_drop (ws : Array (List Nat)) (l u m : Nat) (hm : l + m ≤ u) : (segOf ws l u).drop m = segOf ws (l + m) u := by
  simp only [segOf]
  rw [List.drop_take, List.drop_drop]
  congr 1; omega

theorem mem_segOf (ws : Array (List Nat)) (l u i : Nat) (hu : u ≤ ws.size) (hl : l ≤ i) (hi : i < u) :
    ws[i]'(by omega) ∈ segOf ws l u := by
  have := segOf_getD ws l u (i - l) hu (by omega)
  have e : l + (i - l) = i := by omega
  simp only [e] at this
  rw [← this]
  simp only [List.getD]
  have hlen := segOf_length ws l u hu
  rw [List.getElem?_eq_getElem (by omega)]
  exact List.getElem_mem _

/-- soundness: if the tree check passes on the segment `l..u-1`, `bsearch` restricted to `[l,u)` returns `i` for the key `ws[i]`. -/
theorem treeOk_sound (cmp : List Nat → List Nat → Int) (keys : List Nat → List (List Nat)) (ws : Array (List Nat)) :
    ∀ (fuel l u : Nat), u ≤ ws.size → treeOk cmp keys fuel (segOf ws l u) = true →
      ∀ (i : Nat) (hi : i < ws.size), l ≤ i → i < u → ∀ key ∈ keys ws[i], ∀ f, u - l < f →
        bsearchAux (cmp key) ws f l u = some i := by
  intro fuel
  induction fuel with
  | zero =>
    intro l u hu h i hi hl hiu key hkey
    simp only [treeOk, List.isEmpty_iff] at h
    have := segOf_length ws l u hu
    rw [h] at this; simp at this; omega
  | succ fuel ih =>
    intro l u hu h i hi hl hiu key hkey f hf
    have hlen := segOf_length ws l u hu
    unfold treeOk at h
    have hne : (segOf ws l u).isEmpty = false := by
      rw [List.isEmpty_eq_false_iff]; intro he; rw [he] at hlen; simp at hlen; omega
    simp only [hne, Bool.false_eq_true, ↓reduceIte, Bool.and_eq_true, beq_iff_eq, List.all_eq_true, decide_eq_true_eq] at h
    obtain ⟨⟨⟨⟨hpp, hleft⟩, hright⟩, htl⟩, htr⟩ := h
    rw [hlen] at hpp hleft hright htl htr
    have hm : l + (u - l) / 2 < u := by omega
    have hidx : (l + u) / 2 = l + (u - l) / 2 := by omega
    have hpiv := segOf_getD ws l u ((u - l) / 2) hu hm
    rw [segOf_take ws l u _ (by omega)] at hleft htl
    rw [segOf_drop ws l u _ (by omega)] at hright htr
    cases f with
    | zero => omega
    | succ f =>
      unfold bsearchAux
      have hlu : l < u := by omega
      simp only [hlu, ↓reduceIte, hidx, show l + (u - l) / 2 < ws.size by omega, ↓reduceDIte]
      rw [hpiv] at hpp hleft hright
      by_cases h1 : i < l + (u - l) / 2
      · have hc := hleft _ (mem_segOf ws l (l + (u - l) / 2) i (by omega) hl h1) key hkey
        simp only [hc, ↓reduceIte]
        exact ih l _ (by omega) htl i hi hl h1 key hkey f (by omega)
      · by_cases h2 : i = l + (u - l) / 2
        · subst h2
          have hz := hpp key hkey
          have : ¬ (cmp key ws[l + (u - l) / 2] < 0) := by omega
          have h3 : ¬ (cmp key ws[l + (u - l) / 2] > 0) := by omega
          simp only [this, h3, ↓reduceIte]
        · have hc := hright _ (mem_segOf ws (l + (u - l) / 2 + 1) u i hu (by omega) hiu) key hkey
          have hn : ¬ (cmp key ws[l + (u - l) / 2] < 0) := by omega
          simp only [hn, hc, ↓reduceIte]
          exact ih _ u hu htr i hi (by omega) hiu key hkey f (by omega)

/-- every table word, searched with the table's comparator through `bsearch`, is found at its own index. -/
theorem bsearch_finds_all (cmp : List Nat → List Nat → Int) (keys : List Nat → List (List Nat)) (ws : Array (List Nat))
    (h : treeOk cmp keys (ws.size + 1) ws.toList = true) (i : Nat) (hi : i < ws.size) (key : List Nat) (hkey : key ∈ keys ws[i]) :
    bsearch (cmp key) ws = some i := by
  have hs : segOf ws 0 ws.size = ws.toList := by
    simp only [segOf, List.drop_zero, Nat.sub_zero]
    exact List.take_of_length_le (by simp)
  unfold bsearch
  exact treeOk_sound cmp keys ws (ws.size + 1) 0 ws.size (Nat.le_refl _) (by rw [hs]; exact h) i hi (Nat.zero_le _) hi key hkey _ (by omega)

end Polyseed
