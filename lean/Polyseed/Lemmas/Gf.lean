import Polyseed.Model.Gf
import Polyseed.Model.Spec
import Polyseed.Lemmas.Bits
/-!
# GF(2048) algebra behind `gf.h`

`mul2` (threshold + 8-entry table, as in C) is multiplication by `x` modulo
`x^11 + x^2 + 1`; it is XOR-linear, injective and has no short cycles; Horner
evaluation is XOR-linear.
-/
namespace Polyseed

/-- multiplication by `x` in GF(2)[x]/(x^11+x^2+1) on 11-bit vectors (the specification's definition) -/
abbrev mul2bv (x : BitVec 11) : BitVec 11 := Spec.mulX x

theorem xor_cancel_right {n} (x y c : BitVec n) : x ^^^ c ^^^ (y ^^^ c) = x ^^^ y := by
  rw [BitVec.xor_assoc, BitVec.xor_comm y c, ← BitVec.xor_assoc c c y, BitVec.xor_self, BitVec.zero_xor]

theorem mul2bv_xor (a b : BitVec 11) : mul2bv (a ^^^ b) = mul2bv a ^^^ mul2bv b := by
  unfold mul2bv Spec.mulX
  rw [BitVec.msb_xor, BitVec.shiftLeft_xor_distrib]
  cases a.msb <;> cases b.msb <;> simp
  · rw [BitVec.xor_assoc]
  · rw [BitVec.xor_assoc, BitVec.xor_comm (b <<< 1), ← BitVec.xor_assoc]
  · rw [xor_cancel_right]

/-- the C function agrees with the field operation on all 2048 elements (kernel evaluation). -/
theorem mul2_eq_bv_all : (List.range 2048).all (fun x => mul2 x == (mul2bv (BitVec.ofNat 11 x)).toNat) = true := by
  decide +kernel

theorem mul2_eq_bv (x : Nat) (h : x < 2048) : mul2 x = (mul2bv (BitVec.ofNat 11 x)).toNat := by
  have := List.all_eq_true.mp mul2_eq_bv_all x (List.mem_range.mpr h)
  simpa using this

theorem mul2_lt (x : Nat) (h : x < 2048) : mul2 x < 2048 := by
  rw [mul2_eq_bv x h]; exact (mul2bv _).isLt

theorem mul2_zero : mul2 0 = 0 := by decide

theorem mul2_xor (x y : Nat) (hx : x < 2048) (hy : y < 2048) : mul2 (x ^^^ y) = mul2 x ^^^ mul2 y := by
  have hxy : x ^^^ y < 2048 := Nat.xor_lt_two_pow (n := 11) hx hy
  rw [mul2_eq_bv _ hxy, mul2_eq_bv _ hx, mul2_eq_bv _ hy, ← BitVec.toNat_xor, ← mul2bv_xor]
  congr 2
  apply BitVec.eq_of_toNat_eq
  simp [BitVec.toNat_xor, Nat.mod_eq_of_lt hx, Nat.mod_eq_of_lt hy, Nat.mod_eq_of_lt hxy]

/-- division by `x`: the inverse of `mul2bv` -/
def div2bv (y : BitVec 11) : BitVec 11 :=
  if y.getLsbD 0 then ((y ^^^ 5#11) >>> 1) ||| 1024#11 else y >>> 1

theorem div2_mul2_all : (List.range 2048).all (fun x => (div2bv (mul2bv (BitVec.ofNat 11 x))).toNat == x) = true := by
  decide +kernel

theorem mul2_inj (x y : Nat) (hx : x < 2048) (hy : y < 2048) (h : mul2 x = mul2 y) : x = y := by
  rw [mul2_eq_bv x hx, mul2_eq_bv y hy] at h
  have hb : mul2bv (BitVec.ofNat 11 x) = mul2bv (BitVec.ofNat 11 y) := BitVec.eq_of_toNat_eq h
  have e1 := List.all_eq_true.mp div2_mul2_all x (List.mem_range.mpr hx)
  have e2 := List.all_eq_true.mp div2_mul2_all y (List.mem_range.mpr hy)
  simp only [beq_iff_eq] at e1 e2
  rw [← e1, ← e2, hb]

theorem xor_eq_zero {a b : Nat} (h : a ^^^ b = 0) : a = b := by
  have : (a ^^^ b) ^^^ b = a := by rw [Nat.xor_assoc, Nat.xor_self, Nat.xor_zero]
  rw [h, Nat.zero_xor] at this
  exact this.symm

theorem mul2_eq_zero (x : Nat) (hx : x < 2048) (h : mul2 x = 0) : x = 0 :=
  mul2_inj x 0 hx (by omega) (by rw [h, mul2_zero])

/-- iterated multiplication by `x` -/
def mul2Iter : Nat → Nat → Nat
  | 0, x => x
  | k + 1, x => mul2 (mul2Iter k x)

theorem mul2Iter_lt (k x : Nat) (hx : x < 2048) : mul2Iter k x < 2048 := by
  induction k with
  | zero => exact hx
  | succ k ih => exact mul2_lt _ ih

theorem mul2Iter_zero (k : Nat) : mul2Iter k 0 = 0 := by
  induction k with
  | zero => rfl
  | succ k ih => simp [mul2Iter, ih, mul2_zero]

theorem mul2Iter_eq_zero (k x : Nat) (hx : x < 2048) (h : mul2Iter k x = 0) : x = 0 := by
  induction k with
  | zero => exact h
  | succ k ih => exact ih (mul2_eq_zero _ (mul2Iter_lt k x hx) h)

theorem mul2Iter_xor (k x y : Nat) (hx : x < 2048) (hy : y < 2048) :
    mul2Iter k (x ^^^ y) = mul2Iter k x ^^^ mul2Iter k y := by
  induction k with
  | zero => rfl
  | succ k ih => simp only [mul2Iter, ih]; exact mul2_xor _ _ (mul2Iter_lt k x hx) (mul2Iter_lt k y hy)

theorem mul2Iter_succ' (k x : Nat) : mul2Iter (k + 1) x = mul2Iter k (mul2 x) := by
  induction k with
  | zero => rfl
  | succ k ih => simp only [mul2Iter] at *; rw [ih]

theorem mul2Iter_inj (k x y : Nat) (hx : x < 2048) (hy : y < 2048) (h : mul2Iter k x = mul2Iter k y) : x = y := by
  induction k with
  | zero => exact h
  | succ k ih => exact ih (mul2_inj _ _ (mul2Iter_lt k x hx) (mul2Iter_lt k y hy) h)

theorem mul2Iter_add (j k x : Nat) : mul2Iter (j + k) x = mul2Iter j (mul2Iter k x) := by
  induction j with
  | zero => simp [mul2Iter]
  | succ j ih => rw [Nat.succ_add]; simp only [mul2Iter, ih]

/-- no non-zero element returns to itself in 1..15 multiplications by `x`
(the order of `x` is 2047 = 23 * 89): 2047 x 15 kernel evaluations. -/
def noCycleRow (d : Nat) : Bool :=
  (List.range 15).all (fun k => mul2Iter (k + 1) d != d)

theorem no_short_cycle_all : (List.range 2048).all (fun d => d == 0 || noCycleRow d) = true := by
  decide +kernel

theorem mul2_no_short_cycle (d : Nat) (hd : d < 2048) (h0 : d ≠ 0) (k : Nat) (hk1 : 1 ≤ k) (hk : k ≤ 15) :
    mul2Iter k d ≠ d := by
  have := List.all_eq_true.mp no_short_cycle_all d (List.mem_range.mpr hd)
  simp only [Bool.or_eq_true, beq_iff_eq, h0, false_or] at this
  have := List.all_eq_true.mp this (k - 1) (List.mem_range.mpr (by omega))
  simp only [bne_iff_ne, ne_eq] at this
  rwa [Nat.sub_add_cancel hk1] at this

/-- all coefficients are field elements -/
def Coeffs (p : List Nat) : Prop := ∀ c ∈ p, c < 2048

theorem polyEval_lt (p : List Nat) (h : Coeffs p) : polyEval p < 2048 := by
  induction p with
  | nil => simp [polyEval]
  | cons c cs ih =>
    simp only [polyEval]
    exact Nat.xor_lt_two_pow (n := 11) (mul2_lt _ (ih (fun x hx => h x (by simp [hx])))) (h c (by simp))

/-- replacing coefficient `i` changes the evaluation by `x^i * (old + new)`. -/
theorem polyEval_set (p : List Nat) (h : Coeffs p) (i : Nat) (hi : i < p.length) (v : Nat) (hv : v < 2048) :
    polyEval (p.set i v) = polyEval p ^^^ mul2Iter i (v ^^^ p[i]) := by
  induction p generalizing i with
  | nil => simp at hi
  | cons c cs ih =>
    have hc : c < 2048 := h c (by simp)
    have hcs : Coeffs cs := fun x hx => h x (by simp [hx])
    cases i with
    | zero =>
      simp only [List.set_cons_zero, polyEval, mul2Iter, List.getElem_cons_zero]
      rw [Nat.xor_assoc, ← Nat.xor_assoc c v c, Nat.xor_comm c v, Nat.xor_assoc v c c, Nat.xor_self, Nat.xor_zero]
    | succ i =>
      have hi' : i < cs.length := by simpa using hi
      simp only [List.set_cons_succ, polyEval, List.getElem_cons_succ]
      rw [ih hcs i hi']
      have hd : v ^^^ cs[i] < 2048 := Nat.xor_lt_two_pow (n := 11) hv (hcs _ (List.getElem_mem hi'))
      rw [mul2_xor _ _ (polyEval_lt cs hcs) (mul2Iter_lt i _ hd)]
      simp only [mul2Iter]
      rw [Nat.xor_assoc, Nat.xor_assoc, Nat.xor_comm (mul2 (mul2Iter i (v ^^^ cs[i]))) c]

end Polyseed

namespace Polyseed

theorem polyCheck_cons_iff (c : Nat) (cs : List Nat) : polyCheck (c :: cs) = true ↔ c = polyEval (0 :: cs) := by
  simp only [polyCheck, polyEval, Nat.xor_zero, beq_iff_eq]
  constructor
  · intro h; exact (xor_eq_zero h).symm
  · intro h; rw [h, Nat.xor_self]

end Polyseed
