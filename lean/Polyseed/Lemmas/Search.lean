import Polyseed.Lemmas.Tables
/-! Soundness of the two search loops: a returned index compares equal. -/
namespace Polyseed

theorem bsearchAux_sound {α} (c : α → Int) (ws : Array α) :
    ∀ fuel l u r, bsearchAux c ws fuel l u = some r → ∃ h : r < ws.size, c ws[r] = 0 ∧ l ≤ r ∧ r < u := by
  intro fuel
  induction fuel with
  | zero => intro l u r h; simp [bsearchAux] at h
  | succ f ih =>
    intro l u r h
    unfold bsearchAux at h
    split at h
    · rename_i hlu
      simp only at h
      split at h
      · rename_i hidx
        split at h
        · obtain ⟨h1, h2, h3, h4⟩ := ih _ _ _ h
          exact ⟨h1, h2, h3, by omega⟩
        · split at h
          · obtain ⟨h1, h2, h3, h4⟩ := ih _ _ _ h
            exact ⟨h1, h2, by omega, h4⟩
          · injection h with h
            subst h
            refine ⟨hidx, by omega, by omega, by omega⟩
      · cases h
    · cases h

theorem linearSearch_sound {α} (c : α → Int) : ∀ (ws : List α) (j0 r : Nat), linearSearch c ws j0 = some r →
    ∃ (k : Nat) (hk : k < ws.length), r = j0 + k ∧ c ws[k] = 0 := by
  intro ws
  induction ws with
  | nil => intro j0 r h; simp [linearSearch] at h
  | cons w ws ih =>
    intro j0 r h
    unfold linearSearch at h
    split at h
    · rename_i hz
      injection h with h
      exact ⟨0, by simp, by omega, by simpa using hz⟩
    · obtain ⟨k, hk, rfl, hz⟩ := ih _ _ h
      exact ⟨k + 1, by simpa using hk, by omega, by simpa using hz⟩

/-- whatever `polyseed_lang_find_word` returns compares equal to the token under the language's comparator -/
theorem findWord_sound (L : Lang) (tok : List Nat) (i : Nat) (h : findWord L tok = some i) :
    ∃ hi : i < L.words.size, getComparer L tok L.words[i] = 0 := by
  unfold findWord langSearch at h
  split at h
  · obtain ⟨h1, h2, _, _⟩ := bsearchAux_sound _ _ _ _ _ _ h
    exact ⟨h1, h2⟩
  · obtain ⟨k, hk, rfl, hz⟩ := linearSearch_sound _ _ _ _ h
    have hk' : k < L.words.size := by simpa using hk
    exact ⟨by omega, by simpa using hz⟩

end Polyseed
