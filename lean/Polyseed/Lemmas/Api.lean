import Polyseed.Model.Api
/-! Equation lemmas for the API model: one lemma per exit path of each function. -/
namespace Polyseed

theorem create_unsupported {cfg : Cfg} {lib : Lib} {f : Nat} {w : World}
    (h : featuresSupported lib.reserved (makeFeatures (f % 2 ^ 32)) = false) :
    create cfg lib f w = ⟨lib, (.unsupported, none), [], w⟩ := by
  simp only [create, h, Bool.not_false, ↓reduceIte]

theorem create_memory {cfg : Cfg} {lib : Lib} {f : Nat} {w w1 : World} {e : Event}
    (h : featuresSupported lib.reserved (makeFeatures (f % 2 ^ 32)) = true)
    (ha : doAlloc cfg lib w = (none, e, w1)) :
    create cfg lib f w = ⟨lib, (.memory, none), [e], w1⟩ := by
  simp only [create, h, ha, Bool.not_true, Bool.false_eq_true, ↓reduceIte]

theorem create_ok {cfg : Cfg} {lib : Lib} {f : Nat} {w w1 : World} {e : Event} {b : Nat} {junk : Data}
    (h : featuresSupported lib.reserved (makeFeatures (f % 2 ^ 32)) = true)
    (ha : doAlloc cfg lib w = (some (b, junk), e, w1)) :
    create cfg lib f w = ⟨lib.put b (createData junk (makeFeatures (f % 2 ^ 32)) (w1.times.headD 0) (w1.rands.headD [])),
      (.ok, some b),
      [e, .time lib.deps.time (w1.times.headD 0), .rand lib.deps.randbytes SECRET_SIZE (w1.rands.headD []),
       .zeroStack lib.deps.memzero .poly cfg.sizeofPoly],
      { w1 with times := w1.times.tail, rands := w1.rands.tail }⟩ := by
  simp only [create, h, ha, Bool.not_true, Bool.false_eq_true, ↓reduceIte]

/-- case analysis of `polyseed_create` -/
theorem create_cases (cfg : Cfg) (lib : Lib) (f : Nat) (w : World) :
    (featuresSupported lib.reserved (makeFeatures (f % 2 ^ 32)) = false ∧
      create cfg lib f w = ⟨lib, (.unsupported, none), [], w⟩) ∨
    (featuresSupported lib.reserved (makeFeatures (f % 2 ^ 32)) = true ∧
      ((∃ e w1, doAlloc cfg lib w = (none, e, w1) ∧ create cfg lib f w = ⟨lib, (.memory, none), [e], w1⟩) ∨
       (∃ b junk e w1, doAlloc cfg lib w = (some (b, junk), e, w1) ∧
          create cfg lib f w = ⟨lib.put b (createData junk (makeFeatures (f % 2 ^ 32)) (w1.times.headD 0) (w1.rands.headD [])),
            (.ok, some b),
            [e, .time lib.deps.time (w1.times.headD 0), .rand lib.deps.randbytes SECRET_SIZE (w1.rands.headD []),
             .zeroStack lib.deps.memzero .poly cfg.sizeofPoly],
            { w1 with times := w1.times.tail, rands := w1.rands.tail }⟩))) := by
  cases h : featuresSupported lib.reserved (makeFeatures (f % 2 ^ 32))
  · exact Or.inl ⟨rfl, create_unsupported h⟩
  · refine Or.inr ⟨rfl, ?_⟩
    rcases ha : doAlloc cfg lib w with ⟨_ | ⟨b, junk⟩, e, w1⟩
    · exact Or.inl ⟨e, w1, rfl, create_memory h ha⟩
    · exact Or.inr ⟨b, junk, e, w1, rfl, create_ok h ha⟩

/-! ### `polyseed_load` -/

theorem load_memory {cfg : Cfg} {lib : Lib} {buf : List Nat} {w w1 : World} {e : Event}
    (ha : doAlloc cfg lib w = (none, e, w1)) :
    load cfg lib buf w = ⟨lib, (.memory, none), [e], w1⟩ := by
  simp only [load, ha]

theorem load_format {cfg : Cfg} {lib : Lib} {buf : List Nat} {w w1 : World} {e : Event} {b : Nat} {junk : Data} {st : Status}
    (ha : doAlloc cfg lib w = (some (b, junk), e, w1)) (hl : dataLoad buf = (st, none)) :
    load cfg lib buf w = ⟨lib, (st, none), [e] ++ freeEvents cfg lib b, w1⟩ := by
  simp only [load, ha, hl]

theorem load_checksum {cfg : Cfg} {lib : Lib} {buf : List Nat} {w w1 : World} {e : Event} {b : Nat} {junk d : Data} {st : Status}
    (ha : doAlloc cfg lib w = (some (b, junk), e, w1)) (hl : dataLoad buf = (st, some d))
    (hc : polyCheck (d.checksum :: dataToPoly d) = false) :
    load cfg lib buf w = ⟨lib, (.checksum, none),
      [e] ++ freeEvents cfg lib b ++ [Event.zeroStack lib.deps.memzero .poly cfg.sizeofPoly], w1⟩ := by
  simp only [load, ha, hl, hc, Bool.not_false, ↓reduceIte]

theorem load_unsupported {cfg : Cfg} {lib : Lib} {buf : List Nat} {w w1 : World} {e : Event} {b : Nat} {junk d : Data} {st : Status}
    (ha : doAlloc cfg lib w = (some (b, junk), e, w1)) (hl : dataLoad buf = (st, some d))
    (hc : polyCheck (d.checksum :: dataToPoly d) = true) (hs : featuresSupported lib.reserved d.features = false) :
    load cfg lib buf w = ⟨lib, (.unsupported, none),
      [e] ++ freeEvents cfg lib b ++ [Event.zeroStack lib.deps.memzero .poly cfg.sizeofPoly], w1⟩ := by
  simp only [load, ha, hl, hc, hs, Bool.not_false, Bool.not_true, Bool.false_eq_true, ↓reduceIte]

theorem load_ok {cfg : Cfg} {lib : Lib} {buf : List Nat} {w w1 : World} {e : Event} {b : Nat} {junk d : Data} {st : Status}
    (ha : doAlloc cfg lib w = (some (b, junk), e, w1)) (hl : dataLoad buf = (st, some d))
    (hc : polyCheck (d.checksum :: dataToPoly d) = true) (hs : featuresSupported lib.reserved d.features = true) :
    load cfg lib buf w = ⟨lib.put b d, (.ok, some b),
      [e] ++ [Event.zeroStack lib.deps.memzero .poly cfg.sizeofPoly], w1⟩ := by
  simp only [load, ha, hl, hc, hs, Bool.not_true, Bool.false_eq_true, ↓reduceIte]

/-- `polyseed_data_load` returns a seed exactly with the OK status, and only the format status otherwise. -/
theorem dataLoad_cases (buf : List Nat) :
    (dataLoad buf = (.format, none)) ∨ (∃ d, dataLoad buf = (.ok, some d)) := by
  unfold dataLoad
  split
  · exact Or.inl rfl
  · simp only
    split
    · exact Or.inl rfl
    · split
      · exact Or.inl rfl
      · split
        · exact Or.inl rfl
        · split
          · exact Or.inl rfl
          · exact Or.inr ⟨_, rfl⟩

/-! ### the common tail of the decoders -/

theorem decodeFinish_checksum {cfg : Cfg} {lib : Lib} {idx : List Nat} {coin : Nat} {lo : Option Nat} {pre : List Event} {w : World}
    (hc : polyCheck (applyCoin idx coin) = false) :
    decodeFinish cfg lib idx coin lo pre w = ⟨lib, ⟨.checksum, none, lo⟩, pre ++ decodeWipes cfg lib, w⟩ := by
  simp only [decodeFinish, hc, Bool.not_false, ↓reduceIte]

theorem decodeFinish_memory {cfg : Cfg} {lib : Lib} {idx : List Nat} {coin : Nat} {lo : Option Nat} {pre : List Event} {w w1 : World} {e : Event}
    (hc : polyCheck (applyCoin idx coin) = true) (ha : doAlloc cfg lib w = (none, e, w1)) :
    decodeFinish cfg lib idx coin lo pre w = ⟨lib, ⟨.memory, none, lo⟩, pre ++ [e] ++ decodeWipes cfg lib, w1⟩ := by
  simp only [decodeFinish, hc, ha, Bool.not_true, Bool.false_eq_true, ↓reduceIte]

theorem decodeFinish_unsupported {cfg : Cfg} {lib : Lib} {idx : List Nat} {coin : Nat} {lo : Option Nat} {pre : List Event} {w w1 : World} {e : Event}
    {b : Nat} {junk : Data}
    (hc : polyCheck (applyCoin idx coin) = true) (ha : doAlloc cfg lib w = (some (b, junk), e, w1))
    (hs : featuresSupported lib.reserved (polyToData (applyCoin idx coin)).features = false) :
    decodeFinish cfg lib idx coin lo pre w =
      ⟨lib, ⟨.unsupported, none, lo⟩, pre ++ [e] ++ freeEvents cfg lib b ++ decodeWipes cfg lib, w1⟩ := by
  simp only [decodeFinish, hc, ha, hs, Bool.not_true, Bool.not_false, Bool.false_eq_true, ↓reduceIte]

theorem decodeFinish_ok {cfg : Cfg} {lib : Lib} {idx : List Nat} {coin : Nat} {lo : Option Nat} {pre : List Event} {w w1 : World} {e : Event}
    {b : Nat} {junk : Data}
    (hc : polyCheck (applyCoin idx coin) = true) (ha : doAlloc cfg lib w = (some (b, junk), e, w1))
    (hs : featuresSupported lib.reserved (polyToData (applyCoin idx coin)).features = true) :
    decodeFinish cfg lib idx coin lo pre w =
      ⟨lib.put b (polyToData (applyCoin idx coin)), ⟨.ok, some b, lo⟩, pre ++ [e] ++ decodeWipes cfg lib, w1⟩ := by
  simp only [decodeFinish, hc, ha, hs, Bool.not_true, Bool.false_eq_true, ↓reduceIte]

end Polyseed
