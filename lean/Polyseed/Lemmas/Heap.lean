import Polyseed.Lemmas.Api
/-! The heap of live seed blocks as an association list: lookup after put / update / del. -/
namespace Polyseed

def Lib.keys (lib : Lib) : List Nat := lib.heap.map (·.1)

theorem lookup_cons (x k : Nat) (v : Data) (ps : List (Nat × Data)) :
    List.lookup x ((k, v) :: ps) = if x = k then some v else List.lookup x ps := by
  by_cases h : x = k
  · subst h; simp [List.lookup]
  · have : (x == k) = false := by simpa using h
    simp [List.lookup, this, h]

theorem lookup_map_update (h : List (Nat × Data)) (b : Nat) (d : Data) (x : Nat) :
    (h.map (fun p => if p.1 == b then (b, d) else p)).lookup x =
      if x = b then (h.lookup b).map (fun _ => d) else h.lookup x := by
  induction h with
  | nil => simp
  | cons p ps ih =>
    obtain ⟨k, v⟩ := p
    simp only [List.map_cons]
    by_cases hk : k = b
    · subst hk
      simp only [beq_self_eq_true, ↓reduceIte, lookup_cons, ih]
      by_cases hx : x = k
      · simp [hx]
      · simp [hx]
    · have hkb : (k == b) = false := by simpa using hk
      simp only [hkb, Bool.false_eq_true, ↓reduceIte, lookup_cons, ih]
      by_cases hx : x = k
      · subst hx; simp [hk]
      · by_cases hxb : x = b
        · subst hxb; simp [hx, Ne.symm hk]
        · simp [hx, hxb]

theorem lookup_filter_ne (h : List (Nat × Data)) (b x : Nat) :
    (h.filter (fun p => p.1 != b)).lookup x = if x = b then none else h.lookup x := by
  induction h with
  | nil => simp
  | cons p ps ih =>
    obtain ⟨k, v⟩ := p
    by_cases hk : k = b
    · subst hk
      simp only [List.filter, bne_self_eq_false, ih, lookup_cons]
      by_cases hx : x = k <;> simp [hx]
    · have hkb : (k != b) = true := by simpa using hk
      simp only [List.filter, hkb, lookup_cons, ih]
      by_cases hx : x = k
      · subst hx; simp [hk]
      · simp [hx]

theorem Lib.get_update (lib : Lib) (b : Nat) (d : Data) (x : Nat) :
    (lib.update b d).get x = if x = b then (lib.get b).map (fun _ => d) else lib.get x := by
  simp only [Lib.get, Lib.update, lookup_map_update]

theorem Lib.get_put (lib : Lib) (b : Nat) (d : Data) (x : Nat) :
    (lib.put b d).get x = if x = b then some d else lib.get x := by
  simp only [Lib.get, Lib.put, lookup_cons, lookup_filter_ne]
  by_cases hx : x = b <;> simp [hx]

theorem Lib.get_del (lib : Lib) (b : Nat) (x : Nat) :
    (lib.del b).get x = if x = b then none else lib.get x := by
  simp only [Lib.get, Lib.del, lookup_filter_ne]

theorem Lib.keys_update (lib : Lib) (b : Nat) (d : Data) : (lib.update b d).keys = lib.keys := by
  simp only [Lib.keys, Lib.update, List.map_map]
  apply List.map_congr_left
  intro p _
  simp only [Function.comp]
  split
  · rename_i h; exact (by simpa using h : p.1 = b).symm
  · rfl

theorem Lib.keys_put (lib : Lib) (b : Nat) (d : Data) (h : b ∉ lib.keys) : (lib.put b d).keys = b :: lib.keys := by
  simp only [Lib.keys, Lib.put, List.map_cons, List.cons.injEq, true_and]
  congr 1
  apply List.filter_eq_self.mpr
  intro p hp
  simp only [bne_iff_ne, ne_eq]
  intro hpb
  exact h (by simp only [Lib.keys, List.mem_map]; exact ⟨p, hp, hpb⟩)

theorem Lib.keys_del (lib : Lib) (b : Nat) : (lib.del b).keys = lib.keys.filter (· != b) := by
  simp only [Lib.keys, Lib.del, List.filter_map]
  rfl

theorem Lib.mem_keys_iff (lib : Lib) (b : Nat) : b ∈ lib.keys ↔ ∃ d, lib.get b = some d := by
  simp only [Lib.keys, Lib.get]
  induction lib.heap with
  | nil => simp
  | cons p ps ih =>
    obtain ⟨k, v⟩ := p
    simp only [List.map_cons, List.mem_cons, lookup_cons, ih]
    by_cases hk : b = k
    · simp [hk]
    · simp [hk]

end Polyseed
