import Polyseed.Lemmas.TreeCheck
/-!
# Kernel-evaluated facts about one word table, and what follows from them

`tableCheck L` is a `Bool` the kernel evaluates on the regenerated table (`decide +kernel`):
2048 words, every byte in 1..255 and not a space, no empty word, and every word is found at its own
index by the library's search (bsearch decision tree for sorted lists; first-match + distinctness for
unsorted ones).  `TableOK` is the propositional form the property theorems use.
-/
namespace Polyseed

def wordBytesOk (w : List Nat) : Bool :=
  !w.isEmpty && w.all (fun b => Nat.blt 0 b && Nat.blt b 256 && !(Nat.beq b 32))

/-- distinctness by a bitmap over a numeric code (used for the unsorted lists, whose words are single
3-byte characters): the code of a 3-byte word is its value in base 256 (< 2^24). -/
def wordCode (w : List Nat) : Option Nat :=
  match w with
  | [a, b, c] => some (a * 65536 + b * 256 + c)
  | _ => none

/-- fold over a bitmap: `false` as soon as a code repeats or a word has no code -/
def distinctCodes (code : List Nat → Option Nat) : List (List Nat) → Nat → Bool
  | [], _ => true
  | w :: ws, seen =>
    match code w with
    | none => false
    | some c => if seen.testBit c then false else distinctCodes code ws (seen ||| (1 <<< c))

/-- what the accent-insensitive comparators compare: the string without its bytes >= 0x80 -/
def strip (s : List Nat) : List Nat := s.filter (fun b => !isNeg b)

/-- the proper prefixes of at least four bytes -/
def prefixes4 (e : List Nat) : List (List Nat) :=
  (List.range e.length).filterMap (fun n => if 4 ≤ n then some (e.take n) else none)

/-- the tokens that must be found at the index of table word `w`: the word as listed; for the abbreviating
languages also its comparison form (`strip w` if the language folds accents, `w` otherwise) and every proper
prefix of at least four letters of that form. -/
def keysOf (L : Lang) (w : List Nat) : List (List Nat) :=
  if L.hasPrefix then
    let e := if L.hasAccents then strip w else w
    w :: e :: prefixes4 e
  else [w]

def linearFindsAll (L : Lang) : Bool :=
  distinctCodes wordCode L.words.toList 0

/-- the first four accent-stripped letters of a word as a number in base 27 (a..z = 1..26, 0 = no letter):
bytes >= 128 (combining accents in the decomposed lists) are skipped; any other byte has no code. -/
def prefixCodeAux : Nat → List Nat → Nat → Option Nat
  | 0, _, acc => some acc
  | n + 1, [], acc => prefixCodeAux n [] (acc * 27)
  | n + 1, b :: bs, acc =>
    if 128 ≤ b then prefixCodeAux (n + 1) bs acc
    else if 97 ≤ b ∧ b ≤ 122 then prefixCodeAux n bs (acc * 27 + (b - 96))
    else none
termination_by n l _ => n + l.length

def prefixCode (w : List Nat) : Option Nat := prefixCodeAux 4 w 0

/-- for the languages that allow abbreviation: no two words share their first four accent-stripped letters -/
def prefixCheck (L : Lang) : Bool := !L.hasPrefix || distinctCodes prefixCode L.words.toList 0

def tableCheck (L : Lang) : Bool :=
  Nat.beq L.words.size 2048 && L.words.toList.all wordBytesOk &&
    (if L.isSorted then treeOk (getComparer L) (keysOf L) (L.words.size + 1) L.words.toList
     else (!L.hasPrefix && !L.hasAccents) && linearFindsAll L)

structure TableOK (L : Lang) : Prop where
  size : L.words.size = 2048
  bytes : ∀ w ∈ L.words.toList, w ≠ [] ∧ ∀ b ∈ w, 0 < b ∧ b < 256 ∧ b ≠ 32
  finds : ∀ i (hi : i < L.words.size), findWord L L.words[i] = some i
  /-- every admissible abbreviation is found at the word's index (sorted lists) -/
  findsKeys : L.isSorted = true → ∀ i (hi : i < L.words.size), ∀ k ∈ keysOf L L.words[i], findWord L k = some i

/-! ### first-match search on a duplicate-free list -/

theorem sc_inj (a b : Nat) (ha : a < 256) (hb : b < 256) (h : sc a = sc b) : a = b := by
  unfold sc at h
  split at h <;> split at h <;> omega

theorem sgnCmp_eq_zero (a b : Nat) (ha : a < 256) (hb : b < 256) : sgnCmp a b = 0 ↔ a = b := by
  unfold sgnCmp
  constructor
  · intro h
    split at h
    · omega
    · split at h
      · omega
      · exact sc_inj a b ha hb (by omega)
  · rintro rfl; simp

def BytesOK (w : List Nat) : Prop := ∀ b ∈ w, 0 < b ∧ b < 256

/-- `compare_str` returns 0 exactly for equal strings (NUL-free byte strings). -/
theorem cmpStr_eq_zero : ∀ (a b : List Nat), BytesOK a → BytesOK b → (cmpStr a b = 0 ↔ a = b) := by
  intro a
  induction a with
  | nil =>
    intro b _ hb
    cases b with
    | nil => simp [cmpStr, hd, sgnCmp]
    | cons e es =>
      have he := hb e (by simp)
      simp only [cmpStr, hd, List.headD_cons, sgnCmp_eq_zero 0 e (by omega) he.2]
      constructor
      · intro h; omega
      · intro h; cases h
  | cons k ks ih =>
    intro b ha hb
    have hk := ha k (by simp)
    cases b with
    | nil =>
      simp only [cmpStr, sgnCmp_eq_zero k 0 hk.2 (by omega)]
      constructor
      · intro h; omega
      · intro h; cases h
    | cons e es =>
      have he := hb e (by simp)
      simp only [cmpStr]
      by_cases hke : k = e
      · subst hke
        simp only [↓reduceIte, List.cons.injEq, true_and]
        exact ih es (fun x hx => ha x (by simp [hx])) (fun x hx => hb x (by simp [hx]))
      · simp only [hke, ↓reduceIte, List.cons.injEq, false_and, iff_false]
        rw [sgnCmp_eq_zero k e hk.2 he.2]; exact hke

theorem linearSearch_first (c : List Nat → Int) (ws : List (List Nat)) (j0 i : Nat) (hi : i < ws.length)
    (hz : c ws[i] = 0) (hfirst : ∀ j (hj : j < i), c (ws[j]'(by omega)) ≠ 0) :
    linearSearch c ws j0 = some (j0 + i) := by
  induction ws generalizing j0 i with
  | nil => simp at hi
  | cons w ws ih =>
    cases i with
    | zero => simp only [List.getElem_cons_zero] at hz; simp [linearSearch, hz]
    | succ i =>
      have h0 := hfirst 0 (by omega)
      simp only [List.getElem_cons_zero] at h0
      simp only [linearSearch, h0, ↓reduceIte]
      have := ih (j0 + 1) i (by simpa using hi) (by simpa using hz) (fun j hj => by
        have := hfirst (j + 1) (by omega); simpa using this)
      rw [this]; congr 1; omega

/-! ### the bitmap distinctness check -/

theorem wordCode_inj (a b : List Nat) (ha : ∀ x ∈ a, x < 256) (hb : ∀ x ∈ b, x < 256) (ca cb : Nat)
    (h1 : wordCode a = some ca) (h2 : wordCode b = some cb) (h : ca = cb) : a = b := by
  unfold wordCode at h1 h2
  split at h1 <;> simp at h1
  split at h2 <;> simp at h2
  rename_i a0 a1 a2 _ b0 b1 b2
  have := ha a0 (by simp); have := ha a1 (by simp); have := ha a2 (by simp)
  have := hb b0 (by simp); have := hb b1 (by simp); have := hb b2 (by simp)
  subst h1 h2
  simp only [List.cons.injEq, and_true]
  refine ⟨?_, ?_, ?_⟩ <;> omega

theorem blt_true {a b : Nat} (h : Nat.blt a b = true) : a < b := by
  unfold Nat.blt at h; exact Nat.le_of_ble_eq_true h

theorem testBit_or_shift (seen c d : Nat) : (seen ||| (1 <<< c)).testBit d = (seen.testBit d || decide (c = d)) := by
  rw [Nat.testBit_or, Nat.one_shiftLeft, Nat.testBit_two_pow]

theorem distinctCodes_sound (wordCode : List Nat → Option Nat) : ∀ (ws : List (List Nat)) (seen : Nat), distinctCodes wordCode ws seen = true →
    (∀ w ∈ ws, ∃ c, wordCode w = some c ∧ seen.testBit c = false) ∧
    ws.Pairwise (fun a b => ∀ ca cb, wordCode a = some ca → wordCode b = some cb → ca ≠ cb) := by
  intro ws
  induction ws with
  | nil => intro _ _; exact ⟨by simp, List.Pairwise.nil⟩
  | cons w ws ih =>
    intro seen h
    unfold distinctCodes at h
    split at h
    · simp at h
    · rename_i c hc
      split at h
      · simp at h
      · rename_i hseen
        have hseen' : seen.testBit c = false := by simpa using hseen
        obtain ⟨h1, h2⟩ := ih _ h
        constructor
        · intro x hx
          simp only [List.mem_cons] at hx
          rcases hx with rfl | hx
          · exact ⟨c, hc, hseen'⟩
          · obtain ⟨cx, hcx, ht⟩ := h1 x hx
            rw [testBit_or_shift] at ht
            simp only [Bool.or_eq_false_iff, decide_eq_false_iff_not] at ht
            exact ⟨cx, hcx, ht.1⟩
        · apply List.Pairwise.cons _ h2
          intro x hx ca cb hca hcb
          rw [hc] at hca; simp only [Option.some.injEq] at hca; subst hca
          obtain ⟨cx, hcx, ht⟩ := h1 x hx
          rw [hcx] at hcb; simp only [Option.some.injEq] at hcb; subst hcb
          rw [testBit_or_shift] at ht
          simp only [Bool.or_eq_false_iff, decide_eq_false_iff_not] at ht
          exact ht.2

theorem tableOK_of_check (L : Lang) (h : tableCheck L = true) : TableOK L := by
  unfold tableCheck at h
  simp only [Bool.and_eq_true, List.all_eq_true] at h
  obtain ⟨⟨hsize', hbytes⟩, hfind⟩ := h
  have hsize : L.words.size = 2048 := Nat.eq_of_beq_eq_true hsize'
  have hb : ∀ w ∈ L.words.toList, w ≠ [] ∧ ∀ b ∈ w, 0 < b ∧ b < 256 ∧ b ≠ 32 := by
    intro w hw
    have := hbytes w hw
    simp only [wordBytesOk, Bool.and_eq_true, Bool.not_eq_true', List.isEmpty_eq_false_iff, List.all_eq_true] at this
    refine ⟨this.1, fun b hb' => ?_⟩
    have := this.2 b hb'
    exact ⟨blt_true this.1.1, blt_true this.1.2, Nat.ne_of_beq_eq_false this.2⟩
  have hself : ∀ w, w ∈ keysOf L w := by
    intro w; unfold keysOf; split <;> simp
  refine ⟨hsize, hb, ?_, ?_⟩
  rotate_left
  · intro hs i hi k hk
    unfold findWord langSearch
    simp only [hs, ↓reduceIte] at hfind ⊢
    exact bsearch_finds_all (getComparer L) (keysOf L) L.words (by simpa using hfind) i hi k hk
  intro i hi
  unfold findWord langSearch
  cases hs : L.isSorted
  · -- unsorted: first match on a duplicate-free list with the exact comparator
    simp only [hs, Bool.false_eq_true, ↓reduceIte, Bool.and_eq_true, Bool.not_eq_true'] at hfind ⊢
    obtain ⟨⟨hp, ha⟩, hd⟩ := hfind
    have hcmp : getComparer L = cmpStr := by simp [getComparer, hp, ha]
    rw [hcmp]
    obtain ⟨hcodes, hpw⟩ := distinctCodes_sound wordCode _ _ hd
    have hbo : ∀ j (hj : j < L.words.toList.length), BytesOK L.words.toList[j] := fun j hj b hb' =>
      let ⟨_, h2⟩ := hb _ (List.getElem_mem hj); ⟨(h2 b hb').1, (h2 b hb').2.1⟩
    have hil : i < L.words.toList.length := by simpa using hi
    have := linearSearch_first (cmpStr L.words[i]) L.words.toList 0 i hil
      (by rw [cmpStr_eq_zero _ _ (by simpa using hbo i hil) (hbo i hil)]; simp)
      (fun j hj hz => by
        have hjl : j < L.words.toList.length := by omega
        rw [cmpStr_eq_zero _ _ (by simpa using hbo i hil) (hbo j hjl)] at hz
        have hrel := List.pairwise_iff_getElem.mp hpw j i hjl hil hj
        obtain ⟨cj, hcj, _⟩ := hcodes _ (List.getElem_mem hjl)
        obtain ⟨ci, hci, _⟩ := hcodes _ (List.getElem_mem hil)
        have hne := hrel cj ci hcj hci
        have heq : L.words.toList[j] = L.words.toList[i] := by simpa using hz.symm
        rw [heq, hci] at hcj
        simp only [Option.some.injEq] at hcj
        exact hne hcj.symm)
    simpa using this
  · simp only [hs, ↓reduceIte] at hfind ⊢
    exact bsearch_finds_all (getComparer L) (keysOf L) L.words (by simpa using hfind) i hi _ (hself _)

end Polyseed

namespace Polyseed

/-- what `prefixCheck` establishes: pairwise different 4-letter prefix codes -/
theorem prefix_distinct (L : Lang) (hp : L.hasPrefix = true) (h : prefixCheck L = true) (i j : Nat)
    (hi : i < L.words.size) (hj : j < L.words.size) (hij : i < j) :
    ∃ ci cj, prefixCode L.words[i] = some ci ∧ prefixCode L.words[j] = some cj ∧ ci ≠ cj := by
  simp only [prefixCheck, hp, Bool.not_true, Bool.false_or] at h
  obtain ⟨hcodes, hpw⟩ := distinctCodes_sound prefixCode _ _ h
  have hil : i < L.words.toList.length := by simpa using hi
  have hjl : j < L.words.toList.length := by simpa using hj
  obtain ⟨ci, hci, _⟩ := hcodes _ (List.getElem_mem hil)
  obtain ⟨cj, hcj, _⟩ := hcodes _ (List.getElem_mem hjl)
  have := List.pairwise_iff_getElem.mp hpw i j hil hjl hij ci cj hci hcj
  exact ⟨ci, cj, by simpa using hci, by simpa using hcj, this⟩

/-- longest word of the table, in bytes (the decomposed form the library handles internally) -/
def maxWordLen (L : Lang) : Nat := L.words.toList.foldl (fun m w => Nat.max m w.length) 0

/-- an upper bound for every phrase in the language's decomposed form: 16 longest words and 15 separators -/
def maxPhrase (L : Lang) : Nat := 16 * maxWordLen L + 15 * L.sep.length

theorem le_foldl_max (ws : List (List Nat)) (m0 : Nat) : m0 ≤ ws.foldl (fun m w => Nat.max m w.length) m0 := by
  induction ws generalizing m0 with
  | nil => exact Nat.le_refl _
  | cons w ws ih => exact Nat.le_trans (Nat.le_max_left _ _) (ih _)

theorem length_le_foldl_max (ws : List (List Nat)) (m0 : Nat) (w : List Nat) (hw : w ∈ ws) :
    w.length ≤ ws.foldl (fun m w => Nat.max m w.length) m0 := by
  induction ws generalizing m0 with
  | nil => simp at hw
  | cons x xs ih =>
    simp only [List.mem_cons] at hw
    rcases hw with rfl | hw
    · exact Nat.le_trans (Nat.le_max_right _ _) (le_foldl_max _ _)
    · exact ih _ hw

theorem word_length_le (L : Lang) (i : Nat) : (L.words.getD i []).length ≤ maxWordLen L := by
  unfold maxWordLen
  by_cases h : i < L.words.size
  · have : L.words.getD i [] = L.words[i] := by simp [Array.getD, h]
    rw [this]
    exact length_le_foldl_max _ _ _ (by simp)
  · have : L.words.getD i [] = [] := by simp [Array.getD, h]
    rw [this]; exact Nat.zero_le _

end Polyseed

namespace Polyseed

/-- every byte of every word and of the separator is ASCII, the separator is one space and the language does not compose -/
def asciiCheck (L : Lang) : Bool :=
  L.words.toList.all (fun w => w.all (fun b => Nat.blt b 128)) && decide (L.sep = [32]) && !L.compose

end Polyseed
