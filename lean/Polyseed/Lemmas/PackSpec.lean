import Polyseed.Lemmas.Pack
import Polyseed.Lemmas.Digits
import Polyseed.Lemmas.Gf
/-!
# Packing round trips, from the closed forms
-/
namespace Polyseed
open Spec

theorem zip_div2 : ∀ (ss es : List Nat), ss.length = es.length → (∀ e ∈ es, e < 2) →
    (List.zipWith (fun s e => 2 * s + e) ss es).map (· / 2) = ss ∧
    (List.zipWith (fun s e => 2 * s + e) ss es).map (· % 2) = es := by
  intro ss
  induction ss with
  | nil => intro es h _; cases es <;> simp_all
  | cons s ss ih =>
    intro es h he
    cases es with
    | nil => simp at h
    | cons e es =>
      have h1 : e < 2 := he e (by simp)
      have := ih es (by simpa using h) (fun x hx => he x (by simp [hx]))
      simp only [List.zipWith_cons_cons, List.map_cons, this.1, this.2]
      constructor <;> congr 1 <;> omega

theorem unpack_coeffs (S E : Nat) (hS : S < 2 ^ 150) (hE : E < 2 ^ 15) : unpack (coeffs S E) = (S, E) := by
  unfold unpack coeffs
  have hz := zip_div2 (split 1024 15 S) (split 2 15 E) (by simp [split_length]) (split_lt 2 (by omega) 15 E)
  rw [hz.1, hz.2, join_split 1024 (by omega), join_split 2 (by omega)]
  have h1 : (1024 : Nat) ^ 15 = 2 ^ 150 := by decide
  rw [h1, Nat.mod_eq_of_lt hS, Nat.mod_eq_of_lt hE]

theorem zip_recombine : ∀ cs : List Nat, List.zipWith (fun s e => 2 * s + e) (cs.map (· / 2)) (cs.map (· % 2)) = cs := by
  intro cs
  induction cs with
  | nil => rfl
  | cons c cs ih => simp only [List.map_cons, List.zipWith_cons_cons, ih]; congr 1; omega

theorem coeffs_unpack (cs : List Nat) (hlen : cs.length = 15) (h : ∀ c ∈ cs, c < 2048) :
    coeffs (unpack cs).1 (unpack cs).2 = cs := by
  unfold unpack coeffs
  have h1 : ∀ d ∈ cs.map (· / 2), d < 1024 := by
    intro d hd; simp only [List.mem_map] at hd; obtain ⟨c, hc, rfl⟩ := hd; have := h c hc; omega
  have h2 : ∀ d ∈ cs.map (· % 2), d < 2 := by
    intro d hd; simp only [List.mem_map] at hd; obtain ⟨c, hc, rfl⟩ := hd; omega
  have s1 := split_join 1024 (by omega) _ h1
  have s2 := split_join 2 (by omega) _ h2
  simp only [List.length_map, hlen] at s1 s2
  simp only [s1, s2]
  exact zip_recombine cs

theorem unpack_bounds (cs : List Nat) (hlen : cs.length = 15) (h : ∀ c ∈ cs, c < 2048) :
    (unpack cs).1 < 2 ^ 150 ∧ (unpack cs).2 < 2 ^ 15 := by
  unfold unpack
  have h1 : ∀ d ∈ cs.map (· / 2), d < 1024 := by
    intro d hd; simp only [List.mem_map] at hd; obtain ⟨c, hc, rfl⟩ := hd; have := h c hc; omega
  have h2 : ∀ d ∈ cs.map (· % 2), d < 2 := by
    intro d hd; simp only [List.mem_map] at hd; obtain ⟨c, hc, rfl⟩ := hd; omega
  have j1 := join_lt 1024 (by omega) _ h1
  have j2 := join_lt 2 (by omega) _ h2
  simp only [List.length_map, hlen] at j1 j2
  exact ⟨by rw [show (2:Nat) ^ 150 = 1024 ^ 15 by decide]; exact j1, j2⟩

theorem coeffs_lt (S E : Nat) : ∀ c ∈ coeffs S E, c < 2048 := by
  intro c hc
  unfold coeffs at hc
  obtain ⟨i, hi, rfl⟩ := List.getElem_of_mem hc
  simp only [List.getElem_zipWith]
  have a := split_lt 1024 (by omega) 15 S _ (List.getElem_mem (l := split 1024 15 S) (by simpa [split_length] using hi))
  have b := split_lt 2 (by omega) 15 E _ (List.getElem_mem (l := split 2 15 E) (by simpa [split_length] using hi))
  omega

theorem coeffs_length (S E : Nat) : (coeffs S E).length = 15 := by
  simp [coeffs, split_length]

theorem secretNat_lt (s : List Nat) (hlen : 18 ≤ s.length) (hb : ∀ b ∈ s, b < 256) : secretNat s < 2 ^ 150 := by
  unfold secretNat
  have := join_lt 256 (by omega) (s.take 18) (fun d hd => hb d (List.mem_of_mem_take hd))
  simp only [List.length_take, Nat.min_eq_left hlen] at this
  have e : (256 : Nat) ^ 18 = 2 ^ 144 := by decide
  rw [e] at this
  have : join 256 (s.take 18) * 64 + s.getD 18 0 % 64 < 2 ^ 144 * 64 := by omega
  calc _ < 2 ^ 144 * 64 := this
    _ = 2 ^ 150 := by decide

theorem secretBytes_secretNat (s : List Nat) (hlen : 19 ≤ s.length) (hb : ∀ b ∈ s, b < 256) (h18 : s.getD 18 0 < 64) :
    secretBytes (secretNat s) = s.take 19 := by
  unfold secretBytes secretNat
  have e1 : (join 256 (s.take 18) * 64 + s.getD 18 0 % 64) / 64 = join 256 (s.take 18) := by omega
  have e2 : (join 256 (s.take 18) * 64 + s.getD 18 0 % 64) % 64 = s.getD 18 0 := by omega
  rw [e1, e2]
  have := split_join 256 (by omega) (s.take 18) (fun d hd => hb d (List.mem_of_mem_take hd))
  simp only [List.length_take, Nat.min_eq_left (show 18 ≤ s.length by omega)] at this
  rw [this]
  have : s.getD 18 0 = s[18] := by simp [List.getD, show 18 < s.length by omega]
  rw [this, ← List.take_succ_eq_append_getElem]

theorem secretNat_secretBytes (S : Nat) (hS : S < 2 ^ 150) (rest : List Nat) : secretNat (secretBytes S ++ rest) = S := by
  unfold secretNat secretBytes
  have hl : (split 256 18 (S / 64)).length = 18 := split_length _ _ _
  have t : ((split 256 18 (S / 64) ++ [S % 64]) ++ rest).take 18 = split 256 18 (S / 64) := by
    rw [List.append_assoc, List.take_left' hl]
  have g : ((split 256 18 (S / 64) ++ [S % 64]) ++ rest).getD 18 0 = S % 64 := by
    rw [List.append_assoc]
    simp [List.getD, List.getElem?_append_right, hl]
  rw [t, g, join_split 256 (by omega)]
  have e : (256 : Nat) ^ 18 = 2 ^ 144 := by decide
  rw [e]
  have : S / 64 < 2 ^ 144 := by
    have : (2 : Nat) ^ 150 = 2 ^ 144 * 64 := by decide
    omega
  rw [Nat.mod_eq_of_lt this]
  omega

theorem secretBytes_lt (S : Nat) : ∀ b ∈ secretBytes S, b < 256 := by
  intro b hb
  simp only [secretBytes, List.mem_append, List.mem_singleton] at hb
  rcases hb with hb | hb
  · exact split_lt 256 (by omega) 18 _ b hb
  · omega

theorem secretBytes_length (S : Nat) : (secretBytes S).length = 19 := by
  simp [secretBytes, split_length]

/-! ## general forms -/

/-- **C03 core**: for every well-formed seed the packing loops produce exactly the published layout. -/
theorem dataToPoly_eq_spec (d : Data) (h : d.WF) :
    dataToPoly d = coeffs (secretNat d.secret) (extraNat d.features d.birthday) := by
  obtain ⟨b0, b1, b2, b3, b4, b5, b6, b7, b8, b9, b10, b11, b12, b13, b14, b15, b16, b17, b18, rest, hs⟩ :=
    exists19 d.secret (by rw [h.secret_len]; decide)
  have hb := h.secret_bytes
  rw [hs] at hb
  cases d with
  | mk bd ft sec k =>
    simp only at hs hb ⊢
    subst hs
    exact dataToPoly_explicit _ _ _ _ _ _ _ _ _ _ _ _ _ _ _ _ _ _ _ _ _ _ _
      (hb _ (by simp)) (hb _ (by simp)) (hb _ (by simp)) (hb _ (by simp)) (hb _ (by simp)) (hb _ (by simp)) (hb _ (by simp))
      (hb _ (by simp)) (hb _ (by simp)) (hb _ (by simp)) (hb _ (by simp)) (hb _ (by simp)) (hb _ (by simp)) (hb _ (by simp))
      (hb _ (by simp)) (hb _ (by simp)) (hb _ (by simp)) (hb _ (by simp)) (hb _ (by simp)) h.birthday_lt

theorem dataToPoly_length (d : Data) (h : d.WF) : (dataToPoly d).length = 15 := by
  rw [dataToPoly_eq_spec d h, coeffs_length]

theorem dataToPoly_lt (d : Data) (h : d.WF) : Coeffs (dataToPoly d) := by
  rw [dataToPoly_eq_spec d h]; exact coeffs_lt _ _

theorem checkValue_lt (d : Data) (h : d.WF) : checkValue d < 2048 := by
  unfold checkValue
  apply polyEval_lt
  intro c hc
  simp only [List.mem_cons] at hc
  rcases hc with rfl | hc
  · omega
  · exact dataToPoly_lt d h c hc

/-- `polyseed_poly_to_data` reads the published layout back (16 field elements). -/
theorem polyToData_eq_spec (k : Nat) (cs : List Nat) (hlen : cs.length = 15) (hcs : Coeffs cs) :
    polyToData (k :: cs) =
      Data.mk ((unpack cs).2 % 1024) ((unpack cs).2 / 1024) (secretBytes (unpack cs).1 ++ List.replicate 13 0) k := by
  obtain ⟨c0, c1, c2, c3, c4, c5, c6, c7, c8, c9, c10, c11, c12, c13, c14, rfl⟩ := exists15 cs hlen
  exact polyToData_explicit k _ _ _ _ _ _ _ _ _ _ _ _ _ _ _
    (hcs _ (by simp)) (hcs _ (by simp)) (hcs _ (by simp)) (hcs _ (by simp)) (hcs _ (by simp)) (hcs _ (by simp)) (hcs _ (by simp))
    (hcs _ (by simp)) (hcs _ (by simp)) (hcs _ (by simp)) (hcs _ (by simp)) (hcs _ (by simp)) (hcs _ (by simp)) (hcs _ (by simp))
    (hcs _ (by simp))

/-- unpacking field elements gives a well-formed seed -/
theorem polyToData_wf (k : Nat) (cs : List Nat) (hk : k < 2048) (hlen : cs.length = 15) (hcs : Coeffs cs) :
    (polyToData (k :: cs)).WF := by
  rw [polyToData_eq_spec k cs hlen hcs]
  have hb := unpack_bounds cs hlen hcs
  refine { birthday_lt := Nat.mod_lt _ (by omega), features_lt := ?_, checksum_lt := hk, secret_len := ?_, secret_bytes := ?_,
           secret_top := ?_, secret_pad := ?_ }
  · show (unpack cs).2 / 1024 < 32
    have := hb.2; omega
  · simp [secretBytes_length, SECRET_BUFFER_SIZE]
  · intro b hb'
    simp only [List.mem_append, List.mem_replicate] at hb'
    rcases hb' with hb' | hb'
    · exact secretBytes_lt _ b hb'
    · omega
  · show (secretBytes (unpack cs).1 ++ _).getD 18 0 < 64
    have e : (secretBytes (unpack cs).1 ++ List.replicate 13 0).getD 18 0 = (unpack cs).1 % 64 := by
      simp [secretBytes, List.getD, List.getElem?_append_right, split_length]
    rw [e]
    omega
  · show (secretBytes (unpack cs).1 ++ _).drop SECRET_SIZE = _
    rw [show SECRET_SIZE = 19 from rfl, List.drop_left' (secretBytes_length _)]; rfl

/-- **R1**: unpacking what was packed gives back the seed. -/
theorem polyToData_dataToPoly (d : Data) (h : d.WF) : polyToData (d.checksum :: dataToPoly d) = d := by
  rw [polyToData_eq_spec _ _ (dataToPoly_length d h) (dataToPoly_lt d h), dataToPoly_eq_spec d h]
  have hS := secretNat_lt d.secret (by rw [h.secret_len]; decide) h.secret_bytes
  have hE : extraNat d.features d.birthday < 2 ^ 15 := by
    have := h.birthday_lt; have := h.features_lt; unfold extraNat; omega
  rw [unpack_coeffs _ _ hS hE]
  simp only
  rw [secretBytes_secretNat d.secret (by rw [h.secret_len]; decide) h.secret_bytes h.secret_top]
  have hp := h.secret_pad
  simp only [SECRET_SIZE, SECRET_BUFFER_SIZE] at hp
  have hb := h.birthday_lt
  cases d with
  | mk bd ft sec k =>
    simp only [extraNat] at *
    congr
    · omega
    · omega
    · rw [← hp, List.take_append_drop]

/-- **R2**: packing what was unpacked gives back the coefficients. -/
theorem dataToPoly_polyToData (k : Nat) (cs : List Nat) (hk : k < 2048) (hlen : cs.length = 15) (hcs : Coeffs cs) :
    dataToPoly (polyToData (k :: cs)) = cs := by
  rw [dataToPoly_eq_spec _ (polyToData_wf k cs hk hlen hcs), polyToData_eq_spec k cs hlen hcs]
  simp only
  have hb := unpack_bounds cs hlen hcs
  rw [secretNat_secretBytes _ hb.1]
  have : extraNat ((unpack cs).2 / 1024) ((unpack cs).2 % 1024) = (unpack cs).2 := by unfold extraNat; omega
  rw [this]
  exact coeffs_unpack cs hlen hcs

end Polyseed
