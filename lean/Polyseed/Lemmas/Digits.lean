import Polyseed.Model.Spec
/-! Base-`b` digit lists (most significant first): `join ∘ split` and `split ∘ join`. Core Lean only. -/
namespace Polyseed
open Spec

theorem split_length (b k n : Nat) : (split b k n).length = k := by
  induction k with
  | zero => rfl
  | succ k ih => simp [split, ih]

theorem join_split (b : Nat) (hb : 0 < b) : ∀ k n, join b (split b k n) = n % b ^ k := by
  intro k
  induction k with
  | zero => intro n; simp [split, join, Nat.mod_one]
  | succ k ih =>
    intro n
    simp only [split, join, split_length, ih]
    rw [Nat.pow_succ, Nat.mod_mul, Nat.mul_comm, Nat.add_comm]

theorem split_lt (b : Nat) (hb : 0 < b) : ∀ k n, ∀ d ∈ split b k n, d < b := by
  intro k
  induction k with
  | zero => intro n d h; simp [split] at h
  | succ k ih =>
    intro n d h
    simp only [split, List.mem_cons] at h
    rcases h with h | h
    · subst h; exact Nat.mod_lt _ hb
    · exact ih n d h

theorem join_lt (b : Nat) (hb : 0 < b) : ∀ ds : List Nat, (∀ d ∈ ds, d < b) → join b ds < b ^ ds.length := by
  intro ds
  induction ds with
  | nil => intro _; simp [join]
  | cons d ds ih =>
    intro h
    have hd : d < b := h d (by simp)
    have := ih (fun x hx => h x (by simp [hx]))
    simp only [join, List.length_cons, Nat.pow_succ]
    calc d * b ^ ds.length + join b ds < d * b ^ ds.length + b ^ ds.length := by omega
      _ = (d + 1) * b ^ ds.length := by rw [Nat.add_mul, Nat.one_mul]
      _ ≤ b * b ^ ds.length := Nat.mul_le_mul_right _ hd
      _ = b ^ ds.length * b := Nat.mul_comm _ _

theorem split_join (b : Nat) (hb : 0 < b) : ∀ ds : List Nat, (∀ d ∈ ds, d < b) → split b ds.length (join b ds) = ds := by
  intro ds
  induction ds with
  | nil => intro _; rfl
  | cons d ds ih =>
    intro h
    have hd : d < b := h d (by simp)
    have hds : ∀ x ∈ ds, x < b := fun x hx => h x (by simp [hx])
    have hlt := join_lt b hb ds hds
    have hpos : 0 < b ^ ds.length := Nat.pow_pos hb
    simp only [List.length_cons, split, join]
    congr 1
    · rw [Nat.mul_comm, Nat.mul_add_div hpos, Nat.div_eq_of_lt hlt, Nat.add_zero, Nat.mod_eq_of_lt hd]
    · -- lower digits do not see the leading digit
      have : ∀ k n m, split b k (m * b ^ k + n) = split b k n := by
        intro k
        induction k with
        | zero => intros; rfl
        | succ k ihk =>
          intro n m
          simp only [split]
          congr 1
          · rw [Nat.pow_succ, show m * (b ^ k * b) + n = b ^ k * (m * b) + n by rw [Nat.mul_comm (b ^ k), ← Nat.mul_assoc, Nat.mul_comm],
              Nat.mul_add_div (Nat.pow_pos hb), Nat.add_comm, Nat.add_mul_mod_self_right]
          · rw [Nat.pow_succ, show m * (b ^ k * b) = m * b * b ^ k by rw [Nat.mul_assoc, Nat.mul_comm b]]; exact ihk n (m * b)
      rw [this, ih hds]

end Polyseed
