import Polyseed.Model.Storage
import Polyseed.Model.Canon
import Polyseed.Lemmas.Bits
/-! Helper lemmas about `storage.c`'s model: store/load are mutually inverse on well-formed data. -/
namespace Polyseed

theorem load16_store16 (u : Nat) (h : u < 65536) : load16 (u % 256) ((u >>> 8) % 256) = u := by
  unfold load16
  rw [Nat.shiftRight_eq_div_pow, Nat.shiftLeft_eq, Nat.mul_comm, Nat.or_comm,
    ← Nat.two_pow_add_eq_or_of_lt (by omega)]
  omega

theorem shl10_or (f b : Nat) (hb : b < 1024) : f <<< DATE_BITS ||| b = f * 1024 + b := by
  rw [show DATE_BITS = 10 from rfl, Nat.shiftLeft_eq, Nat.mul_comm, ← Nat.two_pow_add_eq_or_of_lt hb]

theorem footer_or (c : Nat) (hc : c < 2048) : STORAGE_FOOTER ||| c = 0x7000 + c := by
  rw [show STORAGE_FOOTER = 2 ^ 11 * 14 from rfl, ← Nat.two_pow_add_eq_or_of_lt hc]


theorem getD_append_left' {α} (l1 l2 : List α) (i : Nat) (d : α) (h : i < l1.length) :
    (l1 ++ l2).getD i d = l1.getD i d := by
  simp [List.getD, List.getElem?_append_left h]

theorem getD_append_right' {α} (l1 l2 : List α) (n k : Nat) (d : α) (h : l1.length = n) :
    (l1 ++ l2).getD (n + k) d = l2.getD k d := by
  subst h
  simp [List.getD, List.getElem?_append_right]

/-- the five fields of a 32-byte image -/
theorem dataStore_eq (d : Data) :
    dataStore d = STORAGE_HEADER ++ (store16 (((d.features <<< DATE_BITS) ||| d.birthday) % 65536)
      ++ (d.secret.take SECRET_SIZE ++ ([EXTRA_BYTE] ++ store16 ((STORAGE_FOOTER ||| d.checksum) % 65536)))) := by
  simp [dataStore, List.append_assoc]

theorem dataLoad_dataStore (d : Data) (h : d.WF) : dataLoad (dataStore d) = (.ok, some d) := by
  obtain ⟨hb, hf, hc, hlen, hbytes, htop, hpad⟩ := h
  have htk : (d.secret.take SECRET_SIZE).length = 19 := by
    simp [SECRET_SIZE, hlen, SECRET_BUFFER_SIZE]
  rw [dataStore_eq]
  generalize hsec : d.secret.take SECRET_SIZE = sec at htk
  have hv1 := shl10_or d.features d.birthday hb
  have hv2 := footer_or d.checksum hc
  have h1 : (d.features * 1024 + d.birthday) % 65536 = d.features * 1024 + d.birthday := Nat.mod_eq_of_lt (by omega)
  have h2 : (0x7000 + d.checksum) % 65536 = 0x7000 + d.checksum := Nat.mod_eq_of_lt (by omega)
  rw [hv1, hv2, h1, h2]
  have e8 : ∀ X : List Nat, (STORAGE_HEADER ++ X).take 8 = STORAGE_HEADER := fun X => by simp [STORAGE_HEADER]
  have g8 : ∀ (a b : Nat) (X : List Nat), (STORAGE_HEADER ++ ([a, b] ++ X)).getD 8 0 = a := fun a b X => by simp [STORAGE_HEADER]
  have g9 : ∀ (a b : Nat) (X : List Nat), (STORAGE_HEADER ++ ([a, b] ++ X)).getD 9 0 = b := fun a b X => by simp [STORAGE_HEADER]
  have d10 : ∀ (a b : Nat) (X : List Nat), (STORAGE_HEADER ++ ([a, b] ++ X)).drop 10 = X := fun a b X => by simp [STORAGE_HEADER]
  have gk : ∀ (a b : Nat) (X : List Nat) (k : Nat), (STORAGE_HEADER ++ ([a, b] ++ X)).getD (10 + k) 0 = X.getD k 0 := fun a b X k => by
    rw [← List.append_assoc]; exact getD_append_right' _ _ 10 k 0 (by simp [STORAGE_HEADER])
  unfold dataLoad store16
  rw [e8, g8, g9, d10, gk _ _ _ 18, gk _ _ _ 19, gk _ _ _ 20, gk _ _ _ 21]
  have t19 : ∀ X : List Nat, (sec ++ X).take SECRET_SIZE = sec := fun X => by
    rw [show SECRET_SIZE = 19 from rfl, ← htk]; simp
  have s18 : ∀ X : List Nat, (sec ++ X).getD 18 0 = d.secret.getD 18 0 := fun X => by
    rw [getD_append_left' _ _ _ _ (by omega), ← hsec]
    simp [List.getD, SECRET_SIZE]
  have sk : ∀ (X : List Nat) (k : Nat), (sec ++ X).getD (19 + k) 0 = X.getD k 0 := fun X k =>
    getD_append_right' _ _ 19 k 0 htk
  rw [t19, s18, sk _ 0, sk _ 1, sk _ 2, load16_store16 _ (by omega)]
  simp only [List.cons_append, List.nil_append, List.getD_cons_zero, List.getD_cons_succ]
  rw [load16_store16 _ (by omega)]
  have c1 : ¬ (STORAGE_HEADER ≠ STORAGE_HEADER) := by simp
  have c2 : ¬ ((d.features * 1024 + d.birthday) >>> DATE_BITS > FEATURE_MASK) := by
    rw [show DATE_BITS = 10 from rfl, Nat.shiftRight_eq_div_pow, show FEATURE_MASK = 31 from rfl]; omega
  have c3 : ¬ (d.secret.getD 18 0 &&& 255 - CLEAR_MASK ≠ 0) := by
    rw [show 255 - CLEAR_MASK = 192 from rfl, and_192_of_lt _ htop]; simp
  have c4 : ¬ (EXTRA_BYTE ≠ EXTRA_BYTE) := by simp
  have c5 : ¬ ((28672 + d.checksum) &&& 65535 - GF_MASK ≠ STORAGE_FOOTER) := by
    rw [show 65535 - GF_MASK = 63488 from rfl, and_63488, show (28672 + d.checksum) / 2048 = 14 by omega]; decide
  simp only [c1, c2, c3, c4, c5, ↓reduceIte]
  congr 2
  cases d with
  | mk b f s c =>
    simp only at *
    congr
    · rw [show DATE_MASK = 1023 from rfl, and_1023]; omega
    · rw [show DATE_BITS = 10 from rfl, Nat.shiftRight_eq_div_pow]; omega
    · rw [← hsec, ← hpad, List.take_append_drop]
    · rw [show GF_MASK = 2047 from rfl, and_2047]; omega

theorem load16_eq (x y : Nat) (hx : x < 256) : load16 x y = x + 256 * y := by
  unfold load16
  rw [Nat.shiftLeft_eq, Nat.mul_comm, Nat.or_comm, ← Nat.two_pow_add_eq_or_of_lt (i := 8) hx]; omega

theorem store16_load16 (x y : Nat) (hx : x < 256) (hy : y < 256) : store16 (load16 x y) = [x, y] := by
  rw [load16_eq x y hx]; unfold store16
  rw [Nat.shiftRight_eq_div_pow]
  congr 1
  · omega
  · congr 1; omega

theorem buf_decomp (buf : List Nat) (h : buf.length = 32) :
    buf = buf.take 8 ++ ([buf.getD 8 0, buf.getD 9 0] ++ ((buf.drop 10).take 19 ++ ([buf.getD 29 0] ++ [buf.getD 30 0, buf.getD 31 0]))) := by
  have d1 : ∀ i (hi : i < buf.length), buf.drop i = buf.getD i 0 :: buf.drop (i + 1) := fun i hi => by
    rw [List.drop_eq_getElem_cons hi]; simp [List.getD, hi]
  have e1 : buf = buf.take 8 ++ buf.drop 8 := (List.take_append_drop 8 buf).symm
  have e3 : buf.drop 10 = (buf.drop 10).take 19 ++ buf.drop 29 := by
    conv => lhs; rw [← List.take_append_drop 19 (buf.drop 10)]
    simp
  have e5 : buf.drop 32 = [] := List.drop_of_length_le (by omega)
  conv => lhs; rw [e1, d1 8 (by omega), d1 9 (by omega), e3, d1 29 (by omega), d1 30 (by omega), d1 31 (by omega), e5]
  simp


def BytesLt (l : List Nat) : Prop := ∀ b ∈ l, b < 256

theorem getD_lt (l : List Nat) (h : BytesLt l) (i : Nat) : l.getD i 0 < 256 := by
  unfold List.getD
  cases hi : l[i]? with
  | none => simp
  | some v => simp; exact h v (List.mem_of_getElem? hi)

theorem dataLoad_ok (buf : List Nat) (d : Data) (hlen : buf.length = 32) (hb : BytesLt buf)
    (h : dataLoad buf = (.ok, some d)) : d.WF ∧ dataStore d = buf := by
  have hx := getD_lt buf hb
  unfold dataLoad at h
  split at h; · simp at h
  rename_i c1
  simp only at h
  split at h; · simp at h
  rename_i c2
  split at h; · simp at h
  rename_i c3
  split at h; · simp at h
  rename_i c4
  split at h; · simp at h
  rename_i c5
  simp only [Prod.mk.injEq, Option.some.injEq, true_and] at h
  have hv1 := load16_eq (buf.getD 8 0) (buf.getD 9 0) (hx 8)
  have hv2 := load16_eq (buf.getD 30 0) (buf.getD 31 0) (hx 30)
  have h9 := hx 9
  have h31 := hx 31
  have h30 := hx 30
  have h8 := hx 8
  simp only [Decidable.not_not] at c1 c3 c4 c5
  rw [show DATE_BITS = 10 from rfl, Nat.shiftRight_eq_div_pow, show FEATURE_MASK = 31 from rfl] at c2
  rw [show 255 - CLEAR_MASK = 192 from rfl, and_192] at c3
  rw [show 65535 - GF_MASK = 63488 from rfl, and_63488, show STORAGE_FOOTER = 28672 from rfl] at c5
  have c3' : buf.getD 28 0 < 64 := by
    have := hx 28
    have h3 : (buf.getD 28 0 / 64) &&& 3 = buf.getD 28 0 / 64 := by
      rw [Nat.and_two_pow_sub_one_eq_mod _ 2]; omega
    rw [h3] at c3; omega
  have c5' : (load16 (buf.getD 30 0) (buf.getD 31 0)) / 2048 = 14 := by
    have h5 : (load16 (buf.getD 30 0) (buf.getD 31 0) / 2048) &&& 31 = load16 (buf.getD 30 0) (buf.getD 31 0) / 2048 := by
      rw [and_31]; omega
    rw [h5] at c5; omega
  have hsl : ((buf.drop 10).take 19).length = 19 := by simp [hlen]
  subst h
  refine ⟨⟨?_, ?_, ?_, ?_, ?_, ?_, ?_⟩, ?_⟩
  · simp only [show DATE_MASK = 1023 from rfl, and_1023]; omega
  · simp only [show DATE_BITS = 10 from rfl, Nat.shiftRight_eq_div_pow]; omega
  · simp only [show GF_MASK = 2047 from rfl, and_2047]; omega
  · simp [SECRET_SIZE, SECRET_BUFFER_SIZE, hlen]
  · intro b hb'
    simp only [List.mem_append, List.mem_replicate] at hb'
    rcases hb' with hb' | hb'
    · exact hb b (List.mem_of_mem_drop (List.mem_of_mem_take hb'))
    · omega
  · show ((buf.drop 10).take SECRET_SIZE ++ _).getD 18 0 < 64
    rw [getD_append_left' _ _ _ _ (by rw [show SECRET_SIZE = 19 from rfl, hsl]; omega)]
    simpa [List.getD, SECRET_SIZE, show (18:Nat) < 19 from by omega] using c3'
  · show ((buf.drop 10).take SECRET_SIZE ++ _).drop SECRET_SIZE = _
    rw [show SECRET_SIZE = 19 from rfl, List.drop_left' hsl]
  · conv => rhs; rw [buf_decomp buf hlen]
    rw [dataStore_eq]
    simp only
    have t19 : ((buf.drop 10).take SECRET_SIZE ++ List.replicate (SECRET_BUFFER_SIZE - SECRET_SIZE) 0).take SECRET_SIZE = (buf.drop 10).take 19 := by
      rw [show SECRET_SIZE = 19 from rfl]; rw [List.take_left' hsl]
    rw [t19, c1, c4]
    have e1 : ((load16 (buf.getD 8 0) (buf.getD 9 0) / 2 ^ 10) <<< 10 ||| (load16 (buf.getD 8 0) (buf.getD 9 0) &&& 1023)) % 65536
        = load16 (buf.getD 8 0) (buf.getD 9 0) := by
      rw [and_1023, Nat.shiftLeft_eq, Nat.mul_comm, ← Nat.two_pow_add_eq_or_of_lt (by omega)]; omega
    have e2 : (STORAGE_FOOTER ||| (load16 (buf.getD 30 0) (buf.getD 31 0) &&& GF_MASK)) % 65536 = load16 (buf.getD 30 0) (buf.getD 31 0) := by
      rw [show GF_MASK = 2047 from rfl, and_2047, footer_or _ (by omega)]; omega
    rw [show DATE_BITS = 10 from rfl, show DATE_MASK = 1023 from rfl, Nat.shiftRight_eq_div_pow, e1, e2,
      store16_load16 _ _ (hx 8) (hx 9), store16_load16 _ _ (hx 30) (hx 31)]

end Polyseed
