/-! Small bit-arithmetic facts used across the development (core Lean only). -/
namespace Polyseed

theorem and_1023 (x : Nat) : x &&& 1023 = x % 1024 := Nat.and_two_pow_sub_one_eq_mod x 10
theorem and_2047 (x : Nat) : x &&& 2047 = x % 2048 := Nat.and_two_pow_sub_one_eq_mod x 11
theorem and_63 (x : Nat) : x &&& 63 = x % 64 := Nat.and_two_pow_sub_one_eq_mod x 6
theorem and_7 (x : Nat) : x &&& 7 = x % 8 := Nat.and_two_pow_sub_one_eq_mod x 3
theorem and_31 (x : Nat) : x &&& 31 = x % 32 := Nat.and_two_pow_sub_one_eq_mod x 5
theorem and_1 (x : Nat) : x &&& 1 = x % 2 := Nat.and_two_pow_sub_one_eq_mod x 1
theorem and_255 (x : Nat) : x &&& 255 = x % 256 := Nat.and_two_pow_sub_one_eq_mod x 8


/-- masking with a shifted mask = masking the high part. -/
theorem and_mul_two_pow (x m k : Nat) : x &&& (m * 2 ^ k) = ((x / 2 ^ k) &&& m) * 2 ^ k := by
  apply Nat.eq_of_testBit_eq; intro i
  simp only [Nat.testBit_and, Nat.testBit_mul_two_pow, Nat.testBit_div_two_pow]
  by_cases h : k ≤ i
  · simp [h, Nat.sub_add_cancel h]
  · simp [h]

theorem and_192 (x : Nat) : x &&& 192 = (x / 64 &&& 3) * 64 := and_mul_two_pow x 3 6
theorem and_192_of_lt (x : Nat) (h : x < 64) : x &&& 192 = 0 := by
  rw [and_192, Nat.div_eq_of_lt h]; simp
theorem and_63488 (x : Nat) : x &&& 63488 = (x / 2048 &&& 31) * 2048 := and_mul_two_pow x 31 11

end Polyseed
