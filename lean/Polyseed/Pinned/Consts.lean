/-! GENERATED: constants as the C compiler evaluates them in the current tree. -/
namespace Polyseed.Pinned
def LANG_SIZE : Nat := 2048
def NUM_LANGS : Nat := 10
def NUM_WORDS : Nat := 16
def SECRET_BUFFER_SIZE : Nat := 32
def SIZEOF_DATA : Nat := 48
def SIZEOF_PHRASE : Nat := 128
def SIZEOF_POLY : Nat := 128
def SIZEOF_STR : Nat := 360
def STORAGE_SIZE : Nat := 32
def STR_SIZE : Nat := 360
def ST_CHECKSUM : Nat := 3
def ST_FORMAT : Nat := 5
def ST_LANG : Nat := 2
def ST_MEMORY : Nat := 6
def ST_MULT_LANG : Nat := 7
def ST_NUM_WORDS : Nat := 1
def ST_OK : Nat := 0
def ST_UNSUPPORTED : Nat := 4
end Polyseed.Pinned
