import Polyseed.Pinned.L0
import Polyseed.Pinned.L1
import Polyseed.Pinned.L2
import Polyseed.Pinned.L3
import Polyseed.Pinned.L4
import Polyseed.Pinned.L5
import Polyseed.Pinned.L6
import Polyseed.Pinned.L7
import Polyseed.Pinned.L8
import Polyseed.Pinned.L9
/-! GENERATED. Registry order = polyseed_get_lang(i). -/
namespace Polyseed.Pinned
def registry : List Lang := [L0.lang, L1.lang, L2.lang, L3.lang, L4.lang, L5.lang, L6.lang, L7.lang, L8.lang, L9.lang]
end Polyseed.Pinned
