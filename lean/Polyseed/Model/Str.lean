import Polyseed.Model.Lang
/-!
# String helpers of `polyseed.c` / `dependency.h`: `utf8_nfkd_lazy`, `str_split`, `write_str`
-/
namespace Polyseed

/-- `utf8_nfkd_lazy`: the normalised string and whether the injected `u8_nfkd` was called.
`nfkd` is the callback's result on the whole input (NUL-terminated, `< strSize` bytes by its contract). -/
def lazyNfkd (strSize : Nat) (nfkd : List Nat → List Nat) (s : List Nat) : List Nat × Bool :=
  let pre := s.take (strSize - 1)
  if pre.any (isNeg) then (nfkd s, true) else (pre, false)

/-- the inner loop `while (*pos != '\0' && *pos != ' ') ++pos;`: the word and the rest (starting at the space, if any) -/
def takeWord : List Nat → List Nat × List Nat
  | [] => ([], [])
  | c :: cs => if c = 32 then ([], c :: cs) else ((takeWord cs).1.cons c, (takeWord cs).2)

/-- `str_split` with at most `n` more words to take: the tokens stored into `words[]`,
and whether the `++w; /* too many words */` branch fired. -/
def splitN : Nat → List Nat → List (List Nat) × Bool
  | 0, s => ([], !s.isEmpty)
  | _ + 1, [] => ([], false)
  | n + 1, c :: cs =>
    let sp := takeWord (c :: cs)
    let r := splitN n (sp.2.drop 1)
    (sp.1 :: r.1, r.2)

/-- `str_split`: tokens and the returned count `w`. -/
def strSplit (numWords : Nat) (s : List Nat) : List (List Nat) × Nat :=
  let r := splitN numWords s
  (r.1, r.1.length + (if r.2 then 1 else 0))

/-- the `write_str` loop of `polyseed_encode`: words joined by the separator. -/
def joinWords (sep : List Nat) : List (List Nat) → List Nat
  | [] => []
  | [w] => w
  | w :: ws => w ++ sep ++ joinWords sep ws

end Polyseed
