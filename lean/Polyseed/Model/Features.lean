/-!
# `features.h`, `features.c`

`unsigned` arguments: the model reduces mod `2^32` where C does (the argument
of `polyseed_enable_features`, `polyseed_create`, `polyseed_get_feature`).
-/
namespace Polyseed

def FEATURE_BITS : Nat := 5
def FEATURE_MASK : Nat := 31
def USER_FEATURES : Nat := 3
def USER_FEATURES_MASK : Nat := 7
def ENCRYPTED_MASK : Nat := 16

/-- initial value of the static `reserved_features`. -/
def reservedInit : Nat := FEATURE_MASK ^^^ ENCRYPTED_MASK

def makeFeatures (user : Nat) : Nat := user &&& USER_FEATURES_MASK
def getFeatures (features mask : Nat) : Nat := features &&& (mask &&& USER_FEATURES_MASK)
def isEncrypted (features : Nat) : Bool := (features &&& ENCRYPTED_MASK) != 0

/-- `polyseed_features_supported` with the static as a parameter. -/
def featuresSupported (reserved features : Nat) : Bool := (features &&& reserved) == 0

/-- the loop of `polyseed_enable_features`: (reserved, num_enabled) after bits `i..2`. -/
def enableLoop (mask : Nat) : Nat → Nat → Nat → Nat → Nat × Nat
  | 0, _, r, n => (r, n)
  | fuel + 1, i, r, n =>
    let fmask := 1 <<< i
    if mask &&& fmask ≠ 0 then enableLoop mask fuel (i + 1) (r ^^^ fmask) (n + 1)
    else enableLoop mask fuel (i + 1) r n

/-- `polyseed_enable_features`: new `reserved_features` and the return value. -/
def enableFeatures (mask : Nat) : Nat × Nat := enableLoop mask USER_FEATURES 0 reservedInit 0

end Polyseed
