import Polyseed.Model.Types
/-!
# The published format, written from README.md only (no reference to the C code)

word 1: check value; words 2-6: 10 secret bits + 1 feature bit; words 7-16: 10 secret bits + 1 birthday bit
(most significant first).  The 150 secret bits are bytes 0..17 and the low six bits of byte 18.
-/
namespace Polyseed.Spec

/-- `k` digits of `n` in base `b`, most significant first -/
def split (b : Nat) : Nat → Nat → List Nat
  | 0, _ => []
  | k + 1, n => (n / b ^ k) % b :: split b k n

def join (b : Nat) : List Nat → Nat
  | [] => 0
  | d :: ds => d * b ^ ds.length + join b ds


/-- the 150-bit secret as a number, most significant bit first: bytes 0..17, then the low 6 bits of byte 18 -/
def secretNat (s : List Nat) : Nat := join 256 (s.take 18) * 64 + s.getD 18 0 % 64

/-- the 19 secret bytes of a 150-bit number -/
def secretBytes (S : Nat) : List Nat := split 256 18 (S / 64) ++ [S % 64]

/-- the 15 extra bits: 5 feature bits followed by 10 birthday bits -/
def extraNat (features birthday : Nat) : Nat := features * 1024 + birthday

/-- the 15 data words: word `i` carries 10 secret bits (most significant first) followed by one extra bit -/
def coeffs (S E : Nat) : List Nat := List.zipWith (fun s e => 2 * s + e) (split 1024 15 S) (split 2 15 E)

/-- the inverse reading of 15 data words -/
def unpack (cs : List Nat) : Nat × Nat := (join 1024 (cs.map (· / 2)), join 2 (cs.map (· % 2)))

/-- multiplication by `x` in GF(2)[x]/(x^11 + x^2 + 1), on 11-bit vectors -/
def mulX (x : BitVec 11) : BitVec 11 := (x <<< 1) ^^^ (if x.msb then 5#11 else 0#11)

/-- evaluation of a polynomial over GF(2048) at the point `x` (Horner) -/
def evalX : List (BitVec 11) → BitVec 11
  | [] => 0
  | c :: cs => mulX (evalX cs) ^^^ c

/-- the check word: the value that makes the 16-word polynomial evaluate to zero at `x` -/
def checkWord (cs : List Nat) : Nat := (evalX (0 :: cs.map (BitVec.ofNat 11))).toNat

/-- the 16 word indices of a seed for a coin: check word, then the data words with the coin XORed into the first of them -/
def indices (S B F coin : Nat) : List Nat :=
  match coeffs S (extraNat F B) with
  | c1 :: rest => checkWord (c1 :: rest) :: (c1 ^^^ coin) :: rest
  | [] => []

/-- the phrase in the decomposed form of the word lists: words joined by the language's separator -/
def phraseNfkd (L : Lang) (idx : List Nat) : List Nat :=
  List.intercalate L.sep (idx.map (fun i => L.words.getD i []))

end Polyseed.Spec
