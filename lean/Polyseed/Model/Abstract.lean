import Polyseed.Model.Step
import Polyseed.Model.Spec
/-!
# The abstract seed model (C13): a seed is just (secret, birthday, features)

The library state is the injected function table, the enabled user-feature mask and a map from handles to abstract
seeds.  Every output is written with the published format (`Spec.*`, README.md) and plain arithmetic: no byte buffers,
no padding, no stored check value, no packing loops, no bit masks.  Tokenising and word lookup are those of the word-list
model (`decompose`, `strSplit`, `phraseDecode`, `phraseDecodeExplicit`: the subject of C07-C09), everything about the
seed DATA is abstract.  `Props/C13Refine.lean` proves that the concrete model produces exactly these outputs on every
history.
-/
namespace Polyseed.Abs
open Polyseed.Spec

/-- an abstract seed: the 150-bit secret as a number, the birthday month, the five feature bits -/
structure Seed where
  S : Nat
  B : Nat
  F : Nat
deriving DecidableEq, Repr

structure State where
  deps : Deps
  /-- the enabled user features (three bits); none by default -/
  mask : Nat
  seeds : List (Nat × Seed)
deriving Repr

def State.init : State := ⟨⟨0, 0, 0, 0, 0, 0, 0, 0⟩, 0, []⟩

def State.get (s : State) (h : Nat) : Option Seed := s.seeds.lookup h
def State.put (s : State) (h : Nat) (x : Seed) : State := { s with seeds := (h, x) :: s.seeds.filter (fun p => p.1 != h) }
def State.set (s : State) (h : Nat) (x : Seed) : State := { s with seeds := s.seeds.map (fun p => if p.1 == h then (h, x) else p) }
def State.del (s : State) (h : Nat) : State := { s with seeds := s.seeds.filter (fun p => p.1 != h) }

/-! ## the published formats -/

def le16 (v : Nat) : List Nat := [v % 256, v / 256 % 256]
def le32 (v : Nat) : List Nat := [v % 256, v / 256 % 256, v / 65536 % 256, v / 16777216 % 256]

/-- feature bits a seed may carry while the user bits `mask` are enabled: user bits inside `mask`, the reserved bit
clear, the encryption bit free -/
def supported (mask F : Nat) : Bool := (F % 8 &&& mask == F % 8) && (F / 8 % 2 == 0)

/-- the birthday month of clock value `t` (a `uint64_t`; all-ones is the error value of `time`) -/
def month (t : Nat) : Nat := if t = 2 ^ 64 - 1 ∨ t < 1635768000 then 0 else (t - 1635768000) / 2629746 % 1024

/-- the reported birthday of month `B` -/
def birthday (B : Nat) : Nat := 1635768000 + B * 2629746

/-- the check word of a seed -/
def check (x : Seed) : Nat := checkWord (coeffs x.S (extraNat x.F x.B))

/-- 'POLYSEED' || LE16(features<<10 | birthday) || 19 secret bytes || FF || LE16(0x7000 | check value) -/
def storage (x : Seed) : List Nat :=
  [80, 79, 76, 89, 83, 69, 69, 68] ++ le16 (x.F * 1024 + x.B) ++ secretBytes x.S ++ [255] ++ le16 (28672 + check x)

/-- the KDF password of key derivation: the 19 secret bytes zero-padded to 32 -/
def keyPassword (x : Seed) : List Nat := secretBytes x.S ++ List.replicate 13 0

/-- 'POLYSEED key' 00 FF FF FF || LE32(coin) || LE32(birthday) || LE32(features) || 00 00 00 00 -/
def keySalt (x : Seed) (coin : Nat) : List Nat :=
  [80, 79, 76, 89, 83, 69, 69, 68, 32, 107, 101, 121, 0, 255, 255, 255] ++ le32 coin ++ le32 x.B ++ le32 x.F ++ [0, 0, 0, 0]

/-- 'POLYSEED mask' 00 FF FF -/
def maskSalt : List Nat := [80, 79, 76, 89, 83, 69, 69, 68, 32, 109, 97, 115, 107, 0, 255, 255]

/-- the phrase of a seed -/
def phrase (cfg : Cfg) (env : Env) (deps : Deps) (L : Lang) (x : Seed) (coin : Nat) : EncOut :=
  let p := phraseNfkd L (indices x.S x.B x.F coin)
  if cfg.strSize ≤ p.length then .overflow p.length
  else if L.compose then let o := env.nfc deps.nfc p; .ok o o.length
  else .ok p p.length

/-- the seed 16 word indices stand for (`none`: the check word does not validate) -/
def ofWords (idx : List Nat) (coin : Nat) : Option Seed :=
  match idx with
  | c0 :: c1 :: rest =>
    let cs := (c1 ^^^ coin) :: rest
    if checkWord cs = c0 then
      let r := unpack cs
      some ⟨r.1, r.2 % 1024, r.2 / 1024⟩
    else none
  | _ => none

/-- a 32-byte image that has the published shape -/
def imageShape (buf : List Nat) : Bool :=
  buf.take 8 == [80, 79, 76, 89, 83, 69, 69, 68] && decide (buf.getD 9 0 < 128) && decide (buf.getD 28 0 < 64) &&
  buf.getD 29 0 == 255 && buf.getD 31 0 / 8 == 14

/-- the seed and check value a well-shaped image carries -/
def ofImage (buf : List Nat) : Seed × Nat :=
  let v1 := buf.getD 8 0 + 256 * buf.getD 9 0
  let v2 := buf.getD 30 0 + 256 * buf.getD 31 0
  (⟨secretNat (buf.drop 10), v1 % 1024, v1 / 1024⟩, v2 % 2048)

/-- the next answer of the allocator -/
def allocate (w : World) : Option Nat × World :=
  match w.allocs with
  | [] => (none, w)
  | a :: rest => (a.map (·.1), { w with allocs := rest })

/-- a new seed object -/
def finish (s : State) (x : Seed) (langOut : Option Nat) (w : World) : State × Out × World :=
  match allocate w with
  | (none, w1) => (s, .status .memory none langOut, w1)
  | (some b, w1) =>
    if !supported s.mask x.F then (s, .status .unsupported none langOut, w1)
    else (s.put b x, .status .ok (some b) langOut, w1)

/-! ## one API call -/

def step (cfg : Cfg) (env : Env) (s : State) (op : Op) (w : World) : State × Out × World :=
  match op with
  | .inject d => ({ s with deps := fillDefaults d }, .unit, w)
  | .enable m => ({ s with mask := m % 8 }, .num (m % 2 + m / 2 % 2 + m / 4 % 2), w)
  | .create f =>
    let F := f % 8
    if !supported s.mask F then (s, .status .unsupported none none, w) else
    match allocate w with
    | (none, w1) => (s, .status .memory none none, w1)
    | (some b, w1) =>
      let rnd := w1.rands.headD []
      let bytes := rnd.take 19 ++ List.replicate (19 - rnd.length) 0
      (s.put b ⟨secretNat bytes, month (w1.times.headD 0), F⟩, .status .ok (some b) none,
        { w1 with times := w1.times.tail, rands := w1.rands.tail })
  | .free none => (s, .unit, w)
  | .free (some h) => match s.get h with | none => (s, .badHandle, w) | some _ => (s.del h, .unit, w)
  | .encode h li coin =>
    match s.get h with
    | none => (s, .badHandle, w)
    | some x => (s, .phrase (phrase cfg env s.deps (langAt cfg li) x coin), w)
  | .decode str coin =>
    let toks := strSplit cfg.numWords (decompose cfg env ⟨s.deps, 0, []⟩ str).1
    if toks.2 ≠ cfg.numWords then (s, .status .numWords none none, w) else
    let det := phraseDecode cfg.langs toks.1
    if det.status ≠ .ok then (s, .status det.status none det.langOut, w) else
    match ofWords det.idx coin with
    | none => (s, .status .checksum none det.langOut, w)
    | some x => finish s x det.langOut w
  | .decodeExplicit str coin li =>
    let toks := strSplit cfg.numWords (decompose cfg env ⟨s.deps, 0, []⟩ str).1
    if toks.2 ≠ cfg.numWords then (s, .status .numWords none none, w) else
    let r := phraseDecodeExplicit (langAt cfg li) toks.1
    if r.1 ≠ .ok then (s, .status r.1 none none, w) else
    match ofWords r.2 coin with
    | none => (s, .status .checksum none none, w)
    | some x => finish s x none w
  | .keygen h coin n =>
    match s.get h with
    | none => (s, .badHandle, w)
    | some x => (s, .bytes (env.kdf s.deps.pbkdf2 (keyPassword x) (keySalt x coin) 10000 n), w)
  | .store h => match s.get h with | none => (s, .badHandle, w) | some x => (s, .bytes (storage x), w)
  | .load buf =>
    match allocate w with
    | (none, w1) => (s, .status .memory none none, w1)
    | (some b, w1) =>
      if !imageShape buf then (s, .status .format none none, w1) else
      let r := ofImage buf
      if check r.1 ≠ r.2 then (s, .status .checksum none none, w1)
      else if !supported s.mask r.1.F then (s, .status .unsupported none none, w1)
      else (s.put b r.1, .status .ok (some b) none, w1)
  | .crypt h pw =>
    match s.get h with
    | none => (s, .badHandle, w)
    | some x =>
      let m := env.kdf s.deps.pbkdf2 (decompose cfg env ⟨s.deps, 0, []⟩ pw).1 maskSalt 10000 32
      (s.set h ⟨x.S ^^^ secretNat m, x.B, x.F ^^^ 16⟩, .unit, w)
  | .getBirthday h => match s.get h with | none => (s, .badHandle, w) | some x => (s, .num (birthday x.B), w)
  | .getFeature h m => match s.get h with | none => (s, .badHandle, w) | some x => (s, .num (x.F &&& m % 8), w)
  | .isEncrypted h => match s.get h with | none => (s, .badHandle, w) | some x => (s, .num (x.F / 16 % 2), w)

/-- a history -/
def run (cfg : Cfg) (env : Env) : State → List Op → World → State × List Out × World
  | s, [], w => (s, [], w)
  | s, op :: ops, w =>
    let r := step cfg env s op w
    let rest := run cfg env r.1 ops r.2.2
    (rest.1, r.2.1 :: rest.2.1, rest.2.2)

end Polyseed.Abs
