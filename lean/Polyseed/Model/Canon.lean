import Polyseed.Model.Gf
import Polyseed.Model.Pack
/-!
# Well-formedness predicates on `polyseed_data` (decidable, explicit)
-/
namespace Polyseed

/-- field ranges and padding of a seed object as the library keeps it. -/
structure Data.WF (d : Data) : Prop where
  birthday_lt : d.birthday < 1024
  features_lt : d.features < 32
  checksum_lt : d.checksum < 2048
  secret_len : d.secret.length = SECRET_BUFFER_SIZE
  secret_bytes : ∀ b ∈ d.secret, b < 256
  secret_top : d.secret.getD 18 0 < 64
  secret_pad : d.secret.drop SECRET_SIZE = List.replicate (SECRET_BUFFER_SIZE - SECRET_SIZE) 0

/-- the check value the data words of `d` require. -/
def checkValue (d : Data) : Nat := polyEval (0 :: dataToPoly d)

/-- canonical seed: well-formed and carrying a consistent check value. -/
structure Data.Canon (d : Data) : Prop extends Data.WF d where
  checksum_ok : d.checksum = checkValue d

end Polyseed
