import Polyseed.Model.Pack
/-!
# `storage.c`: `polyseed_data_store` / `polyseed_data_load`
-/
namespace Polyseed

/-- "POLYSEED" -/
def STORAGE_HEADER : List Nat := [80, 79, 76, 89, 83, 69, 69, 68]
def EXTRA_BYTE : Nat := 255
def STORAGE_FOOTER : Nat := 0x7000
def GF_MASK : Nat := 2047

/-- `store16` of a value already converted to `uint16_t`. -/
def store16 (u : Nat) : List Nat := [u % 256, (u >>> 8) % 256]

/-- `load16`. -/
def load16 (lo hi : Nat) : Nat := lo ||| (hi <<< 8)

/-- `polyseed_data_store`: 32 bytes. The `store16` argument is converted to `uint16_t` (mod 2^16) as in C. -/
def dataStore (d : Data) : List Nat :=
  STORAGE_HEADER
  ++ store16 (((d.features <<< DATE_BITS) ||| d.birthday) % 65536)
  ++ d.secret.take SECRET_SIZE
  ++ [EXTRA_BYTE]
  ++ store16 ((STORAGE_FOOTER ||| d.checksum) % 65536)

/-- `polyseed_data_load` on a 32-byte buffer. On failure C leaves `*data` partially
written; the only caller frees it, so the model returns no data then. -/
def dataLoad (buf : List Nat) : Status × Option Data :=
  if buf.take 8 ≠ STORAGE_HEADER then (.format, none) else
  let v1 := load16 (buf.getD 8 0) (buf.getD 9 0)
  let birthday := v1 &&& DATE_MASK
  let v1' := v1 >>> DATE_BITS
  if v1' > FEATURE_MASK then (.format, none) else
  let secret := (buf.drop 10).take SECRET_SIZE ++ List.replicate (SECRET_BUFFER_SIZE - SECRET_SIZE) 0
  if (buf.getD 28 0) &&& (255 - CLEAR_MASK) ≠ 0 then (.format, none) else
  if buf.getD 29 0 ≠ EXTRA_BYTE then (.format, none) else
  let v2 := load16 (buf.getD 30 0) (buf.getD 31 0)
  let checksum := v2 &&& GF_MASK
  if v2 &&& (65535 - GF_MASK) ≠ STORAGE_FOOTER then (.format, none) else
  (.ok, some { birthday := birthday, features := v1', secret := secret, checksum := checksum })

end Polyseed
