import Polyseed.Model.Types
/-!
# `lang.c`: the four comparators, `get_comparer`, `lang_search`, word lookup, phrase decoding

Plain `char` signedness is the explicit parameter `sgn` (`true` = signed, as on
x86-64).  A C string is the list of its bytes; reading at the end of the list
reads the terminator `0`.
-/
namespace Polyseed

/-- plain `char` value of a byte as a C `int`. -/
def sc (sgn : Bool) (b : Nat) : Int := if sgn && decide (128 ≤ b) then (b : Int) - 256 else (b : Int)

/-- `c < 0` for a plain `char` holding byte `b`. -/
def isNeg (sgn : Bool) (b : Nat) : Bool := sgn && decide (128 ≤ b)

/-- `(*key > *elm) - (*key < *elm)`. -/
def sgnCmp (sgn : Bool) (a b : Nat) : Int :=
  if sc sgn a < sc sgn b then -1 else if sc sgn b < sc sgn a then 1 else 0

/-- `*p` for a string `p`. -/
def hd (s : List Nat) : Nat := s.headD 0

/-- `compare_str`. -/
def cmpStr (sgn : Bool) : List Nat → List Nat → Int
  | [], e => sgnCmp sgn 0 (hd e)
  | k :: _, [] => sgnCmp sgn k 0
  | k :: ks, e :: es => if k = e then cmpStr sgn ks es else sgnCmp sgn k e

/-- `compare_prefix(key, elm, n)`; `i` is the loop counter (starts at 1). -/
def cmpPrefix (sgn : Bool) (n : Nat) : Nat → List Nat → List Nat → Int
  | _, [], e => sgnCmp sgn 0 (hd e)
  | i, k :: ks, e =>
    if n ≤ i ∧ ks = [] then sgnCmp sgn k (hd e)
    else match e with
      | [] => sgnCmp sgn k 0
      | x :: es => if k = x then cmpPrefix sgn n (i + 1) ks es else sgnCmp sgn k x

/-- `while (*p < 0) ++p;` -/
def skipNeg (sgn : Bool) : List Nat → List Nat
  | [] => []
  | b :: bs => if isNeg sgn b then skipNeg sgn bs else b :: bs

/-- `compare_str_noaccent`. -/
def cmpStrNoaccent (sgn : Bool) : List Nat → List Nat → Int
  | [], elm => sgnCmp sgn 0 (hd (skipNeg sgn elm))
  | k :: ks, elm =>
    if isNeg sgn k then cmpStrNoaccent sgn ks elm
    else match skipNeg sgn elm with
      | [] => sgnCmp sgn k 0
      | e :: es => if k = e then cmpStrNoaccent sgn ks es else sgnCmp sgn k e

/-- `compare_prefix_noaccent(key, elm, n)`; note the early exit looks at the raw next byte `key[1]`. -/
def cmpPrefixNoaccent (sgn : Bool) (n : Nat) : Nat → List Nat → List Nat → Int
  | _, [], elm => sgnCmp sgn 0 (hd (skipNeg sgn elm))
  | i, k :: ks, elm =>
    if isNeg sgn k then cmpPrefixNoaccent sgn n i ks elm
    else
      let e' := skipNeg sgn elm
      if n ≤ i ∧ ks = [] then sgnCmp sgn k (hd e')
      else match e' with
        | [] => sgnCmp sgn k 0
        | e :: es => if k = e then cmpPrefixNoaccent sgn n (i + 1) ks es else sgnCmp sgn k e

def NUM_CHARS_PREFIX : Nat := 4

/-- `get_comparer`: comparator as a function `key → elm → int`. -/
def getComparer (sgn : Bool) (L : Lang) : List Nat → List Nat → Int :=
  if L.hasPrefix then
    if L.hasAccents then cmpPrefixNoaccent sgn NUM_CHARS_PREFIX 1 else cmpPrefix sgn NUM_CHARS_PREFIX 1
  else
    if L.hasAccents then cmpStrNoaccent sgn else cmpStr sgn

/-- glibc `bsearch` (the inline loop of `<bits/stdlib-bsearch.h>`); `c` compares the key with an element. -/
def bsearchAux (c : α → Int) (ws : Array α) : Nat → Nat → Nat → Option Nat
  | 0, _, _ => none
  | fuel + 1, l, u =>
    if l < u then
      let idx := (l + u) / 2
      if h : idx < ws.size then
        let r := c ws[idx]
        if r < 0 then bsearchAux c ws fuel l idx
        else if r > 0 then bsearchAux c ws fuel (idx + 1) u
        else some idx
      else none
    else none

def bsearch (c : α → Int) (ws : Array α) : Option Nat := bsearchAux c ws (ws.size + 1) 0 ws.size

/-- the linear loop of `lang_search` for unsorted lists: first index that compares equal. -/
def linearSearch (c : α → Int) : List α → Nat → Option Nat
  | [], _ => none
  | w :: ws, j => if c w = 0 then some j else linearSearch c ws (j + 1)

/-- `lang_search`. -/
def langSearch (L : Lang) (word : List Nat) (cmp : List Nat → List Nat → Int) : Option Nat :=
  if L.isSorted then bsearch (cmp word) L.words
  else linearSearch (cmp word) L.words.toList 0

/-- `polyseed_lang_find_word` (`none` = -1). -/
def findWord (sgn : Bool) (L : Lang) (word : List Nat) : Option Nat :=
  langSearch L word (getComparer sgn L)

/-- the inner `for (wi ...)` loop: all words found, or failure. -/
def findAll (sgn : Bool) (L : Lang) : List (List Nat) → Option (List Nat)
  | [] => some []
  | t :: ts =>
    match findWord sgn L t with
    | none => none
    | some i => match findAll sgn L ts with
      | none => none
      | some is => some (i :: is)

/-- `polyseed_phrase_decode_explicit`. -/
def phraseDecodeExplicit (sgn : Bool) (L : Lang) (toks : List (List Nat)) : Status × List Nat :=
  match findAll sgn L toks with
  | none => (.lang, [])
  | some idx => (.ok, idx)

/-- outcome of the language loop of `polyseed_phrase_decode`:
status, indices written to `idx_out`, and the value written to `*lang_out`
(registry position of the FIRST language that matched; it is written before a
second match turns the result into `MULT_LANG`). -/
structure Detect where
  status : Status
  idx : List Nat
  langOut : Option Nat
deriving DecidableEq, Repr

/-- the `for (li ...)` loop with the `have_lang` accumulator. -/
def detectAux (sgn : Bool) (toks : List (List Nat)) : List Lang → Nat → Option (Nat × List Nat) → Detect
  | [], _, none => ⟨.lang, [], none⟩
  | [], _, some (l, idx) => ⟨.ok, idx, some l⟩
  | L :: Ls, li, acc =>
    match findAll sgn L toks with
    | none => detectAux sgn toks Ls (li + 1) acc
    | some idx =>
      match acc with
      | some (l0, idx0) => ⟨.multLang, idx0, some l0⟩
      | none => detectAux sgn toks Ls (li + 1) (some (li, idx))

/-- `polyseed_phrase_decode`. -/
def phraseDecode (sgn : Bool) (langs : List Lang) (toks : List (List Nat)) : Detect :=
  detectAux sgn toks langs 0 none

end Polyseed
