import Polyseed.Model.Types
/-!
# `lang.c`: the four comparators, `get_comparer`, `lang_search`, word lookup, phrase decoding

A C string is the list of its bytes; reading at the end of the list reads the terminator `0`.
Bytes are compared as `compare_char` does: rank `(unsigned char)c ^ 0x80`, i.e. non-ASCII bytes
before NUL before ASCII, independent of the signedness of plain `char`; `IS_NON_ASCII(c)` is `c >= 0x80`.
-/
namespace Polyseed

/-- the rank `compare_char` orders bytes by: `(unsigned char)c ^ 0x80` -/
def sc (b : Nat) : Int := if 128 ≤ b then (b : Int) - 128 else (b : Int) + 128

/-- `IS_NON_ASCII(c)` -/
def isNeg (b : Nat) : Bool := decide (128 ≤ b)

/-- `compare_char`. -/
def sgnCmp (a b : Nat) : Int :=
  if sc a < sc b then -1 else if sc b < sc a then 1 else 0

/-- `*p` for a string `p`. -/
def hd (s : List Nat) : Nat := s.headD 0

/-- `compare_str`. -/
def cmpStr : List Nat → List Nat → Int
  | [], e => sgnCmp 0 (hd e)
  | k :: _, [] => sgnCmp k 0
  | k :: ks, e :: es => if k = e then cmpStr ks es else sgnCmp k e

/-- `compare_prefix(key, elm, n)`; `i` is the loop counter (starts at 1). -/
def cmpPrefix (n : Nat) : Nat → List Nat → List Nat → Int
  | _, [], e => sgnCmp 0 (hd e)
  | i, k :: ks, e =>
    if n ≤ i ∧ ks = [] then sgnCmp k (hd e)
    else match e with
      | [] => sgnCmp k 0
      | x :: es => if k = x then cmpPrefix n (i + 1) ks es else sgnCmp k x

/-- `while (*p < 0) ++p;` -/
def skipNeg : List Nat → List Nat
  | [] => []
  | b :: bs => if isNeg b then skipNeg bs else b :: bs

/-- `compare_str_noaccent`. -/
def cmpStrNoaccent : List Nat → List Nat → Int
  | [], elm => sgnCmp 0 (hd (skipNeg elm))
  | k :: ks, elm =>
    if isNeg k then cmpStrNoaccent ks elm
    else match skipNeg elm with
      | [] => sgnCmp k 0
      | e :: es => if k = e then cmpStrNoaccent ks es else sgnCmp k e

/-- `compare_prefix_noaccent(key, elm, n)`; the early exit fires when only non-ASCII bytes follow the current letter. -/
def cmpPrefixNoaccent (n : Nat) : Nat → List Nat → List Nat → Int
  | _, [], elm => sgnCmp 0 (hd (skipNeg elm))
  | i, k :: ks, elm =>
    if isNeg k then cmpPrefixNoaccent n i ks elm
    else
      let e' := skipNeg elm
      if n ≤ i ∧ skipNeg ks = [] then sgnCmp k (hd e')
      else match e' with
        | [] => sgnCmp k 0
        | e :: es => if k = e then cmpPrefixNoaccent n (i + 1) ks es else sgnCmp k e

def NUM_CHARS_PREFIX : Nat := 4

/-- `get_comparer`: comparator as a function `key → elm → int`. -/
def getComparer (L : Lang) : List Nat → List Nat → Int :=
  if L.hasPrefix then
    if L.hasAccents then cmpPrefixNoaccent NUM_CHARS_PREFIX 1 else cmpPrefix NUM_CHARS_PREFIX 1
  else
    if L.hasAccents then cmpStrNoaccent else cmpStr

/-- glibc `bsearch` (the inline loop of `<bits/stdlib-bsearch.h>`); `c` compares the key with an element. -/
def bsearchAux (c : α → Int) (ws : Array α) : Nat → Nat → Nat → Option Nat
  | 0, _, _ => none
  | fuel + 1, l, u =>
    if l < u then
      let idx := (l + u) / 2
      if h : idx < ws.size then
        let r := c ws[idx]
        if r < 0 then bsearchAux c ws fuel l idx
        else if r > 0 then bsearchAux c ws fuel (idx + 1) u
        else some idx
      else none
    else none

def bsearch (c : α → Int) (ws : Array α) : Option Nat := bsearchAux c ws (ws.size + 1) 0 ws.size

/-- the linear loop of `lang_search` for unsorted lists: first index that compares equal. -/
def linearSearch (c : α → Int) : List α → Nat → Option Nat
  | [], _ => none
  | w :: ws, j => if c w = 0 then some j else linearSearch c ws (j + 1)

/-- `lang_search`. -/
def langSearch (L : Lang) (word : List Nat) (cmp : List Nat → List Nat → Int) : Option Nat :=
  if L.isSorted then bsearch (cmp word) L.words
  else linearSearch (cmp word) L.words.toList 0

/-- `polyseed_lang_find_word` (`none` = -1). -/
def findWord (L : Lang) (word : List Nat) : Option Nat :=
  langSearch L word (getComparer L)

/-- the inner `for (wi ...)` loop: all words found, or failure. -/
def findAll (L : Lang) : List (List Nat) → Option (List Nat)
  | [] => some []
  | t :: ts =>
    match findWord L t with
    | none => none
    | some i => match findAll L ts with
      | none => none
      | some is => some (i :: is)

/-- `polyseed_phrase_decode_explicit`. -/
def phraseDecodeExplicit (L : Lang) (toks : List (List Nat)) : Status × List Nat :=
  match findAll L toks with
  | none => (.lang, [])
  | some idx => (.ok, idx)

/-- outcome of the language loop of `polyseed_phrase_decode`:
status, indices written to `idx_out`, and the value written to `*lang_out`
(registry position of the FIRST language that matched; it is written before a
second match turns the result into `MULT_LANG`). -/
structure Detect where
  status : Status
  idx : List Nat
  langOut : Option Nat
deriving DecidableEq, Repr

/-- the `for (li ...)` loop with the `have_lang` accumulator. -/
def detectAux (toks : List (List Nat)) : List Lang → Nat → Option (Nat × List Nat) → Detect
  | [], _, none => ⟨.lang, [], none⟩
  | [], _, some (l, idx) => ⟨.ok, idx, some l⟩
  | L :: Ls, li, acc =>
    match findAll L toks with
    | none => detectAux toks Ls (li + 1) acc
    | some idx =>
      match acc with
      | some (l0, idx0) => ⟨.multLang, idx0, some l0⟩
      | none => detectAux toks Ls (li + 1) (some (li, idx))

/-- `polyseed_phrase_decode`. -/
def phraseDecode (langs : List Lang) (toks : List (List Nat)) : Detect :=
  detectAux toks langs 0 none

end Polyseed
