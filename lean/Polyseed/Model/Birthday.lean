/-!
# `birthday.h`

`uint64_t time`; the model takes `t : Nat` and the theorems assume `t < 2^64`.
The published constants are literals here on purpose (DESIGN 3.2).
-/
namespace Polyseed

def EPOCH : Nat := 1635768000
def TIME_STEP : Nat := 2629746
def DATE_BITS : Nat := 10
def DATE_MASK : Nat := 1023

/-- `birthday_encode`. -/
def birthdayEncode (t : Nat) : Nat :=
  if t = 2 ^ 64 - 1 ∨ t < EPOCH then 0
  else ((t - EPOCH) / TIME_STEP) &&& DATE_MASK

/-- `birthday_decode` (`unsigned * uint64_t` is computed in 64 bits). -/
def birthdayDecode (b : Nat) : Nat := (EPOCH + b * TIME_STEP) % 2 ^ 64

end Polyseed
