import Polyseed.Model.Gf
import Polyseed.Model.Pack
import Polyseed.Model.Storage
import Polyseed.Model.Str
/-!
# The API of `polyseed.c`, `dependency.c`, `features.c` as a state machine with events

Every call of an injected dependency is an `Event`; answers come from an
environment: pure functions for the KDF and the two normalisers (`Env`),
consumable answer streams for the random source, the clock and the allocator
(`World`).  Theorems quantify over all of them; the driver instantiates them
with what the real run recorded.
-/
namespace Polyseed

/-- `polyseed_dependency` as identities of functions (`0` = NULL). -/
structure Deps where
  randbytes : Nat
  pbkdf2 : Nat
  memzero : Nat
  nfc : Nat
  nfkd : Nat
  time : Nat
  alloc : Nat
  free : Nat
deriving DecidableEq, Repr, Inhabited

/-- identities of the libc fall-backs chosen by `polyseed_inject`. -/
def LIBC_TIME : Nat := 1001
def LIBC_MALLOC : Nat := 1002
def LIBC_FREE : Nat := 1003

/-- the NULL-replacement of `polyseed_inject`. -/
def fillDefaults (d : Deps) : Deps :=
  { d with time := if d.time = 0 then LIBC_TIME else d.time,
           alloc := if d.alloc = 0 then LIBC_MALLOC else d.alloc,
           free := if d.free = 0 then LIBC_FREE else d.free }

/-- stack temporaries that the library wipes. -/
inductive Tmp where
  | poly | strTmp | words | mask | passNorm | idx
deriving DecidableEq, Repr

/-- one call of an injected dependency; the first field is the identity of the function called. -/
inductive Event where
  | alloc (f : Nat) (size : Nat) (ret : Option Nat)
  | free (f : Nat) (block : Nat)
  | zeroBlock (f : Nat) (block : Nat) (len : Nat)
  | zeroStack (f : Nat) (what : Tmp) (len : Nat)
  | rand (f : Nat) (n : Nat) (out : List Nat)
  | time (f : Nat) (t : Nat)
  | kdf (f : Nat) (pw salt : List Nat) (iters keylen : Nat) (out : List Nat)
  | nfc (f : Nat) (inp out : List Nat)
  | nfkd (f : Nat) (inp out : List Nat)
deriving DecidableEq, Repr

/-- deterministic injected functions (first argument: identity of the function). -/
structure Env where
  kdf : Nat → List Nat → List Nat → Nat → Nat → List Nat
  nfc : Nat → List Nat → List Nat
  nfkd : Nat → List Nat → List Nat

/-- answer streams of the non-deterministic dependencies. An allocation answer is
`none` (NULL) or a block id together with the junk the fresh block contains. -/
structure World where
  rands : List (List Nat)
  times : List Nat
  allocs : List (Option (Nat × Data))

/-- ABI-like data extracted from the tree (instantiated by `Gen`). -/
structure Cfg where
  strSize : Nat
  sizeofData : Nat
  sizeofPoly : Nat
  sizeofPhrase : Nat
  sizeofIdx : Nat
  numWords : Nat
  langs : List Lang

/-- library state: the two statics plus the live seed blocks. -/
structure Lib where
  deps : Deps
  reserved : Nat
  heap : List (Nat × Data)
deriving Repr

def Lib.init : Lib := { deps := ⟨0, 0, 0, 0, 0, 0, 0, 0⟩, reserved := reservedInit, heap := [] }

def Lib.get (lib : Lib) (b : Nat) : Option Data := lib.heap.lookup b
def Lib.put (lib : Lib) (b : Nat) (d : Data) : Lib :=
  { lib with heap := (b, d) :: lib.heap.filter (fun p => p.1 != b) }
/-- overwrite the contents of a live block in place (`polyseed_crypt` writes through the caller's pointer) -/
def Lib.update (lib : Lib) (b : Nat) (d : Data) : Lib :=
  { lib with heap := lib.heap.map (fun p => if p.1 == b then (b, d) else p) }
def Lib.del (lib : Lib) (b : Nat) : Lib :=
  { lib with heap := lib.heap.filter (fun p => p.1 != b) }

/-- result of one API call. -/
structure Res (α : Type) where
  lib : Lib
  out : α
  events : List Event
  w : World

def KDF_NUM_ITERATIONS : Nat := 10000

/-- `ALLOC(sizeof(polyseed_data))`. -/
def doAlloc (cfg : Cfg) (lib : Lib) (w : World) : Option (Nat × Data) × Event × World :=
  match w.allocs with
  | [] => (none, .alloc lib.deps.alloc cfg.sizeofData none, w)
  | a :: rest => (a, .alloc lib.deps.alloc cfg.sizeofData (a.map (·.1)), { w with allocs := rest })

/-- `polyseed_free` on a block the library just allocated (or a live seed). -/
def freeEvents (cfg : Cfg) (lib : Lib) (b : Nat) : List Event :=
  [.zeroBlock lib.deps.memzero b cfg.sizeofData, .free lib.deps.free b]

/-- `store32`. -/
def store32 (u : Nat) : List Nat := [u % 256, (u >>> 8) % 256, (u >>> 16) % 256, (u >>> 24) % 256]

/-! ## `polyseed_inject`, `polyseed_enable_features` -/

def inject (lib : Lib) (d : Deps) : Lib := { lib with deps := fillDefaults d }

def enable (lib : Lib) (mask : Nat) : Lib × Nat :=
  let r := enableFeatures (mask % 2 ^ 32)
  ({ lib with reserved := r.1 }, r.2)

/-! ## `polyseed_create` -/

/-- the seed `polyseed_create` builds in the fresh block (whose previous contents are `junk`)
from the clock value `t` and the random bytes `rnd`. -/
def createData (junk : Data) (seedFeatures t : Nat) (rnd : List Nat) : Data :=
  let bytes := rnd.take SECRET_SIZE ++ List.replicate (SECRET_SIZE - rnd.length) 0
  let secret := (bytes.set (SECRET_SIZE - 1) ((bytes.getD (SECRET_SIZE - 1) 0) &&& CLEAR_MASK))
                  ++ List.replicate (SECRET_BUFFER_SIZE - SECRET_SIZE) 0
  let d0 : Data := { junk with birthday := birthdayEncode t, features := seedFeatures, secret := secret }
  { d0 with checksum := (polyEncode (0 :: dataToPoly d0)).headD 0 }

def create (cfg : Cfg) (lib : Lib) (features : Nat) (w : World) : Res (Status × Option Nat) :=
  let seedFeatures := makeFeatures (features % 2 ^ 32)
  if !featuresSupported lib.reserved seedFeatures then ⟨lib, (.unsupported, none), [], w⟩ else
  match doAlloc cfg lib w with
  | (none, e, w1) => ⟨lib, (.memory, none), [e], w1⟩
  | (some (b, junk), e, w1) =>
    let t := w1.times.headD 0
    let rnd := w1.rands.headD []
    ⟨lib.put b (createData junk seedFeatures t rnd), (.ok, some b),
      [e, .time lib.deps.time t, .rand lib.deps.randbytes SECRET_SIZE rnd,
       .zeroStack lib.deps.memzero .poly cfg.sizeofPoly],
      { w1 with times := w1.times.tail, rands := w1.rands.tail }⟩

/-! ## `polyseed_free` (`none` = NULL) -/

def free (cfg : Cfg) (lib : Lib) (h : Option Nat) : Lib × List Event :=
  match h with
  | none => (lib, [])
  | some b => (lib.del b, freeEvents cfg lib b)

/-! ## queries -/

def getBirthday (d : Data) : Nat := birthdayDecode d.birthday
def getFeature (d : Data) (mask : Nat) : Nat := getFeatures d.features (mask % 2 ^ 32)
def isEncryptedSeed (d : Data) : Nat := if isEncrypted d.features then 1 else 0

/-! ## `polyseed_encode` -/

inductive EncOut where
  | ok (str : List Nat) (size : Nat)
  /-- the assembled phrase does not fit `polyseed_str`: undefined behaviour in C (stack overflow of `str_tmp`). -/
  | overflow (needed : Nat)
deriving DecidableEq, Repr

/-- the decomposed phrase `str_tmp` that `polyseed_encode` assembles. -/
def encodeCoeffs (d : Data) (coin : Nat) : List Nat :=
  match dataToPoly d with
  | [] => [d.checksum]
  | c1 :: cs => d.checksum :: (c1 ^^^ coin) :: cs

def encodeTmp (L : Lang) (d : Data) (coin : Nat) : List Nat :=
  joinWords L.sep ((encodeCoeffs d coin).map (fun c => L.words.getD c []))

def encode (cfg : Cfg) (env : Env) (lib : Lib) (d : Data) (L : Lang) (coin : Nat) : EncOut × List Event :=
  let tmp := encodeTmp L d coin
  if cfg.strSize ≤ tmp.length then (.overflow tmp.length, []) else
  let wipes := [Event.zeroStack lib.deps.memzero .poly cfg.sizeofPoly,
                Event.zeroStack lib.deps.memzero .strTmp cfg.strSize]
  if L.compose then
    let out := env.nfc lib.deps.nfc tmp
    (.ok out out.length, Event.nfc lib.deps.nfc tmp out :: wipes)
  else (.ok tmp tmp.length, wipes)

/-! ## `polyseed_decode`, `polyseed_decode_explicit` -/

structure DecOut where
  status : Status
  seed : Option Nat
  /-- value written through `lang_out` (`none`: not written) -/
  langOut : Option Nat
deriving DecidableEq, Repr

/-- `UTF8_DECOMPOSE` with its event. -/
def decompose (cfg : Cfg) (env : Env) (lib : Lib) (s : List Nat) : List Nat × List Event :=
  let r := lazyNfkd cfg.strSize (env.nfkd lib.deps.nfkd) s
  (r.1, if r.2 then [.nfkd lib.deps.nfkd s r.1] else [])

/-- the three wipes at `cleanup:`. -/
def decodeWipes (cfg : Cfg) (lib : Lib) : List Event :=
  [.zeroStack lib.deps.memzero .strTmp cfg.strSize,
   .zeroStack lib.deps.memzero .words cfg.sizeofPhrase,
   .zeroStack lib.deps.memzero .poly cfg.sizeofPoly]

/-- `poly.coeff[POLY_NUM_CHECK_DIGITS] ^= coin` -/
def applyCoin (idx : List Nat) (coin : Nat) : List Nat :=
  match idx with
  | c0 :: c1 :: cs => c0 :: (c1 ^^^ coin) :: cs
  | p => p

/-- common tail of both decoders after the words were mapped to coefficients. -/
def decodeFinish (cfg : Cfg) (lib : Lib) (idx : List Nat) (coin : Nat) (langOut : Option Nat)
    (pre : List Event) (w : World) : Res DecOut :=
  let poly := applyCoin idx coin
  if !polyCheck poly then ⟨lib, ⟨.checksum, none, langOut⟩, pre ++ decodeWipes cfg lib, w⟩ else
  match doAlloc cfg lib w with
  | (none, e, w1) => ⟨lib, ⟨.memory, none, langOut⟩, pre ++ [e] ++ decodeWipes cfg lib, w1⟩
  | (some (b, _junk), e, w1) =>
    let d := polyToData poly
    if !featuresSupported lib.reserved d.features then
      ⟨lib, ⟨.unsupported, none, langOut⟩, pre ++ [e] ++ freeEvents cfg lib b ++ decodeWipes cfg lib, w1⟩
    else
      ⟨lib.put b d, ⟨.ok, some b, langOut⟩, pre ++ [e] ++ decodeWipes cfg lib, w1⟩

/-- `polyseed_phrase_decode` wipes its private index array on both exits -/
def detectWipe (cfg : Cfg) (lib : Lib) : Event := .zeroStack lib.deps.memzero .idx cfg.sizeofIdx

def decode (cfg : Cfg) (env : Env) (lib : Lib) (str : List Nat) (coin : Nat) (w : World) : Res DecOut :=
  let (tmp, pre) := decompose cfg env lib str
  let (toks, n) := strSplit cfg.numWords tmp
  if n ≠ cfg.numWords then ⟨lib, ⟨.numWords, none, none⟩, pre ++ decodeWipes cfg lib, w⟩ else
  let det := phraseDecode cfg.langs toks
  if det.status ≠ .ok then ⟨lib, ⟨det.status, none, det.langOut⟩, pre ++ [detectWipe cfg lib] ++ decodeWipes cfg lib, w⟩ else
  decodeFinish cfg lib det.idx coin det.langOut (pre ++ [detectWipe cfg lib]) w

def decodeExplicit (cfg : Cfg) (env : Env) (lib : Lib) (str : List Nat) (coin : Nat) (L : Lang) (w : World) :
    Res DecOut :=
  let (tmp, pre) := decompose cfg env lib str
  let (toks, n) := strSplit cfg.numWords tmp
  if n ≠ cfg.numWords then ⟨lib, ⟨.numWords, none, none⟩, pre ++ decodeWipes cfg lib, w⟩ else
  let r := phraseDecodeExplicit L toks
  if r.1 ≠ .ok then ⟨lib, ⟨r.1, none, none⟩, pre ++ decodeWipes cfg lib, w⟩ else
  decodeFinish cfg lib r.2 coin none pre w

/-! ## `polyseed_keygen` -/

/-- the 32-byte salt of `polyseed_keygen`. -/
def keygenSalt (d : Data) (coin : Nat) : List Nat :=
  [80, 79, 76, 89, 83, 69, 69, 68, 32, 107, 101, 121]  -- "POLYSEED key"
  ++ [0, 255, 255, 255]
  ++ store32 (coin % 2 ^ 32) ++ store32 (d.birthday % 2 ^ 32) ++ store32 (d.features % 2 ^ 32)
  ++ [0, 0, 0, 0]

/-- returns the bytes the KDF wrote into `key_out`. -/
def keygen (env : Env) (lib : Lib) (d : Data) (coin : Nat) (keySize : Nat) : List Nat × List Event :=
  let salt := keygenSalt d coin
  let out := env.kdf lib.deps.pbkdf2 d.secret salt KDF_NUM_ITERATIONS keySize
  (out, [.kdf lib.deps.pbkdf2 d.secret salt KDF_NUM_ITERATIONS keySize out])

/-! ## `polyseed_store`, `polyseed_load` -/

def store (d : Data) : List Nat := dataStore d

def load (cfg : Cfg) (lib : Lib) (buf : List Nat) (w : World) : Res (Status × Option Nat) :=
  match doAlloc cfg lib w with
  | (none, e, w1) => ⟨lib, (.memory, none), [e], w1⟩
  | (some (b, _junk), e, w1) =>
    match dataLoad buf with
    | (st, none) => ⟨lib, (st, none), [e] ++ freeEvents cfg lib b, w1⟩
    | (_, some d) =>
      let wipe := [Event.zeroStack lib.deps.memzero .poly cfg.sizeofPoly]
      if !polyCheck (d.checksum :: dataToPoly d) then
        ⟨lib, (.checksum, none), [e] ++ freeEvents cfg lib b ++ wipe, w1⟩
      else if !featuresSupported lib.reserved d.features then
        ⟨lib, (.unsupported, none), [e] ++ freeEvents cfg lib b ++ wipe, w1⟩
      else ⟨lib.put b d, (.ok, some b), [e] ++ wipe, w1⟩

/-! ## `polyseed_crypt` -/

/-- "POLYSEED mask" 00 FF FF -/
def cryptSalt : List Nat := [80, 79, 76, 89, 83, 69, 69, 68, 32, 109, 97, 115, 107, 0, 255, 255]

/-- `a[i] ^= m[i]` for the first `n` bytes. -/
def xorPrefix : Nat → List Nat → List Nat → List Nat
  | 0, a, _ => a
  | _ + 1, [], _ => []
  | n + 1, a :: as, m => (a ^^^ m.headD 0) :: xorPrefix n as m.tail

def cryptData (d : Data) (mask : List Nat) : Data :=
  let s1 := xorPrefix SECRET_SIZE d.secret mask
  let s2 := s1.set (SECRET_SIZE - 1) ((s1.getD (SECRET_SIZE - 1) 0) &&& CLEAR_MASK)
  let d1 : Data := { d with secret := s2, features := d.features ^^^ ENCRYPTED_MASK }
  { d1 with checksum := (polyEncode (0 :: dataToPoly d1)).headD 0 }

def crypt (cfg : Cfg) (env : Env) (lib : Lib) (b : Nat) (d : Data) (password : List Nat) : Lib × List Event :=
  let (pw, pre) := decompose cfg env lib password
  let mask := env.kdf lib.deps.pbkdf2 pw cryptSalt KDF_NUM_ITERATIONS 32
  (lib.update b (cryptData d mask),
   pre ++ [.kdf lib.deps.pbkdf2 pw cryptSalt KDF_NUM_ITERATIONS 32 mask,
           .zeroStack lib.deps.memzero .poly cfg.sizeofPoly,
           .zeroStack lib.deps.memzero .mask 32,
           .zeroStack lib.deps.memzero .passNorm cfg.strSize])

end Polyseed
