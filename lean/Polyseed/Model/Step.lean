import Polyseed.Model.Api
/-!
# One API call as a transition: `step : Lib → Op → World → Lib × Out × events × World`
-/
namespace Polyseed

inductive Op where
  | inject (d : Deps)
  | enable (mask : Nat)
  | create (features : Nat)
  | free (h : Option Nat)
  | encode (h : Nat) (li : Nat) (coin : Nat)
  | decode (s : List Nat) (coin : Nat)
  | decodeExplicit (s : List Nat) (coin : Nat) (li : Nat)
  | keygen (h : Nat) (coin : Nat) (n : Nat)
  | store (h : Nat)
  | load (buf : List Nat)
  | crypt (h : Nat) (pw : List Nat)
  | getBirthday (h : Nat)
  | getFeature (h : Nat) (mask : Nat)
  | isEncrypted (h : Nat)
deriving Repr

inductive Out where
  | unit
  | num (n : Nat)
  | status (st : Status) (seed : Option Nat) (langOut : Option Nat)
  | phrase (e : EncOut)
  | bytes (b : List Nat)
  /-- the call was made with a handle that is not a live seed (undefined behaviour in C; outside the model) -/
  | badHandle
deriving Repr

structure StepRes where
  lib : Lib
  out : Out
  events : List Event
  w : World

def langAt (cfg : Cfg) (i : Nat) : Lang := cfg.langs.getD i default

def step (cfg : Cfg) (env : Env) (lib : Lib) (op : Op) (w : World) : StepRes :=
  match op with
  | .inject d => ⟨inject lib d, .unit, [], w⟩
  | .enable m => let r := enable lib m; ⟨r.1, .num r.2, [], w⟩
  | .create f => let r := create cfg lib f w; ⟨r.lib, .status r.out.1 r.out.2 none, r.events, r.w⟩
  | .free none => ⟨lib, .unit, [], w⟩
  | .free (some b) =>
    match lib.get b with
    | none => ⟨lib, .badHandle, [], w⟩
    | some _ => let r := free cfg lib (some b); ⟨r.1, .unit, r.2, w⟩
  | .encode h li coin =>
    match lib.get h with
    | none => ⟨lib, .badHandle, [], w⟩
    | some d => let r := encode cfg env lib d (langAt cfg li) coin; ⟨lib, .phrase r.1, r.2, w⟩
  | .decode s coin => let r := decode cfg env lib s coin w; ⟨r.lib, .status r.out.status r.out.seed r.out.langOut, r.events, r.w⟩
  | .decodeExplicit s coin li =>
    let r := decodeExplicit cfg env lib s coin (langAt cfg li) w
    ⟨r.lib, .status r.out.status r.out.seed r.out.langOut, r.events, r.w⟩
  | .keygen h coin n =>
    match lib.get h with
    | none => ⟨lib, .badHandle, [], w⟩
    | some d => let r := keygen env lib d coin n; ⟨lib, .bytes r.1, r.2, w⟩
  | .store h =>
    match lib.get h with
    | none => ⟨lib, .badHandle, [], w⟩
    | some d => ⟨lib, .bytes (store d), [], w⟩
  | .load buf => let r := load cfg lib buf w; ⟨r.lib, .status r.out.1 r.out.2 none, r.events, r.w⟩
  | .crypt h pw =>
    match lib.get h with
    | none => ⟨lib, .badHandle, [], w⟩
    | some d => let r := crypt cfg env lib h d pw; ⟨r.1, .unit, r.2, w⟩
  | .getBirthday h => match lib.get h with | none => ⟨lib, .badHandle, [], w⟩ | some d => ⟨lib, .num (getBirthday d), [], w⟩
  | .getFeature h m => match lib.get h with | none => ⟨lib, .badHandle, [], w⟩ | some d => ⟨lib, .num (getFeature d m), [], w⟩
  | .isEncrypted h => match lib.get h with | none => ⟨lib, .badHandle, [], w⟩ | some d => ⟨lib, .num (isEncryptedSeed d), [], w⟩

/-- a history: the states, outputs and events of a sequence of calls -/
def run (cfg : Cfg) (env : Env) : Lib → List Op → World → Lib × List Out × List Event × World
  | lib, [], w => (lib, [], [], w)
  | lib, op :: ops, w =>
    let r := step cfg env lib op w
    let rest := run cfg env r.lib ops r.w
    (rest.1, r.out :: rest.2.1, r.events ++ rest.2.2.1, rest.2.2.2)

end Polyseed
