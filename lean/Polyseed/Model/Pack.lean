import Polyseed.Model.Types
import Polyseed.Model.Birthday
import Polyseed.Model.Features
/-!
# `gf.c`: `polyseed_data_to_poly` / `polyseed_poly_to_data`

Loop-for-loop transcription of the two chunking loops (local variables become a
state record, `while` becomes fuel-bounded recursion; the fuel is never
exhausted, which `Lemmas/Pack` proves by computing the closed form).
-/
namespace Polyseed

def SHARE_BITS : Nat := 10
def DATA_WORDS : Nat := 15
def SECRET_BITS : Nat := 150
def SECRET_SIZE : Nat := 19
def SECRET_BUFFER_SIZE : Nat := 32
/-- `CLEAR_MASK` as a `uint8_t` value (0x3F). -/
def CLEAR_MASK : Nat := 63

structure PackSt where
  wordBits : Nat
  wordVal : Nat
  secretIdx : Nat
  secretVal : Nat
  secretBits : Nat
  seedRemBits : Nat
deriving Repr

/-- the `while (word_bits < SHARE_BITS)` loop of `polyseed_data_to_poly`. -/
def packInner (secret : List Nat) : Nat → PackSt → PackSt
  | 0, s => s
  | fuel + 1, s =>
    if s.wordBits < SHARE_BITS then
      let s1 : PackSt :=
        if s.secretBits = 0 then
          let sb := min s.seedRemBits 8
          { s with secretIdx := s.secretIdx + 1, secretBits := sb,
                   secretVal := secret.getD (s.secretIdx + 1) 0,
                   seedRemBits := s.seedRemBits - sb }
        else s
      let chunk := min s1.secretBits (SHARE_BITS - s1.wordBits)
      let sb := s1.secretBits - chunk
      packInner secret fuel
        { s1 with secretBits := sb, wordBits := s1.wordBits + chunk,
                  wordVal := (s1.wordVal <<< chunk) ||| ((s1.secretVal >>> sb) &&& ((1 <<< chunk) - 1)) }
    else s

/-- the `for (i < DATA_WORDS)` loop; returns coefficients 1..15 in order. -/
def packOuter (secret : List Nat) (extraVal : Nat) : Nat → Nat → PackSt → List Nat
  | 0, _, _ => []
  | n + 1, extraBits, s =>
    let s1 := packInner secret 11 s
    let eb := extraBits - 1
    let w := (s1.wordVal <<< 1) ||| ((extraVal >>> eb) &&& 1)
    w :: packOuter secret extraVal n eb { s1 with wordVal := 0, wordBits := 0 }

/-- `polyseed_data_to_poly`: coefficients 1..15 (coefficient 0 is left to the caller, as in C). -/
def dataToPoly (d : Data) : List Nat :=
  let extraVal := (d.features <<< DATE_BITS) ||| d.birthday
  packOuter d.secret extraVal DATA_WORDS (FEATURE_BITS + DATE_BITS)
    { wordBits := 0, wordVal := 0, secretIdx := 0, secretVal := d.secret.getD 0 0,
      secretBits := 8, seedRemBits := SECRET_BITS - 8 }

structure UnpackSt where
  secret : List Nat
  secretIdx : Nat
  secretBits : Nat
  wordBits : Nat
deriving Repr

/-- the `while (word_bits > 0)` loop of `polyseed_poly_to_data`. -/
def unpackInner (wordVal : Nat) : Nat → UnpackSt → UnpackSt
  | 0, s => s
  | fuel + 1, s =>
    if 0 < s.wordBits then
      let s1 : UnpackSt :=
        if s.secretBits = 8 then { s with secretIdx := s.secretIdx + 1, secretBits := 0 } else s
      let chunk := min s1.wordBits (8 - s1.secretBits)
      let wb := s1.wordBits - chunk
      let mask := (1 <<< chunk) - 1
      let cur := s1.secret.getD s1.secretIdx 0
      let cur1 := if chunk < 8 then (cur <<< chunk) % 256 else cur
      let cur2 := cur1 ||| ((wordVal >>> wb) &&& mask)
      unpackInner wordVal fuel
        { s1 with secret := s1.secret.set s1.secretIdx cur2, wordBits := wb, secretBits := s1.secretBits + chunk }
    else s

/-- the `for` loop over coefficients 1..15: returns (secret, extra_val). -/
def unpackOuter : List Nat → Nat → UnpackSt → List Nat × Nat
  | [], extraVal, s => (s.secret, extraVal)
  | c :: cs, extraVal, s =>
    let ev := (extraVal <<< 1) ||| (c &&& 1)
    let s1 := unpackInner (c >>> 1) 11 { s with wordBits := 10 }
    unpackOuter cs ev s1

/-- `polyseed_poly_to_data` on `coeff[0..15]`. -/
def polyToData (p : List Nat) : Data :=
  let (secret, extraVal) := unpackOuter p.tail 0
    { secret := List.replicate SECRET_BUFFER_SIZE 0, secretIdx := 0, secretBits := 0, wordBits := 0 }
  { birthday := extraVal &&& DATE_MASK,
    features := extraVal >>> DATE_BITS,
    secret := secret,
    checksum := p.headD 0 }

end Polyseed
