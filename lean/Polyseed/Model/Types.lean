/-!
# Basic types of the concrete model `CM`

Bytes are `Nat` (invariant `< 256`), C strings are `List Nat` without the
terminator.  Nothing in `Model/` imports Mathlib, so the line-protocol driver
links as a `lean_exe`.
-/
namespace Polyseed

/-- `polyseed_status` (numbering checked against the header by `Gen.Consts`). -/
inductive Status where
  | ok | numWords | lang | checksum | unsupported | format | memory | multLang
deriving DecidableEq, Repr, Inhabited

def Status.toNat : Status → Nat
  | .ok => 0 | .numWords => 1 | .lang => 2 | .checksum => 3
  | .unsupported => 4 | .format => 5 | .memory => 6 | .multLang => 7

/-- `struct polyseed_lang` of `lang.h`. -/
structure Lang where
  name : List Nat
  nameEn : List Nat
  sep : List Nat
  isSorted : Bool
  hasPrefix : Bool
  hasAccents : Bool
  compose : Bool
  words : Array (List Nat)
deriving DecidableEq, Inhabited

/-- `struct polyseed_data` of `storage.h`. `secret` has `SECRET_BUFFER_SIZE = 32` bytes. -/
structure Data where
  birthday : Nat
  features : Nat
  secret : List Nat
  checksum : Nat
deriving DecidableEq, Repr, Inhabited

end Polyseed
