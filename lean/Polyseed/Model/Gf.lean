import Polyseed.Model.Types
/-!
# `gf.h`: GF(2048) arithmetic, as the C code computes it

`gf_elem` is `uint_fast16_t`; every value that reaches these functions is
`< 2048` (word indices, `coin`, `v2 & GF_MASK`), so `Nat` is exact.
-/
namespace Polyseed

/-- `polyseed_mul2_table` (gf.c). -/
def mul2Table : List Nat := [5, 7, 1, 3, 13, 15, 9, 11]

/-- `gf_elem_mul2`. -/
def mul2 (x : Nat) : Nat :=
  if x < 1024 then 2 * x
  else mul2Table.getD (x % 8) 0 + 16 * ((x - 1024) / 8)

/-- `gf_poly_eval`: Horner at x = 2; `coeff[0]` is the head of the list. -/
def polyEval : List Nat → Nat
  | [] => 0
  | c :: cs => mul2 (polyEval cs) ^^^ c

/-- `gf_poly_encode`: overwrite `coeff[0]` with the evaluation (of the polynomial including the old `coeff[0]`). -/
def polyEncode (p : List Nat) : List Nat :=
  match p with
  | [] => []
  | _ :: cs => polyEval p :: cs

/-- `gf_poly_check`. -/
def polyCheck (p : List Nat) : Bool := polyEval p == 0

end Polyseed
