import Polyseed.Lemmas.Gf
/-!
# C02 — the checksum catches every single-word error and every swap of two words

Stated on coefficient vectors (the 16 word indices after the coin has been
removed); `Props/C02Phrase.lean` lifts it to phrases through the word lookup.
All statements are for EVERY polynomial, not for samples: they follow from
XOR-linearity of `gf_poly_eval` and two kernel-evaluated facts about the 2048
field elements (`mul2` is the field's multiplication by x; no short cycles).
-/
namespace Polyseed.C02

/-- Replacing any one coefficient of a valid polynomial by a different field element invalidates it. -/
theorem single_error (p : List Nat) (hp : Coeffs p) (hc : polyCheck p = true)
    (i : Nat) (hi : i < p.length) (v : Nat) (hv : v < 2048) (hne : v ≠ p[i]) :
    polyCheck (p.set i v) = false := by
  unfold polyCheck at *
  have h0 : polyEval p = 0 := by simpa using hc
  rw [polyEval_set p hp i hi v hv, h0, Nat.zero_xor]
  have hd : v ^^^ p[i] < 2048 := Nat.xor_lt_two_pow (n := 11) hv (hp _ (List.getElem_mem hi))
  apply Bool.eq_false_iff.mpr
  intro h
  have hz : mul2Iter i (v ^^^ p[i]) = 0 := by simpa using h
  exact hne (xor_eq_zero (mul2Iter_eq_zero i _ hd hz))

/-- exchanging the coefficients at positions `i < j` -/
def swap (p : List Nat) (i j : Nat) : List Nat := (p.set i (p.getD j 0)).set j (p.getD i 0)

/-- Exchanging two unequal coefficients of a valid polynomial (16 positions, so distance ≤ 15) invalidates it. -/
theorem swap_error (p : List Nat) (hp : Coeffs p) (hlen : p.length ≤ 16) (hc : polyCheck p = true)
    (i j : Nat) (hij : i < j) (hj : j < p.length) (hne : p.getD i 0 ≠ p.getD j 0) :
    polyCheck (swap p i j) = false := by
  have hi : i < p.length := by omega
  have gi : p.getD i 0 = p[i] := by simp [List.getD, hi]
  have gj : p.getD j 0 = p[j] := by simp [List.getD, hj]
  have hpi : p[i] < 2048 := hp _ (List.getElem_mem hi)
  have hpj : p[j] < 2048 := hp _ (List.getElem_mem hj)
  have hne' : p[i] ≠ p[j] := by rw [← gi, ← gj]; exact hne
  unfold polyCheck swap at *
  have h0 : polyEval p = 0 := by simpa using hc
  rw [gi, gj]
  have hp1 : Coeffs (p.set i p[j]) := by
    intro c hc'
    rcases List.mem_or_eq_of_mem_set hc' with h | h
    · exact hp c h
    · rw [h]; exact hpj
  have hj1 : j < (p.set i p[j]).length := by simpa using hj
  rw [polyEval_set _ hp1 j hj1 _ hpi, polyEval_set p hp i hi _ hpj, h0, Nat.zero_xor]
  have e : (p.set i p[j])[j] = p[j] := by
    rw [List.getElem_set_ne (by omega)]
  rw [e, Nat.xor_comm p[i] p[j]]
  have hd : p[j] ^^^ p[i] < 2048 := Nat.xor_lt_two_pow (n := 11) hpj hpi
  apply Bool.eq_false_iff.mpr
  intro h
  have hnz0 : p[j] ^^^ p[i] ≠ 0 := fun h' => hne' (xor_eq_zero h').symm
  have hz := xor_eq_zero (by simpa using h : mul2Iter i (p[j] ^^^ p[i]) ^^^ mul2Iter j (p[j] ^^^ p[i]) = 0)
  generalize p[j] ^^^ p[i] = δ at hz hd hnz0
  have hjk : j = i + (j - i) := by omega
  rw [hjk, mul2Iter_add] at hz
  have := mul2Iter_inj i _ _ hd (mul2Iter_lt _ _ hd) hz
  exact mul2_no_short_cycle _ hd hnz0 (j - i) (by omega) (by omega) this.symm

/-- For any data words there is exactly one check word that validates: a missing first word is recoverable. -/
theorem unique_check_word (data : List Nat) (hd : Coeffs data) :
    ∃ c0, c0 < 2048 ∧ polyCheck (c0 :: data) = true ∧ ∀ c, polyCheck (c :: data) = true → c = c0 := by
  refine ⟨mul2 (polyEval data), mul2_lt _ (polyEval_lt data hd), ?_, ?_⟩
  · simp [polyCheck, polyEval]
  · intro c h
    have : mul2 (polyEval data) ^^^ c = 0 := by simpa [polyCheck, polyEval] using h
    exact (xor_eq_zero this).symm

/-- the check word `gf_poly_encode` computes is that unique word. -/
theorem encode_checks (data : List Nat) : polyCheck (polyEncode (0 :: data)) = true := by
  simp [polyEncode, polyCheck, polyEval]

/-- more generally: a missing word at ANY position is recoverable (at most one value validates). -/
theorem unique_word_at (p : List Nat) (hp : Coeffs p) (i : Nat) (hi : i < p.length)
    (v w : Nat) (hv : v < 2048) (hw : w < 2048)
    (h1 : polyCheck (p.set i v) = true) (h2 : polyCheck (p.set i w) = true) : v = w := by
  apply Decidable.byContradiction
  intro hne
  have hp1 : Coeffs (p.set i v) := by
    intro c hc'
    rcases List.mem_or_eq_of_mem_set hc' with h | h
    · exact hp c h
    · rw [h]; exact hv
  have := single_error (p.set i v) hp1 h1 i (by simpa using hi) w hw (by simpa using fun h => hne h.symm)
  rw [List.set_set] at this
  rw [h2] at this
  exact Bool.noConfusion this

/-- non-vacuity: the first published test vector is a valid polynomial of 16 field elements. -/
example : polyCheck [1427, 1770, 1756, 922, 820, 110, 1446, 998, 542, 1926, 1656, 1044, 842, 1392, 44, 999] = true ∧
    Coeffs [1427, 1770, 1756, 922, 820, 110, 1446, 998, 542, 1926, 1656, 1044, 842, 1392, 44, 999] := by
  constructor
  · decide
  · intro c hc; simp at hc; omega

end Polyseed.C02
