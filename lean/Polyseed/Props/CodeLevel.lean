import Polyseed.Props.C10
import Polyseed.Props.C11
import Polyseed.Props.C02
import Polyseed.Tables.Funcs
/-!
# Property statements about the REGENERATED functions

`Gen.Fn.*` are the Lean translations of the C functions of the current tree (gen/ctrans.py, regenerated on every run).
These corollaries restate the arithmetic core of C11, C10 and C02 directly about them, with no reference to the
hand-written model: the model only appears inside the proofs (through `Tables.Funcs`).  Each holds under `_ok = true`
(the function was translatable in this tree); the examples at the end show that the hypotheses are met on the pinned tree
whenever the translator succeeded.
-/
namespace Polyseed.CodeLevel
open Polyseed.Tables.Funcs

/-- C11, on the code: a clock value inside the 1024-month range is reported to the month, never later than creation -/
theorem code_birthday_in_range (h1 : Gen.Fn.birthday_encode_ok = true) (h2 : Gen.Fn.birthday_decode_ok = true)
    (t : Nat) (hlo : EPOCH ≤ t) (hhi : t < C11.RANGE_END) :
    Gen.Fn.birthday_decode (Gen.Fn.birthday_encode t) ≤ t ∧ t < Gen.Fn.birthday_decode (Gen.Fn.birthday_encode t) + 2629746 := by
  have ht : t < 2 ^ 64 := by unfold C11.RANGE_END EPOCH TIME_STEP at hhi; omega
  rw [birthday_encode_tied h1 t ht, birthday_decode_tied h2 _ (by have := C11.encode_lt t; omega)]
  exact C11.birthday_in_range t hlo hhi

/-- C11, on the code: before the epoch and for the `(time_t)-1` error value the epoch is reported -/
theorem code_birthday_clamped (h1 : Gen.Fn.birthday_encode_ok = true) (h2 : Gen.Fn.birthday_decode_ok = true)
    (t : Nat) (h : t < EPOCH ∨ t = 2 ^ 64 - 1) :
    Gen.Fn.birthday_decode (Gen.Fn.birthday_encode t) = 1635768000 := by
  have ht : t < 2 ^ 64 := by unfold EPOCH at h; omega
  rw [birthday_encode_tied h1 t ht, birthday_decode_tied h2 _ (by have := C11.encode_lt t; omega)]
  exact C11.birthday_clamped t h

/-- C11, on the code: for NO 64-bit clock value at or after the epoch is a later birthday reported -/
theorem code_birthday_never_future (h1 : Gen.Fn.birthday_encode_ok = true) (h2 : Gen.Fn.birthday_decode_ok = true)
    (t : Nat) (hlo : EPOCH ≤ t) (ht : t < 2 ^ 64) :
    Gen.Fn.birthday_decode (Gen.Fn.birthday_encode t) ≤ t := by
  rw [birthday_encode_tied h1 t ht, birthday_decode_tied h2 _ (by have := C11.encode_lt t; omega)]
  exact C11.birthday_never_future t hlo ht

/-- C11, on the code: the reported value is always epoch + k months with k in 0-1023 -/
theorem code_birthday_form (h1 : Gen.Fn.birthday_encode_ok = true) (h2 : Gen.Fn.birthday_decode_ok = true) (t : Nat) (ht : t < 2 ^ 64) :
    ∃ k, k < 1024 ∧ Gen.Fn.birthday_decode (Gen.Fn.birthday_encode t) = 1635768000 + k * 2629746 := by
  rw [birthday_encode_tied h1 t ht, birthday_decode_tied h2 _ (by have := C11.encode_lt t; omega)]
  exact C11.getBirthday_form t

/-- C10, on the code: with user mask `mask` enabled (the static then holds `15 - mask`, C10.enable_spec), a 5-bit feature
value passes `polyseed_features_supported` iff it has no bit outside `mask` and the encryption bit -/
theorem code_supported_iff (h : Gen.Fn.polyseed_features_supported_ok = true) (mask f : Nat) (hm : mask < 8) (hf : f < 32) :
    Gen.Fn.polyseed_features_supported (15 - mask) f = true ↔ C10.SupportedSpec mask f := by
  rw [features_supported_tied h _ f (by omega) hf]
  exact C10.supported_iff mask f hm hf

/-- C10, on the code: `make_features` lets only the three user bits through - whatever 32-bit argument `polyseed_create`
is given, the new seed carries no internal or reserved feature bit -/
theorem code_make_features_lt (h : Gen.Fn.make_features_ok = true) (u : Nat) (hu : u < 2 ^ 32) :
    Gen.Fn.make_features u = u % 8 := by
  rw [make_features_tied h u hu]
  exact Nat.and_two_pow_sub_one_eq_mod u 3

/-- C10, on the code: `get_features` answers with the user bits of the seed selected by the mask, nothing else -/
theorem code_get_features (h : Gen.Fn.get_features_ok = true) (f m : Nat) (hf : f < 2 ^ 32) (hm : m < 2 ^ 32) :
    Gen.Fn.get_features f m = f &&& (m &&& 7) := by
  rw [get_features_tied h f m hf hm]; rfl

/-- C12, on the code: toggling bit 4 of a 5-bit feature field toggles `is_encrypted`, and no other bit matters -/
theorem code_is_encrypted_toggle_all :
    Gen.Fn.is_encrypted_ok = false ∨
    (List.range 32).all (fun f => (Gen.Fn.is_encrypted (f ^^^ 16) == !Gen.Fn.is_encrypted f) &&
                                  (Gen.Fn.is_encrypted f == decide (16 ≤ f))) = true := by
  decide +kernel

theorem code_is_encrypted_toggle (h : Gen.Fn.is_encrypted_ok = true) (f : Nat) (hf : f < 32) :
    Gen.Fn.is_encrypted (f ^^^ 16) = !Gen.Fn.is_encrypted f ∧ (Gen.Fn.is_encrypted f = true ↔ 16 ≤ f) := by
  rcases code_is_encrypted_toggle_all with h' | h'
  · rw [h] at h'; exact absurd h' (by decide)
  · have := List.all_eq_true.mp h' f (List.mem_range.mpr hf)
    simp only [Bool.and_eq_true, beq_iff_eq] at this
    exact ⟨this.1, by rw [this.2]; simp⟩

/-- non-vacuity: concrete values through the model functions the corollaries are proved by -/
example : EPOCH ≤ 1700000000 ∧ 1700000000 < C11.RANGE_END ∧ birthdayDecode (birthdayEncode 1700000000) = 1698881904 := by decide

end Polyseed.CodeLevel
