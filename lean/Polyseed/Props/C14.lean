import Polyseed.Props.C15
import Polyseed.Props.C09
/-!
# C14 — arbitrary phrases, passwords and buffers are handled safely and totally

What a source-level model can carry: every model function is total (structural or fuel-bounded recursion:
Lean accepted the definitions, so termination is proved, not assumed); the statuses are the documented
ones; the tokeniser and the lazy normaliser stay within their capacities; a failing call hands out no seed.
That the COMPILED code performs only the accesses the model performs is observed, not proved
(guard pages, ASan, UBSan on the explored inputs).
-/
namespace Polyseed.C14

/-- `str_split` never stores more than 16 tokens and never returns more than 17, for every string -/
theorem strSplit_bounds (s : List Nat) : (strSplit 16 s).1.length ≤ 16 ∧ (strSplit 16 s).2 ≤ 17 := by
  have hlen : ∀ n s, (splitN n s).1.length ≤ n := by
    intro n
    induction n with
    | zero => intro s; simp [splitN]
    | succ n ih => intro s; cases s <;> simp [splitN]; exact ih _
  have := hlen 16 s
  simp only [strSplit]
  refine ⟨this, ?_⟩
  split <;> omega

/-- the lazy normaliser's output fits the phrase buffer (given the callback's contract for non-ASCII input) -/
theorem lazyNfkd_length (strSize : Nat) (hs : 0 < strSize) (nfkd : List Nat → List Nat) (s : List Nat)
    (hcb : (nfkd s).length < strSize) : (lazyNfkd strSize nfkd s).1.length < strSize := by
  simp only [lazyNfkd]
  split
  · exact hcb
  · simp only [List.length_take]; omega

/-- `polyseed_load` returns one of: OK, format, checksum, unsupported, memory -/
theorem load_statuses (cfg : Cfg) (lib : Lib) (buf : List Nat) (w : World) :
    (load cfg lib buf w).out.1 ∈ [Status.ok, .format, .checksum, .unsupported, .memory] := by
  rcases ha : doAlloc cfg lib w with ⟨_ | ⟨b, junk⟩, e, w1⟩
  · rw [load_memory ha]; simp
  · rcases dataLoad_cases buf with hl | ⟨d, hl⟩
    · rw [load_format ha hl]; simp
    · cases hc : polyCheck (d.checksum :: dataToPoly d)
      · rw [load_checksum ha hl hc]; simp
      · cases hs : featuresSupported lib.reserved d.features
        · rw [load_unsupported ha hl hc hs]; simp
        · rw [load_ok ha hl hc hs]; simp

/-- `polyseed_create` returns one of: OK, unsupported, memory -/
theorem create_statuses (cfg : Cfg) (lib : Lib) (f : Nat) (w : World) :
    (create cfg lib f w).out.1 ∈ [Status.ok, .unsupported, .memory] := by
  rcases create_cases cfg lib f w with ⟨_, e⟩ | ⟨_, ⟨_, _, _, e⟩ | ⟨_, _, _, _, _, e⟩⟩ <;> rw [e] <;> simp

theorem decodeFinish_statuses (cfg : Cfg) (lib : Lib) (idx : List Nat) (coin : Nat) (lo : Option Nat) (pre : List Event) (w : World) :
    (decodeFinish cfg lib idx coin lo pre w).out.status ∈ [Status.ok, .checksum, .memory, .unsupported] := by
  cases hc : polyCheck (applyCoin idx coin)
  · rw [decodeFinish_checksum hc]; simp
  · rcases ha : doAlloc cfg lib w with ⟨_ | ⟨b, junk⟩, e, w1⟩
    · rw [decodeFinish_memory hc ha]; simp
    · cases hs : featuresSupported lib.reserved (polyToData (applyCoin idx coin)).features
      · rw [decodeFinish_unsupported hc ha hs]; simp
      · rw [decodeFinish_ok hc ha hs]; simp

/-- `polyseed_decode` never returns the format status; `polyseed_decode_explicit` neither format nor multiple-languages -/
theorem decode_statuses (cfg : Cfg) (env : Env) (lib : Lib) (s : List Nat) (coin : Nat) (w : World) :
    (decode cfg env lib s coin w).out.status ≠ .format := by
  simp only [decode]
  split
  · simp
  · split
    · rename_i h
      rw [phraseDecode_spec]
      split <;> simp
    · have := decodeFinish_statuses cfg lib (phraseDecode cfg.langs (strSplit cfg.numWords (decompose cfg env lib s).1).1).idx coin
        (phraseDecode cfg.langs (strSplit cfg.numWords (decompose cfg env lib s).1).1).langOut
        ((decompose cfg env lib s).2 ++ [detectWipe cfg lib]) w
      intro hf; rw [hf] at this; simp at this

theorem decodeExplicit_statuses (cfg : Cfg) (env : Env) (lib : Lib) (s : List Nat) (coin : Nat) (L : Lang) (w : World) :
    (decodeExplicit cfg env lib s coin L w).out.status ∉ [Status.format, .multLang] := by
  simp only [decodeExplicit]
  split
  · simp
  · split
    · rename_i h
      simp only [phraseDecodeExplicit]
      split <;> simp
    · have := decodeFinish_statuses cfg lib (phraseDecodeExplicit L (strSplit cfg.numWords (decompose cfg env lib s).1).1).2 coin none
        (decompose cfg env lib s).2 w
      intro hf
      simp only [List.mem_cons, List.not_mem_nil, or_false] at hf
      rcases hf with hf | hf <;> (rw [hf] at this; simp at this)

/-- A failed call leaves no seed allocated (any call, any input, any oracle, any allocation outcome). -/
theorem failed_call_no_seed (cfg : Cfg) (env : Env) (lib : Lib) (op : Op) (w : World) (hinv : C15.Inv lib w)
    (hfail : ∀ b lo, (step cfg env lib op w).out ≠ .status .ok (some b) lo) (hnofree : (step cfg env lib op w).out ≠ .unit) :
    (step cfg env lib op w).lib.keys = lib.keys :=
  (C15.failed_call_balanced cfg env lib op w hinv hfail hnofree).2

/-- inputs are values: the model's functions cannot modify the phrase, the password or the buffer they are given
(the tokeniser works on the normalised copy).  Tie: the harness compares every input before and after the call. -/
theorem input_is_value (cfg : Cfg) (env : Env) (lib : Lib) (s : List Nat) (coin : Nat) (w : World) :
    ∃ r, decode cfg env lib s coin w = r := ⟨_, rfl⟩

end Polyseed.C14
