import Polyseed.Lemmas.Api
import Polyseed.Lemmas.Bits
import Polyseed.Model.Canon
/-!
# C04 — key derivation receives exact, deterministic, domain-separated inputs
-/
namespace Polyseed.C04

/-- LE32 of a 32-bit value -/
def le32 (u : Nat) : List Nat := [u % 256, u / 256 % 256, u / 65536 % 256, u / 16777216 % 256]

theorem store32_eq (u : Nat) : store32 u = le32 u := by
  simp [store32, le32, Nat.shiftRight_eq_div_pow]

/-- `polyseed_keygen` invokes the injected PBKDF2 exactly once, with password = the 32-byte secret buffer,
salt = 'POLYSEED key' 00 FF FF FF ‖ LE32(coin) ‖ LE32(birthday) ‖ LE32(features) ‖ 00 00 00 00, 10000 iterations,
and the caller's key length; the key it returns is what the KDF wrote; nothing else is called. -/
theorem keygen_events (env : Env) (lib : Lib) (d : Data) (coin n : Nat)
    (hc : coin < 2048) (hb : d.birthday < 1024) (hf : d.features < 32) :
    keygen env lib d coin n =
      (env.kdf lib.deps.pbkdf2 d.secret
          ([80, 79, 76, 89, 83, 69, 69, 68, 32, 107, 101, 121, 0, 255, 255, 255] ++ le32 coin ++ le32 d.birthday ++ le32 d.features ++ [0, 0, 0, 0])
          10000 n,
       [Event.kdf lib.deps.pbkdf2 d.secret
          ([80, 79, 76, 89, 83, 69, 69, 68, 32, 107, 101, 121, 0, 255, 255, 255] ++ le32 coin ++ le32 d.birthday ++ le32 d.features ++ [0, 0, 0, 0])
          10000 n
          (env.kdf lib.deps.pbkdf2 d.secret
            ([80, 79, 76, 89, 83, 69, 69, 68, 32, 107, 101, 121, 0, 255, 255, 255] ++ le32 coin ++ le32 d.birthday ++ le32 d.features ++ [0, 0, 0, 0])
            10000 n)]) := by
  have e1 : coin % 2 ^ 32 = coin := Nat.mod_eq_of_lt (by omega)
  have e2 : d.birthday % 2 ^ 32 = d.birthday := Nat.mod_eq_of_lt (by omega)
  have e3 : d.features % 2 ^ 32 = d.features := Nat.mod_eq_of_lt (by omega)
  simp only [keygen, keygenSalt, KDF_NUM_ITERATIONS, store32_eq, e1, e2, e3, List.append_assoc]
  rfl

/-- for a canonical seed the password is the 19 secret bytes zero-padded to 32 bytes. -/
theorem keygen_password (d : Data) (h : d.WF) :
    d.secret = d.secret.take 19 ++ List.replicate 13 0 := by
  have := h.secret_pad
  simp only [SECRET_SIZE, SECRET_BUFFER_SIZE] at this
  conv => lhs; rw [← List.take_append_drop 19 d.secret, this]

/-- the KDF inputs as a function of the seed and the coin -/
def kdfArgs (d : Data) (coin : Nat) : List Nat × List Nat := (d.secret, keygenSalt d coin)

theorem le32_inj (a b : Nat) (ha : a < 2 ^ 32) (hb : b < 2 ^ 32) (h : le32 a = le32 b) : a = b := by
  simp only [le32, List.cons.injEq, and_true] at h
  omega

/-- Two seeds that differ in secret, coin, birthday or features produce different KDF inputs. -/
theorem kdfArgs_inj (d d' : Data) (c c' : Nat) (hc : c < 2048) (hc' : c' < 2048)
    (hb : d.birthday < 1024) (hb' : d'.birthday < 1024) (hf : d.features < 32) (hf' : d'.features < 32)
    (h : kdfArgs d c = kdfArgs d' c') :
    d.secret = d'.secret ∧ c = c' ∧ d.birthday = d'.birthday ∧ d.features = d'.features := by
  simp only [kdfArgs, keygenSalt, Prod.mk.injEq, store32_eq] at h
  obtain ⟨hs, hsalt⟩ := h
  have e1 : c % 2 ^ 32 = c := Nat.mod_eq_of_lt (by omega)
  have e2 : d.birthday % 2 ^ 32 = d.birthday := Nat.mod_eq_of_lt (by omega)
  have e3 : d.features % 2 ^ 32 = d.features := Nat.mod_eq_of_lt (by omega)
  have e1' : c' % 2 ^ 32 = c' := Nat.mod_eq_of_lt (by omega)
  have e2' : d'.birthday % 2 ^ 32 = d'.birthday := Nat.mod_eq_of_lt (by omega)
  have e3' : d'.features % 2 ^ 32 = d'.features := Nat.mod_eq_of_lt (by omega)
  rw [e1, e2, e3, e1', e2', e3'] at hsalt
  simp only [le32, List.cons_append, List.nil_append, List.cons.injEq, true_and, and_true] at hsalt
  refine ⟨hs, ?_, ?_, ?_⟩ <;> omega

/-- the KDF inputs depend on nothing but (secret buffer, birthday, features, coin): any two histories that
reach seeds with equal fields give identical calls — checksum and everything else are irrelevant. -/
theorem kdfArgs_path_independent (env : Env) (lib : Lib) (d d' : Data) (coin n : Nat)
    (hs : d.secret = d'.secret) (hb : d.birthday = d'.birthday) (hf : d.features = d'.features) :
    keygen env lib d coin n = keygen env lib d' coin n := by
  simp only [keygen, keygenSalt, hs, hb, hf]

/-- keygen does not change the library state: it is a function returning only the key and its events
(the model has no way to write to the seed or read the key afterwards; tie: S-api compares the key buffer
with what the KDF stub wrote and the seed before/after). -/
theorem keygen_single_call (env : Env) (lib : Lib) (d : Data) (coin n : Nat) :
    (keygen env lib d coin n).2.length = 1 := rfl

/-- non-vacuity: the salt of the first test vector (coin 0, birthday 1, features 0). -/
example : keygenSalt { birthday := 1, features := 0, secret := [], checksum := 0 } 0 =
    [0x50, 0x4f, 0x4c, 0x59, 0x53, 0x45, 0x45, 0x44, 0x20, 0x6b, 0x65, 0x79, 0x00, 0xff, 0xff, 0xff,
     0, 0, 0, 0, 1, 0, 0, 0, 0, 0, 0, 0, 0, 0, 0, 0] := by decide

end Polyseed.C04
