import Polyseed.Lemmas.Api
import Polyseed.Lemmas.Storage
import Polyseed.Lemmas.Bits
/-!
# C11 — the wallet birthday is never later than creation and accurate to one month

Theorems about `birthdayEncode` / `birthdayDecode` (the model of `birthday.h`,
tied to the code by suite S-bday) for EVERY 64-bit clock value, and about the
API functions that carry the birthday.
-/
namespace Polyseed.C11
/-- end of the 1024-month range: 3 March 2107 20:38:24 UTC -/
def RANGE_END : Nat := EPOCH + 1024 * TIME_STEP

example : RANGE_END = 4328627904 := by decide

theorem encode_lt (t : Nat) : birthdayEncode t < 1024 := by
  unfold birthdayEncode; split
  · omega
  · rw [show DATE_MASK = 1023 from rfl, and_1023]; omega

theorem birthday_form (b : Nat) (hb : b < 1024) :
    birthdayDecode b = EPOCH + b * TIME_STEP ∧ EPOCH + b * TIME_STEP < 2 ^ 64 := by
  unfold birthdayDecode EPOCH TIME_STEP
  omega

theorem encode_eq (t : Nat) (h1 : EPOCH ≤ t) (h2 : t ≠ 2 ^ 64 - 1) :
    birthdayEncode t = ((t - EPOCH) / TIME_STEP) % 1024 := by
  unfold birthdayEncode
  have ht : ¬ (t = 2 ^ 64 - 1 ∨ t < EPOCH) := by omega
  rw [if_neg ht, show DATE_MASK = 1023 from rfl, and_1023]

theorem birthday_in_range (t : Nat) (h1 : EPOCH ≤ t) (h2 : t < RANGE_END) :
    birthdayDecode (birthdayEncode t) ≤ t ∧ t < birthdayDecode (birthdayEncode t) + TIME_STEP := by
  rw [(birthday_form _ (encode_lt t)).1, encode_eq t h1 (by unfold RANGE_END EPOCH TIME_STEP at h2; omega)]
  unfold RANGE_END EPOCH TIME_STEP at *
  omega

theorem birthday_clamped (t : Nat) (h : t < EPOCH ∨ t = 2 ^ 64 - 1) :
    birthdayDecode (birthdayEncode t) = EPOCH := by
  have : birthdayEncode t = 0 := by
    unfold birthdayEncode
    have : (t = 2 ^ 64 - 1 ∨ t < EPOCH) := by omega
    rw [if_pos this]
  rw [this]; rfl

theorem birthday_never_future (t : Nat) (h1 : EPOCH ≤ t) (h2 : t < 2 ^ 64) :
    birthdayDecode (birthdayEncode t) ≤ t := by
  by_cases hmax : t = 2 ^ 64 - 1
  · rw [birthday_clamped t (Or.inr hmax)]; exact h1
  · rw [(birthday_form _ (encode_lt t)).1, encode_eq t h1 hmax]
    unfold EPOCH TIME_STEP at *
    omega

theorem getBirthday_form (t : Nat) :
    ∃ k, k < 1024 ∧ birthdayDecode (birthdayEncode t) = EPOCH + k * TIME_STEP :=
  ⟨birthdayEncode t, encode_lt t, (birthday_form _ (encode_lt t)).1⟩

/-- `polyseed_create` stores exactly `birthday_encode(clock)` where `clock` is the injected clock's answer. -/
theorem create_birthday (cfg : Cfg) (lib : Lib) (f : Nat) (w : World) (b : Nat) (d : Data)
    (h : (create cfg lib f w).out = (.ok, some b)) (hd : (create cfg lib f w).lib.get b = some d) :
    ∃ a e w1, doAlloc cfg lib w = (some a, e, w1) ∧ d.birthday = birthdayEncode (w1.times.headD 0) ∧
      Event.time lib.deps.time (w1.times.headD 0) ∈ (create cfg lib f w).events := by
  rcases create_cases cfg lib f w with ⟨_, e⟩ | ⟨_, ⟨_, _, _, e⟩ | ⟨b', junk, ev, w1, ha, e⟩⟩
  · rw [e] at h; simp at h
  · rw [e] at h; simp at h
  · rw [e] at h hd ⊢
    simp only [Prod.mk.injEq, Option.some.injEq, true_and] at h
    subst h
    simp only [Lib.get, Lib.put, List.lookup_cons_self, Option.some.injEq] at hd
    exact ⟨(b', junk), ev, w1, ha, by rw [← hd]; rfl, by simp⟩

/-- so the birthday a freshly created seed reports obeys the bounds above for the clock value `t` it was created at. -/
theorem created_seed_birthday (t : Nat) (d : Data) (hd : d.birthday = birthdayEncode t) (h1 : EPOCH ≤ t) (h2 : t < RANGE_END) :
    getBirthday d ≤ t ∧ t < getBirthday d + TIME_STEP := by
  unfold getBirthday; rw [hd]; exact birthday_in_range t h1 h2

/-- the password operation keeps the birthday. -/
theorem crypt_birthday (d : Data) (mask : List Nat) : (cryptData d mask).birthday = d.birthday := rfl

/-- storing and loading keeps the birthday (any well-formed seed). -/
theorem store_load_birthday (d d' : Data) (hwf : d.WF) (h : dataLoad (dataStore d) = (.ok, some d')) :
    getBirthday d' = getBirthday d := by
  rw [dataLoad_dataStore d hwf] at h
  simp only [Prod.mk.injEq, Option.some.injEq, true_and] at h
  rw [h]

/-- non-vacuity: a concrete in-range clock value (1 Dec 2021, the first test vector). -/
example : EPOCH ≤ 1638446400 ∧ 1638446400 < RANGE_END ∧ birthdayEncode 1638446400 = 1 := by decide

end Polyseed.C11
