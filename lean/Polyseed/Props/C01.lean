import Polyseed.Lemmas.PackSpec
import Polyseed.Lemmas.Api
import Polyseed.Lemmas.Decode
import Polyseed.Props.C05
/-!
# C01 — encoding a seed to a phrase and decoding it returns the identical seed

For EVERY canonical seed, coin < 2048 and language whose table passed the kernel-evaluated check.
The injected normalisers enter through one explicit hypothesis (`NormOK`): what the library's
`UTF8_DECOMPOSE` returns for the phrase `polyseed_encode` produced is the 16 words joined by single
spaces.  For phrases without non-ASCII bytes this is proved (`normOK_ascii`); for the others it is a
statement about Unicode data that suite S-norm validates by exhaustive execution over all words.
-/
namespace Polyseed.C01

/-- the phrase `polyseed_encode` returns (model of its output buffer) -/
def encoded (env : Env) (lib : Lib) (L : Lang) (d : Data) (coin : Nat) : List Nat :=
  if L.compose then env.nfc lib.deps.nfc (encodeTmp L d coin) else encodeTmp L d coin

/-- the 16 words of the phrase -/
def phraseWords (L : Lang) (d : Data) (coin : Nat) : List (List Nat) :=
  (encodeCoeffs d coin).map (fun c => L.words.getD c [])

/-- the normaliser hypothesis, for one phrase -/
def NormOK (cfg : Cfg) (env : Env) (lib : Lib) (L : Lang) (d : Data) (coin : Nat) : Prop :=
  (decompose cfg env lib (encoded env lib L d coin)).1 = joinWords [32] (phraseWords L d coin)

/-- `NormOK` holds outright when the language does not compose, separates by a space and the phrase is ASCII. -/
theorem normOK_ascii (cfg : Cfg) (env : Env) (lib : Lib) (L : Lang) (d : Data) (coin : Nat)
    (hc : L.compose = false) (hsep : L.sep = [32])
    (hlen : (encodeTmp L d coin).length < cfg.strSize)
    (hascii : (encodeTmp L d coin).any (isNeg) = false) : NormOK cfg env lib L d coin := by
  unfold NormOK encoded decompose lazyNfkd
  have ht : (encodeTmp L d coin).take (cfg.strSize - 1) = encodeTmp L d coin := List.take_of_length_le (by omega)
  simp only [hc, Bool.false_eq_true, ↓reduceIte, ht, hascii]
  simp only [encodeTmp, phraseWords, hsep]

theorem encodeCoeffs_lt (d : Data) (h : d.WF) (coin : Nat) (hcoin : coin < 2048) : ∀ c ∈ encodeCoeffs d coin, c < 2048 := by
  intro c hc
  unfold encodeCoeffs at hc
  have hlt := dataToPoly_lt d h
  split at hc
  · simp at hc; rw [hc]; exact h.checksum_lt
  · rename_i c1 cs heq
    rw [heq] at hlt
    simp only [List.mem_cons] at hc
    rcases hc with rfl | rfl | hc
    · exact h.checksum_lt
    · exact Nat.xor_lt_two_pow (n := 11) (hlt c1 (by simp)) hcoin
    · exact hlt c (by simp [hc])

theorem applyCoin_encodeCoeffs (d : Data) (h : d.WF) (coin : Nat) :
    applyCoin (encodeCoeffs d coin) coin = d.checksum :: dataToPoly d := by
  unfold encodeCoeffs
  have := dataToPoly_length d h
  split <;> rename_i heq
  · rw [heq] at this; simp at this
  · simp [applyCoin, Nat.xor_assoc, heq]

theorem phraseWords_ok (L : Lang) (hT : TableOK L) (d : Data) (h : d.WF) (coin : Nat) (hcoin : coin < 2048) :
    ∀ w ∈ phraseWords L d coin, w ≠ [] ∧ ∀ b ∈ w, b ≠ 32 := by
  intro w hw
  simp only [phraseWords, List.mem_map] at hw
  obtain ⟨c, hc, rfl⟩ := hw
  have hlt : c < L.words.size := by rw [hT.size]; exact encodeCoeffs_lt d h coin hcoin c hc
  have : L.words.getD c [] = L.words[c] := by simp [Array.getD, hlt]
  rw [this]
  obtain ⟨h1, h2⟩ := hT.bytes L.words[c] (by simp)
  exact ⟨h1, fun b hb => (h2 b hb).2.2⟩

theorem phraseWords_length (L : Lang) (d : Data) (h : d.WF) (coin : Nat) : (phraseWords L d coin).length = 16 := by
  unfold phraseWords encodeCoeffs
  have := dataToPoly_length d h
  split <;> rename_i heq
  · rw [heq] at this; simp at this
  · rw [heq] at this; simp at this ⊢; omega

/-- **Explicit decoding of an encoded phrase succeeds and yields the identical seed** (secret, birthday,
features — hence encryption flag —, check value; consequently identical serialized bytes and KDF inputs,
which are functions of these fields: `C06.store_bytes`, `C04.kdfArgs_path_independent`). -/
theorem decodeExplicit_encode (cfg : Cfg) (env : Env) (lib : Lib) (L : Lang) (d : Data) (coin : Nat) (w w1 : World)
    (e : Event) (b : Nat) (junk : Data)
    (hnw : cfg.numWords = 16) (hT : TableOK L) (hd : d.Canon) (hcoin : coin < 2048)
    (hs : featuresSupported lib.reserved d.features = true)
    (hnorm : NormOK cfg env lib L d coin)
    (ha : doAlloc cfg lib w = (some (b, junk), e, w1)) :
    let r := decodeExplicit cfg env lib (encoded env lib L d coin) coin L w
    r.out.status = .ok ∧ r.out.seed = some b ∧ r.lib.get b = some d := by
  have hwf := hd.toWF
  have hsplit := strSplit_joinWords (phraseWords L d coin) (phraseWords_ok L hT d hwf coin hcoin) 16
    (by rw [phraseWords_length L d hwf coin]; exact Nat.le_refl _)
  rw [phraseWords_length L d hwf coin] at hsplit
  have hfind := findAll_words L hT (encodeCoeffs d coin) (encodeCoeffs_lt d hwf coin hcoin)
  have hchk : polyCheck (applyCoin (encodeCoeffs d coin) coin) = true := by
    rw [applyCoin_encodeCoeffs d hwf coin]; exact (polyCheck_cons_iff _ _).mpr hd.checksum_ok
  have hdata : polyToData (applyCoin (encodeCoeffs d coin) coin) = d := by
    rw [applyCoin_encodeCoeffs d hwf coin]; exact polyToData_dataToPoly d hwf
  unfold NormOK at hnorm
  simp only [decodeExplicit]
  generalize hdec : decompose cfg env lib (encoded env lib L d coin) = dec at hnorm ⊢
  obtain ⟨tmp, pre⟩ := dec
  simp only at hnorm
  subst hnorm
  simp only [hnw, hsplit, phraseDecodeExplicit]
  unfold phraseWords at *
  simp only [hfind, ne_eq, not_true_eq_false, ↓reduceIte]
  have hs' : featuresSupported lib.reserved (polyToData (applyCoin (encodeCoeffs d coin) coin)).features = true := by rw [hdata]; exact hs
  rw [decodeFinish_ok hchk ha hs', hdata]
  exact ⟨rfl, rfl, by simp [Lib.get, Lib.put]⟩

/-- decoding for any other coin fails with the checksum status (C05 lifted to phrases). -/
theorem decodeExplicit_wrong_coin (cfg : Cfg) (env : Env) (lib : Lib) (L : Lang) (d : Data) (a c : Nat) (w : World)
    (hnw : cfg.numWords = 16) (hT : TableOK L) (hd : d.Canon) (ha : a < 2048) (hc : c < 2048) (hac : a ≠ c)
    (hnorm : NormOK cfg env lib L d a) :
    (decodeExplicit cfg env lib (encoded env lib L d a) c L w).out.status = .checksum := by
  have hwf := hd.toWF
  have hsplit := strSplit_joinWords (phraseWords L d a) (phraseWords_ok L hT d hwf a ha) 16
    (by rw [phraseWords_length L d hwf a]; exact Nat.le_refl _)
  rw [phraseWords_length L d hwf a] at hsplit
  have hfind := findAll_words L hT (encodeCoeffs d a) (encodeCoeffs_lt d hwf a ha)
  have hlen : (d.checksum :: dataToPoly d).length = 16 := by simp [dataToPoly_length d hwf]
  have hco : Coeffs (d.checksum :: dataToPoly d) := by
    intro x hx; simp only [List.mem_cons] at hx
    rcases hx with rfl | hx
    · exact hwf.checksum_lt
    · exact dataToPoly_lt d hwf x hx
  have henc : encodeCoeffs d a = applyCoin (d.checksum :: dataToPoly d) a := by
    unfold encodeCoeffs
    have := dataToPoly_length d hwf
    split <;> rename_i heq
    · rw [heq] at this; simp at this
    · simp [applyCoin, heq]
  have hchk : polyCheck (applyCoin (encodeCoeffs d a) c) = false := by
    rw [henc]
    exact C05.wrong_coin _ hco (by omega) ((polyCheck_cons_iff _ _).mpr hd.checksum_ok) a c ha hc hac
  unfold NormOK at hnorm
  simp only [decodeExplicit]
  generalize hdec : decompose cfg env lib (encoded env lib L d a) = dec at hnorm ⊢
  obtain ⟨tmp, pre⟩ := dec
  simp only at hnorm
  subst hnorm
  simp only [hnw, hsplit, phraseDecodeExplicit]
  unfold phraseWords at *
  simp only [hfind, ne_eq, not_true_eq_false, ↓reduceIte]
  rw [decodeFinish_checksum hchk]

/-- **Automatic detection**: yields that same seed together with that same language, or the
'multiple languages' status; never another seed, another language or any other error. -/
theorem decode_encode (cfg : Cfg) (env : Env) (lib : Lib) (li : Nat) (hli : li < cfg.langs.length) (d : Data) (coin : Nat)
    (w w1 : World) (e : Event) (b : Nat) (junk : Data)
    (hnw : cfg.numWords = 16) (hT : TableOK cfg.langs[li]) (hd : d.Canon) (hcoin : coin < 2048)
    (hs : featuresSupported lib.reserved d.features = true)
    (hnorm : NormOK cfg env lib cfg.langs[li] d coin)
    (ha : doAlloc cfg lib w = (some (b, junk), e, w1)) :
    let r := decode cfg env lib (encoded env lib cfg.langs[li] d coin) coin w
    (r.out.status = .ok ∧ r.out.seed = some b ∧ r.out.langOut = some li ∧ r.lib.get b = some d) ∨
    (r.out.status = .multLang ∧ r.out.seed = none ∧ r.lib = lib) := by
  have hwf := hd.toWF
  have hsplit := strSplit_joinWords (phraseWords cfg.langs[li] d coin) (phraseWords_ok _ hT d hwf coin hcoin) 16
    (by rw [phraseWords_length _ d hwf coin]; exact Nat.le_refl _)
  rw [phraseWords_length _ d hwf coin] at hsplit
  have hfind := findAll_words _ hT (encodeCoeffs d coin) (encodeCoeffs_lt d hwf coin hcoin)
  have hchk : polyCheck (applyCoin (encodeCoeffs d coin) coin) = true := by
    rw [applyCoin_encodeCoeffs d hwf coin]; exact (polyCheck_cons_iff _ _).mpr hd.checksum_ok
  have hdata : polyToData (applyCoin (encodeCoeffs d coin) coin) = d := by
    rw [applyCoin_encodeCoeffs d hwf coin]; exact polyToData_dataToPoly d hwf
  have hs' : featuresSupported lib.reserved (polyToData (applyCoin (encodeCoeffs d coin) coin)).features = true := by rw [hdata]; exact hs
  unfold NormOK at hnorm
  simp only [decode]
  generalize hdec : decompose cfg env lib (encoded env lib cfg.langs[li] d coin) = dec at hnorm ⊢
  obtain ⟨tmp, pre⟩ := dec
  simp only at hnorm
  subst hnorm
  simp only [hnw, hsplit, ne_eq, not_true_eq_false, ↓reduceIte]
  have hmem : (li, encodeCoeffs d coin) ∈ matching (phraseWords cfg.langs[li] d coin) cfg.langs 0 :=
    (matching_mem _ cfg.langs 0 li _).mpr ⟨li, hli, by omega, hfind⟩
  rw [phraseDecode_spec]
  split
  · rename_i hm; rw [hm] at hmem; simp at hmem
  · rename_i l idx hm
    rw [hm] at hmem
    simp only [List.mem_singleton, Prod.mk.injEq] at hmem
    obtain ⟨rfl, rfl⟩ := hmem
    left
    simp only [not_true_eq_false, ↓reduceIte]
    rw [decodeFinish_ok hchk ha hs', hdata]
    exact ⟨rfl, rfl, rfl, by simp [Lib.get, Lib.put]⟩
  · right
    simp

/-- non-vacuity: seed 1 of tests.c is canonical (so the theorems apply to it). -/
example : (Data.mk 1 0 ([0xdd, 0x76, 0xe7, 0x35, 0x9a, 0x0d, 0xed, 0x37, 0xcd, 0x0f, 0xf0, 0xf3, 0xc8, 0x29, 0xa5, 0xae, 0x01, 0x67, 0x33] ++ List.replicate 13 0) 1427).Canon :=
  { birthday_lt := by decide, features_lt := by decide, checksum_lt := by decide, secret_len := by decide,
    secret_bytes := by decide, secret_top := by decide, secret_pad := by decide, checksum_ok := by decide +kernel }

end Polyseed.C01

namespace Polyseed.C01

/-- consequently the decoded seed has the same serialized bytes, the same key-derivation inputs for every
coin and key size, the same birthday, the same user features and the same encryption flag. -/
theorem roundtrip_observations (cfg : Cfg) (env : Env) (lib : Lib) (L : Lang) (d : Data) (coin : Nat) (w w1 : World)
    (e : Event) (b : Nat) (junk : Data)
    (hnw : cfg.numWords = 16) (hT : TableOK L) (hd : d.Canon) (hcoin : coin < 2048)
    (hs : featuresSupported lib.reserved d.features = true)
    (hnorm : NormOK cfg env lib L d coin)
    (ha : doAlloc cfg lib w = (some (b, junk), e, w1)) :
    ∃ d', (decodeExplicit cfg env lib (encoded env lib L d coin) coin L w).lib.get b = some d' ∧
      store d' = store d ∧ (∀ c n, keygen env lib d' c n = keygen env lib d c n) ∧
      getBirthday d' = getBirthday d ∧ (∀ m, getFeature d' m = getFeature d m) ∧ isEncryptedSeed d' = isEncryptedSeed d := by
  obtain ⟨_, _, hg⟩ := decodeExplicit_encode cfg env lib L d coin w w1 e b junk hnw hT hd hcoin hs hnorm ha
  exact ⟨d, hg, rfl, fun _ _ => rfl, rfl, fun _ => rfl, rfl⟩

/-- with automatic detection the 'multiple languages' status is returned exactly when some OTHER registered
language recognises all 16 words of the phrase as well. -/
theorem decode_encode_multLang_iff (cfg : Cfg) (env : Env) (lib : Lib) (li : Nat) (hli : li < cfg.langs.length) (d : Data) (coin : Nat)
    (w : World) (hnw : cfg.numWords = 16) (hT : TableOK cfg.langs[li]) (hd : d.Canon) (hcoin : coin < 2048)
    (hnorm : NormOK cfg env lib cfg.langs[li] d coin) :
    (decode cfg env lib (encoded env lib cfg.langs[li] d coin) coin w).out.status = .multLang ↔
      ∃ (l' : Nat) (hl' : l' < cfg.langs.length), l' ≠ li ∧
        (findAll cfg.langs[l'] (phraseWords cfg.langs[li] d coin)).isSome = true := by
  have hwf := hd.toWF
  have hsplit := strSplit_joinWords (phraseWords cfg.langs[li] d coin) (phraseWords_ok _ hT d hwf coin hcoin) 16
    (by rw [phraseWords_length _ d hwf coin]; exact Nat.le_refl _)
  rw [phraseWords_length _ d hwf coin] at hsplit
  have hfind := findAll_words _ hT (encodeCoeffs d coin) (encodeCoeffs_lt d hwf coin hcoin)
  have hmem : (li, encodeCoeffs d coin) ∈ matching (phraseWords cfg.langs[li] d coin) cfg.langs 0 :=
    (matching_mem _ cfg.langs 0 li _).mpr ⟨li, hli, by omega, hfind⟩
  have hchk : polyCheck (applyCoin (encodeCoeffs d coin) coin) = true := by
    rw [applyCoin_encodeCoeffs d hwf coin]; exact (polyCheck_cons_iff _ _).mpr hd.checksum_ok
  unfold NormOK at hnorm
  simp only [decode]
  generalize hdec : decompose cfg env lib (encoded env lib cfg.langs[li] d coin) = dec at hnorm ⊢
  obtain ⟨tmp, pre⟩ := dec
  simp only at hnorm
  subst hnorm
  simp only [hnw, hsplit, ne_eq, not_true_eq_false, ↓reduceIte]
  rw [phraseDecode_spec]
  have hother : ∀ l idx, (l, idx) ∈ matching (phraseWords cfg.langs[li] d coin) cfg.langs 0 → l ≠ li →
      ∃ (l' : Nat) (hl' : l' < cfg.langs.length), l' ≠ li ∧ (findAll cfg.langs[l'] (phraseWords cfg.langs[li] d coin)).isSome = true := by
    intro l idx hm hne
    obtain ⟨k, hk, hlk, hf⟩ := (matching_mem _ cfg.langs 0 l idx).mp hm
    have : l = k := by omega
    subst this
    exact ⟨l, hk, hne, by rw [hf]; rfl⟩
  split
  · rename_i hm; rw [hm] at hmem; simp at hmem
  · rename_i l idx hm
    rw [hm] at hmem hother
    simp only [List.mem_singleton, Prod.mk.injEq] at hmem
    obtain ⟨rfl, rfl⟩ := hmem
    simp only [not_true_eq_false, ↓reduceIte]
    constructor
    · intro h
      exfalso
      cases hc2 : polyCheck (applyCoin (encodeCoeffs d coin) coin) with
      | false => rw [hchk] at hc2; cases hc2
      | true =>
        rcases ha : doAlloc cfg lib w with ⟨_ | ⟨b, junk⟩, e, w1⟩
        · rw [decodeFinish_memory hchk ha] at h; simp at h
        · cases hs : featuresSupported lib.reserved (polyToData (applyCoin (encodeCoeffs d coin) coin)).features
          · rw [decodeFinish_unsupported hchk ha hs] at h; simp at h
          · rw [decodeFinish_ok hchk ha hs] at h; simp at h
    · rintro ⟨l', hl', hne, hsome⟩
      exfalso
      obtain ⟨idx', hidx'⟩ := Option.isSome_iff_exists.mp hsome
      have hm' : (l', idx') ∈ matching (phraseWords cfg.langs[li] d coin) cfg.langs 0 :=
        (matching_mem _ cfg.langs 0 l' idx').mpr ⟨l', hl', by omega, hidx'⟩
      rw [hm] at hm'
      simp only [List.mem_singleton, Prod.mk.injEq] at hm'
      exact hne hm'.1
  · rename_i l idx a rest hm
    simp only [ne_eq, reduceCtorEq, not_false_eq_true, ↓reduceIte, true_iff]
    -- two entries: at least one of them is another language (positions in `matching` are distinct)
    by_cases h1 : l = li
    · -- then the second entry is another one
      obtain ⟨l2, idx2⟩ := a
      have hm2 : (l2, idx2) ∈ matching (phraseWords cfg.langs[li] d coin) cfg.langs 0 := by rw [hm]; simp
      by_cases h2 : l2 = li
      · exfalso
        -- both entries would be the same language: impossible, `matching` lists each position once (increasing positions)
        have hinc : ∀ (Ls : List Lang) (s0 : Nat) (x y : Nat × List Nat) (r : List (Nat × List Nat)),
            matching (phraseWords cfg.langs[li] d coin) Ls s0 = x :: y :: r → x.1 < y.1 := by
          intro Ls
          induction Ls with
          | nil => intro s0 x y r h; simp [matching] at h
          | cons L' Ls ih =>
            intro s0 x y r h
            unfold matching at h
            split at h
            · exact ih (s0 + 1) x y r h
            · rename_i idx0 _
              simp only [List.cons.injEq] at h
              obtain ⟨rfl, h'⟩ := h
              have : (y.1, y.2) ∈ matching (phraseWords cfg.langs[li] d coin) Ls (s0 + 1) := by rw [h']; simp
              obtain ⟨k, _, hk, _⟩ := (matching_mem _ Ls (s0 + 1) y.1 y.2).mp this
              simp only; omega
        have := hinc cfg.langs 0 (l, idx) (l2, idx2) rest hm
        simp only at this; omega
      · exact hother l2 idx2 hm2 h2
    · exact hother l idx (by rw [hm]; simp) h1

end Polyseed.C01

namespace Polyseed.C01

theorem joinWords_all (sep : List Nat) (p : Nat → Bool) (hsep : sep.all p = true) :
    ∀ ws : List (List Nat), (∀ w ∈ ws, w.all p = true) → (joinWords sep ws).all p = true := by
  intro ws
  induction ws with
  | nil => intro _; rfl
  | cons w ws ih =>
    intro h
    cases ws with
    | nil => simpa [joinWords] using h w (by simp)
    | cons w2 rest =>
      simp only [joinWords, List.all_append, Bool.and_eq_true]
      exact ⟨⟨h w (by simp), hsep⟩, ih (fun x hx => h x (by simp [hx]))⟩


/-- For an all-ASCII language (`asciiCheck`: English, Italian, Czech, Portuguese — `Tables.T0/T5/T6/T7.asciiOk`)
the normaliser hypothesis holds outright for every seed and coin: the round trip needs no assumption about the
injected normalisers at all. -/
theorem normOK_of_asciiCheck (cfg : Cfg) (env : Env) (lib : Lib) (L : Lang) (d : Data) (coin : Nat)
    (ha : asciiCheck L = true) (hlen : (encodeTmp L d coin).length < cfg.strSize) : NormOK cfg env lib L d coin := by
  simp only [asciiCheck, Bool.and_eq_true, List.all_eq_true, decide_eq_true_eq, Bool.not_eq_true'] at ha
  obtain ⟨⟨hw, hsep⟩, hc⟩ := ha
  apply normOK_ascii cfg env lib L d coin hc hsep hlen
  have hall : (encodeTmp L d coin).all (fun b => Nat.blt b 128) = true := by
    unfold encodeTmp
    apply joinWords_all
    · rw [hsep]; rfl
    · intro w hw'
      simp only [List.mem_map] at hw'
      obtain ⟨c, _, rfl⟩ := hw'
      by_cases hlt : c < L.words.size
      · have : L.words.getD c [] = L.words[c] := by simp [Array.getD, hlt]
        rw [this, List.all_eq_true]
        exact hw L.words[c] (by simp)
      · have : L.words.getD c [] = [] := by simp [Array.getD, hlt]
        rw [this]; rfl
  rw [List.any_eq_false]
  intro b hb
  have := List.all_eq_true.mp hall b hb
  have hlt : b < 128 := by unfold Nat.blt at this; exact Nat.le_of_ble_eq_true this
  simp only [isNeg, decide_eq_true_eq]; omega

end Polyseed.C01
