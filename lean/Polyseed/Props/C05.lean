import Polyseed.Props.C02
import Polyseed.Lemmas.Api
/-!
# C05 — a phrase is bound to its coin: every other coin value rejects it

On coefficient vectors: `applyCoin` is the `poly.coeff[1] ^= coin` of encode and of both decoders.
`Props/C01.lean` lifts the statements to phrases.
-/
namespace Polyseed.C05

theorem applyCoin_eq_set (p : List Nat) (c : Nat) (h : 2 ≤ p.length) :
    applyCoin p c = p.set 1 (p.getD 1 0 ^^^ c) := by
  match p, h with
  | c0 :: c1 :: cs, _ => simp [applyCoin]

theorem applyCoin_length (p : List Nat) (c : Nat) : (applyCoin p c).length = p.length := by
  unfold applyCoin; split <;> simp

/-- decoding for the coin the phrase was encoded for recovers the polynomial. -/
theorem same_coin (p : List Nat) (a : Nat) : applyCoin (applyCoin p a) a = p := by
  match p with
  | [] => rfl
  | [_] => rfl
  | c0 :: c1 :: cs => simp [applyCoin, Nat.xor_assoc]

/-- A valid polynomial encoded for coin `a` fails the checksum for every other coin `b`. -/
theorem wrong_coin (p : List Nat) (hp : Coeffs p) (hlen : 2 ≤ p.length) (hc : polyCheck p = true)
    (a b : Nat) (ha : a < 2048) (hb : b < 2048) (hab : a ≠ b) :
    polyCheck (applyCoin (applyCoin p a) b) = false := by
  have h1 : 1 < p.length := hlen
  have hp1 : p[1] < 2048 := hp _ (List.getElem_mem h1)
  have g1 : p.getD 1 0 = p[1] := by simp [List.getD, h1]
  rw [applyCoin_eq_set p a hlen, applyCoin_eq_set _ b (by simpa using hlen), List.set_set]
  have g2 : (p.set 1 (p.getD 1 0 ^^^ a)).getD 1 0 = p[1] ^^^ a := by
    simp [List.getD, h1, g1]
  rw [g2]
  apply C02.single_error p hp hc 1 h1
  · exact Nat.xor_lt_two_pow (n := 11) (Nat.xor_lt_two_pow (n := 11) hp1 ha) hb
  · intro h
    have : a ^^^ b = 0 := by
      have h' : p[1] ^^^ (p[1] ^^^ a ^^^ b) = p[1] ^^^ p[1] := by rw [h]
      rw [Nat.xor_self, Nat.xor_assoc, ← Nat.xor_assoc p[1] p[1], Nat.xor_self, Nat.zero_xor] at h'
      exact h'
    exact hab (xor_eq_zero this)

/-- The coefficient vectors for coins `a` and `b` of the same seed differ in the second coefficient only. -/
theorem coin_changes_word2_only (p : List Nat) (hlen : 2 ≤ p.length) (a b : Nat) (hab : a ≠ b) :
    (∀ i, i ≠ 1 → (applyCoin p a).getD i 0 = (applyCoin p b).getD i 0) ∧
    (applyCoin p a).getD 1 0 ≠ (applyCoin p b).getD 1 0 := by
  match p, hlen with
  | c0 :: c1 :: cs, _ =>
    constructor
    · intro i hi
      match i with
      | 0 => rfl
      | 1 => exact absurd rfl hi
      | i + 2 => rfl
    · simp only [applyCoin, List.getD_cons_succ, List.getD_cons_zero]
      intro h
      have : a ^^^ b = 0 := by
        have h' : c1 ^^^ (c1 ^^^ a) = c1 ^^^ (c1 ^^^ b) := by rw [h]
        rw [← Nat.xor_assoc, ← Nat.xor_assoc, Nat.xor_self, Nat.zero_xor, Nat.zero_xor] at h'
        rw [h', Nat.xor_self]
      exact hab (xor_eq_zero this)

/-- non-vacuity on the first test vector: coin 1 vs coin 0. -/
example : polyCheck (applyCoin (applyCoin [1427, 1770, 1756, 922, 820, 110, 1446, 998, 542, 1926, 1656, 1044, 842, 1392, 44, 999] 0) 1) = false := by
  decide

end Polyseed.C05
