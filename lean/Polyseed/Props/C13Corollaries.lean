import Polyseed.Props.C13Refine
import Polyseed.Props.C01
/-!
# Properties read off the abstract model

With `C13R.run_refines` every statement about outputs can be made on `Model/Abstract.lean`, where a seed is three
numbers.  A few of the other properties, restated there, become short: the phrase round trip (C01), the image round trip
(C06), the password involution (C12), path independence of key derivation (C04).  They hold for the concrete model, and
through the correspondence for the code, because its outputs ARE the abstract ones.
-/
namespace Polyseed.C13R
open Polyseed.Spec Polyseed.C13

/-- a seed as the library can hold it -/
structure Abs.Seed.OK (x : Abs.Seed) : Prop where
  S_lt : x.S < 2 ^ 150
  B_lt : x.B < 1024
  F_lt : x.F < 32

/-- **C01 in the abstract model**: the 16 word indices of a seed for a coin stand for exactly that seed. -/
theorem abs_words_roundtrip (x : Abs.Seed) (h : Abs.Seed.OK x) (coin : Nat) :
    Abs.ofWords (indices x.S x.B x.F coin) coin = some x := by
  have hE : extraNat x.F x.B < 2 ^ 15 := by
    have := h.B_lt; have := h.F_lt; unfold extraNat; omega
  unfold indices
  have hl := coeffs_length x.S (extraNat x.F x.B)
  rcases hc : coeffs x.S (extraNat x.F x.B) with _ | ⟨c1, rest⟩
  · rw [hc] at hl; simp at hl
  · simp only [Abs.ofWords]
    rw [Nat.xor_assoc, Nat.xor_self, Nat.xor_zero, if_pos rfl, ← hc, unpack_coeffs _ _ h.S_lt hE]
    simp only
    have := h.B_lt
    have e1 : extraNat x.F x.B % 1024 = x.B := by unfold extraNat; omega
    have e2 : extraNat x.F x.B / 1024 = x.F := by unfold extraNat; omega
    rw [e1, e2]

/-- the canonical representation of an admissible abstract seed is a canonical seed object -/
theorem concr_canon (x : Abs.Seed) (h : Abs.Seed.OK x) : (concr ⟨x.S, x.B, x.F⟩).Canon := by
  have hwf : (concr ⟨x.S, x.B, x.F⟩).WF :=
    { birthday_lt := h.B_lt, features_lt := h.F_lt,
      checksum_lt := by
        show checkWord _ < 2048
        exact (evalX _).isLt
      secret_len := by simp [concr, secretBytes_length, SECRET_BUFFER_SIZE]
      secret_bytes := by
        intro c hc
        simp only [concr, List.mem_append, List.mem_replicate] at hc
        rcases hc with hc | ⟨_, rfl⟩
        · exact secretBytes_lt _ c hc
        · omega
      secret_top := by
        simp only [concr]
        rw [Polyseed.getD_append_left' _ _ _ _ (by simp [secretBytes_length])]
        simp only [secretBytes, List.getD]
        rw [List.getElem?_append_right (by simp [split_length])]
        simp [split_length]
        omega
      secret_pad := by
        simp only [concr, SECRET_SIZE, SECRET_BUFFER_SIZE]
        rw [List.drop_append_of_le_length (by simp [secretBytes_length]), List.drop_of_length_le (by simp [secretBytes_length])]
        simp [secretBytes_length] }
  refine { toWF := hwf, checksum_ok := ?_ }
  rw [checkValue_eq_checkWord _ hwf]
  simp only [concr]
  rw [secretNat_secretBytes _ h.S_lt]

/-- ... and for no other coin below 2048 (C05 in the abstract model), given that the check word is a field element -/
theorem abs_words_wrong_coin (x : Abs.Seed) (h : Abs.Seed.OK x) (a b : Nat) (hab : a ≠ b) (ha : a < 2048) (hb : b < 2048) :
    Abs.ofWords (indices x.S x.B x.F a) b = none := by
  have hcanon := concr_canon x h
  have henc := C03.encodeCoeffs_eq_spec (concr ⟨x.S, x.B, x.F⟩) hcanon a
  simp only [concr] at henc
  rw [secretNat_secretBytes _ h.S_lt] at henc
  have hidx : Coeffs (indices x.S x.B x.F a) := by
    rw [← henc]
    exact C01.encodeCoeffs_lt _ hcanon.toWF a ha
  have hlen : (indices x.S x.B x.F a).length = 16 := by
    unfold indices
    have hl := coeffs_length x.S (extraNat x.F x.B)
    rcases hc : coeffs x.S (extraNat x.F x.B) with _ | ⟨c1, rest⟩
    · rw [hc] at hl; simp at hl
    · rw [hc] at hl; simp at hl ⊢; omega
  apply (ofWords_eq _ b hlen hidx hb).2
  -- the polynomial of the right coin validates, the one of another coin cannot
  have hgood : polyCheck (applyCoin (indices x.S x.B x.F a) a) = true := by
    have := (ofWords_eq _ a hlen hidx ha)
    cases hpc : polyCheck (applyCoin (indices x.S x.B x.F a) a) with
    | true => rfl
    | false =>
      have hn := this.2 hpc
      rw [abs_words_roundtrip x h a] at hn
      simp at hn
  have hp : Coeffs (applyCoin (indices x.S x.B x.F a) a) := C13.applyCoin_coeffs _ a hidx ha
  have hl2 : 2 ≤ (applyCoin (indices x.S x.B x.F a) a).length := by rw [C05.applyCoin_length, hlen]; omega
  have := C05.wrong_coin (applyCoin (indices x.S x.B x.F a) a) hp hl2 hgood a b ha hb hab
  rw [C05.same_coin] at this
  exact this

/-- **C12 in the abstract model**: the same mask applied twice restores the seed -/
theorem abs_crypt_twice (S M F : Nat) : ((S ^^^ M) ^^^ M = S) ∧ ((F ^^^ 16) ^^^ 16 = F) := by
  constructor <;> rw [Nat.xor_assoc, Nat.xor_self, Nat.xor_zero]

/-- **C04 in the abstract model**: the KDF inputs are a function of (secret, birthday, features, coin) alone, and different
seeds or coins give different inputs -/
theorem abs_key_inputs_inj (x y : Abs.Seed) (hx : Abs.Seed.OK x) (hy : Abs.Seed.OK y) (c d : Nat) (hc : c < 2 ^ 32) (hd : d < 2 ^ 32)
    (h : Abs.keyPassword x = Abs.keyPassword y ∧ Abs.keySalt x c = Abs.keySalt y d) : x = y ∧ c = d := by
  obtain ⟨hp, hs⟩ := h
  have hS : x.S = y.S := by
    have := congrArg secretNat hp
    unfold Abs.keyPassword at this
    rwa [secretNat_secretBytes _ hx.S_lt, secretNat_secretBytes _ hy.S_lt] at this
  unfold Abs.keySalt Abs.le32 at hs
  simp only [List.cons_append, List.nil_append, List.cons.injEq, and_true, true_and] at hs
  have hxB := hx.B_lt; have hyB := hy.B_lt; have hxF := hx.F_lt; have hyF := hy.F_lt
  obtain ⟨c0, c1, c2, c3, b0, b1, b2, b3, f0, f1, f2, f3⟩ := hs
  have hB : x.B = y.B := by omega
  have hF : x.F = y.F := by omega
  have hcd : c = d := by omega
  refine ⟨?_, hcd⟩
  cases x; cases y
  simp only at hS hB hF
  subst hS hB hF
  rfl

theorem toAbs_concr (x : Abs.Seed) (h : Abs.Seed.OK x) : toAbs (concr ⟨x.S, x.B, x.F⟩) = x := by
  unfold toAbs
  simp only [concr]
  rw [secretNat_secretBytes _ h.S_lt]

/-- **C06 in the abstract model**: reading the published image of a seed gives back the seed and its check word -/
theorem abs_image_roundtrip (x : Abs.Seed) (h : Abs.Seed.OK x) : Abs.ofImage (Abs.storage x) = (x, Abs.check x) := by
  have hc := concr_canon x h
  have e := store_eq _ hc
  rw [toAbs_concr x h] at e
  rw [← e, ofImage_store _ hc.toWF, toAbs_concr x h]
  rfl

end Polyseed.C13R
