import Polyseed.Props.C13
/-!
# C20 — concurrent use of distinct seeds from several threads is race-free (model part)

The model has exactly three pieces of state: the injected-dependency table, the feature mask and the seed
blocks.  Once injection and feature configuration are done, a call reads the first two and touches only the
seed it is given or the fresh block it obtains (`C13.frame`).  The writable-symbol inventory (S-syms) checks
that the compiled library has no other writable static storage, ThreadSanitizer checks the absence of data
races on sampled schedules.
-/
namespace Polyseed.C20

/-- calls other than injection and feature configuration leave the two global variables alone -/
def Global : Op → Prop
  | .inject _ => True
  | .enable _ => True
  | _ => False

theorem globals_unchanged (cfg : Cfg) (env : Env) (lib : Lib) (op : Op) (w : World) (h : ¬ Global op) :
    (step cfg env lib op w).lib.deps = lib.deps ∧ (step cfg env lib op w).lib.reserved = lib.reserved := by
  cases op with
  | inject d => exact absurd trivial h
  | enable m => exact absurd trivial h
  | create f =>
    simp only [step]
    rcases create_cases cfg lib f w with ⟨_, e⟩ | ⟨_, ⟨_, _, _, e⟩ | ⟨_, _, _, _, _, e⟩⟩ <;> rw [e] <;> exact ⟨rfl, rfl⟩
  | free hd =>
    cases hd with
    | none => exact ⟨rfl, rfl⟩
    | some b => simp only [step]; cases lib.get b <;> exact ⟨rfl, rfl⟩
  | encode hh li coin => simp only [step]; cases lib.get hh <;> exact ⟨rfl, rfl⟩
  | decode s coin =>
    have hfin : ∀ idx lo pre, (decodeFinish cfg lib idx coin lo pre w).lib.deps = lib.deps ∧ (decodeFinish cfg lib idx coin lo pre w).lib.reserved = lib.reserved := by
      intro idx lo pre
      cases hc : polyCheck (applyCoin idx coin)
      · rw [decodeFinish_checksum hc]; exact ⟨rfl, rfl⟩
      · rcases ha : doAlloc cfg lib w with ⟨_ | ⟨b, junk⟩, e, w1⟩
        · rw [decodeFinish_memory hc ha]; exact ⟨rfl, rfl⟩
        · cases hs : featuresSupported lib.reserved (polyToData (applyCoin idx coin)).features
          · rw [decodeFinish_unsupported hc ha hs]; exact ⟨rfl, rfl⟩
          · rw [decodeFinish_ok hc ha hs]; exact ⟨rfl, rfl⟩
    simp only [step, decode]
    split
    · exact ⟨rfl, rfl⟩
    · split
      · exact ⟨rfl, rfl⟩
      · exact hfin _ _ _
  | decodeExplicit s coin li =>
    have hfin : ∀ idx lo pre, (decodeFinish cfg lib idx coin lo pre w).lib.deps = lib.deps ∧ (decodeFinish cfg lib idx coin lo pre w).lib.reserved = lib.reserved := by
      intro idx lo pre
      cases hc : polyCheck (applyCoin idx coin)
      · rw [decodeFinish_checksum hc]; exact ⟨rfl, rfl⟩
      · rcases ha : doAlloc cfg lib w with ⟨_ | ⟨b, junk⟩, e, w1⟩
        · rw [decodeFinish_memory hc ha]; exact ⟨rfl, rfl⟩
        · cases hs : featuresSupported lib.reserved (polyToData (applyCoin idx coin)).features
          · rw [decodeFinish_unsupported hc ha hs]; exact ⟨rfl, rfl⟩
          · rw [decodeFinish_ok hc ha hs]; exact ⟨rfl, rfl⟩
    simp only [step, decodeExplicit]
    split
    · exact ⟨rfl, rfl⟩
    · split
      · exact ⟨rfl, rfl⟩
      · exact hfin _ _ _
  | keygen hh coin n => simp only [step]; cases lib.get hh <;> exact ⟨rfl, rfl⟩
  | store hh => simp only [step]; cases lib.get hh <;> exact ⟨rfl, rfl⟩
  | load buf =>
    simp only [step]
    rcases ha : doAlloc cfg lib w with ⟨_ | ⟨b, junk⟩, e, w1⟩
    · rw [load_memory ha]; exact ⟨rfl, rfl⟩
    · rcases dataLoad_cases buf with hl | ⟨d, hl⟩
      · rw [load_format ha hl]; exact ⟨rfl, rfl⟩
      · cases hc : polyCheck (d.checksum :: dataToPoly d)
        · rw [load_checksum ha hl hc]; exact ⟨rfl, rfl⟩
        · cases hs : featuresSupported lib.reserved d.features
          · rw [load_unsupported ha hl hc hs]; exact ⟨rfl, rfl⟩
          · rw [load_ok ha hl hc hs]; exact ⟨rfl, rfl⟩
  | crypt hh pw => simp only [step]; cases lib.get hh <;> exact ⟨rfl, rfl⟩
  | getBirthday hh => simp only [step]; cases lib.get hh <;> exact ⟨rfl, rfl⟩
  | getFeature hh m => simp only [step]; cases lib.get hh <;> exact ⟨rfl, rfl⟩
  | isEncrypted hh => simp only [step]; cases lib.get hh <;> exact ⟨rfl, rfl⟩

/-- a call of another thread (any non-global call not aimed at seed `x`) leaves thread-owned seed `x` exactly as it was -/
theorem other_thread_frame (cfg : Cfg) (env : Env) (lib : Lib) (op : Op) (w : World) (hinv : C15.Inv lib w)
    (x : Nat) (d : Data) (hx : lib.get x = some d) (hne : C13.target op ≠ some x) :
    (step cfg env lib op w).lib.get x = some d := C13.frame cfg env lib op w hinv x d hx hne

end Polyseed.C20
