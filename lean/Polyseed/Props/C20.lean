import Polyseed.Props.C13
/-!
# C20 — concurrent use of distinct seeds from several threads is race-free (model part)

`thread_serial`: in EVERY interleaving each thread observes exactly the results of a serial execution of its own
calls (other threads make no global calls and the threads' seed objects are distinct), by induction over the
interleaving from `step_local` (locality), `step_agree` (pointwise congruence) and `step_untouched` (frame).

The model has exactly three pieces of state: the injected-dependency table, the feature mask and the seed
blocks.  Once injection and feature configuration are done, a call reads the first two and touches only the
seed it is given or the fresh block it obtains (`C13.frame`).  The writable-symbol inventory (S-syms) checks
that the compiled library has no other writable static storage, ThreadSanitizer checks the absence of data
races on sampled schedules.
-/
namespace Polyseed.C20

/-- calls other than injection and feature configuration leave the two global variables alone -/
def Global : Op → Prop
  | .inject _ => True
  | .enable _ => True
  | _ => False

theorem globals_unchanged (cfg : Cfg) (env : Env) (lib : Lib) (op : Op) (w : World) (h : ¬ Global op) :
    (step cfg env lib op w).lib.deps = lib.deps ∧ (step cfg env lib op w).lib.reserved = lib.reserved := by
  cases op with
  | inject d => exact absurd trivial h
  | enable m => exact absurd trivial h
  | create f =>
    simp only [step]
    rcases create_cases cfg lib f w with ⟨_, e⟩ | ⟨_, ⟨_, _, _, e⟩ | ⟨_, _, _, _, _, e⟩⟩ <;> rw [e] <;> exact ⟨rfl, rfl⟩
  | free hd =>
    cases hd with
    | none => exact ⟨rfl, rfl⟩
    | some b => simp only [step]; cases lib.get b <;> exact ⟨rfl, rfl⟩
  | encode hh li coin => simp only [step]; cases lib.get hh <;> exact ⟨rfl, rfl⟩
  | decode s coin =>
    have hfin : ∀ idx lo pre, (decodeFinish cfg lib idx coin lo pre w).lib.deps = lib.deps ∧ (decodeFinish cfg lib idx coin lo pre w).lib.reserved = lib.reserved := by
      intro idx lo pre
      cases hc : polyCheck (applyCoin idx coin)
      · rw [decodeFinish_checksum hc]; exact ⟨rfl, rfl⟩
      · rcases ha : doAlloc cfg lib w with ⟨_ | ⟨b, junk⟩, e, w1⟩
        · rw [decodeFinish_memory hc ha]; exact ⟨rfl, rfl⟩
        · cases hs : featuresSupported lib.reserved (polyToData (applyCoin idx coin)).features
          · rw [decodeFinish_unsupported hc ha hs]; exact ⟨rfl, rfl⟩
          · rw [decodeFinish_ok hc ha hs]; exact ⟨rfl, rfl⟩
    simp only [step, decode]
    split
    · exact ⟨rfl, rfl⟩
    · split
      · exact ⟨rfl, rfl⟩
      · exact hfin _ _ _
  | decodeExplicit s coin li =>
    have hfin : ∀ idx lo pre, (decodeFinish cfg lib idx coin lo pre w).lib.deps = lib.deps ∧ (decodeFinish cfg lib idx coin lo pre w).lib.reserved = lib.reserved := by
      intro idx lo pre
      cases hc : polyCheck (applyCoin idx coin)
      · rw [decodeFinish_checksum hc]; exact ⟨rfl, rfl⟩
      · rcases ha : doAlloc cfg lib w with ⟨_ | ⟨b, junk⟩, e, w1⟩
        · rw [decodeFinish_memory hc ha]; exact ⟨rfl, rfl⟩
        · cases hs : featuresSupported lib.reserved (polyToData (applyCoin idx coin)).features
          · rw [decodeFinish_unsupported hc ha hs]; exact ⟨rfl, rfl⟩
          · rw [decodeFinish_ok hc ha hs]; exact ⟨rfl, rfl⟩
    simp only [step, decodeExplicit]
    split
    · exact ⟨rfl, rfl⟩
    · split
      · exact ⟨rfl, rfl⟩
      · exact hfin _ _ _
  | keygen hh coin n => simp only [step]; cases lib.get hh <;> exact ⟨rfl, rfl⟩
  | store hh => simp only [step]; cases lib.get hh <;> exact ⟨rfl, rfl⟩
  | load buf =>
    simp only [step]
    rcases ha : doAlloc cfg lib w with ⟨_ | ⟨b, junk⟩, e, w1⟩
    · rw [load_memory ha]; exact ⟨rfl, rfl⟩
    · rcases dataLoad_cases buf with hl | ⟨d, hl⟩
      · rw [load_format ha hl]; exact ⟨rfl, rfl⟩
      · cases hc : polyCheck (d.checksum :: dataToPoly d)
        · rw [load_checksum ha hl hc]; exact ⟨rfl, rfl⟩
        · cases hs : featuresSupported lib.reserved d.features
          · rw [load_unsupported ha hl hc hs]; exact ⟨rfl, rfl⟩
          · rw [load_ok ha hl hc hs]; exact ⟨rfl, rfl⟩
  | crypt hh pw => simp only [step]; cases lib.get hh <;> exact ⟨rfl, rfl⟩
  | getBirthday hh => simp only [step]; cases lib.get hh <;> exact ⟨rfl, rfl⟩
  | getFeature hh m => simp only [step]; cases lib.get hh <;> exact ⟨rfl, rfl⟩
  | isEncrypted hh => simp only [step]; cases lib.get hh <;> exact ⟨rfl, rfl⟩

/-- a call of another thread (any non-global call not aimed at seed `x`) leaves thread-owned seed `x` exactly as it was -/
theorem other_thread_frame (cfg : Cfg) (env : Env) (lib : Lib) (op : Op) (w : World) (hinv : C15.Inv lib w)
    (x : Nat) (d : Data) (hx : lib.get x = some d) (hne : C13.target op ≠ some x) :
    (step cfg env lib op w).lib.get x = some d := C13.frame cfg env lib op w hinv x d hx hne



/-- the seeds a call is given -/
def handles : Op → List Nat
  | .free (some b) => [b]
  | .encode h _ _ => [h]
  | .keygen h _ _ => [h]
  | .store h => [h]
  | .crypt h _ => [h]
  | .getBirthday h => [h]
  | .getFeature h _ => [h]
  | .isEncrypted h => [h]
  | _ => []

/-- **locality**: what a call returns, which dependency calls it makes and which oracle answers it consumes
depend on the library state only through the injected-dependency table, the feature mask and the seeds it is given. -/
theorem step_local (cfg : Cfg) (env : Env) (deps : Deps) (reserved : Nat) (heap1 heap2 : List (Nat × Data)) (op : Op) (w : World)
    (hget : ∀ h ∈ handles op, (Lib.mk deps reserved heap1).get h = (Lib.mk deps reserved heap2).get h) :
    (step cfg env ⟨deps, reserved, heap1⟩ op w).out = (step cfg env ⟨deps, reserved, heap2⟩ op w).out ∧
    (step cfg env ⟨deps, reserved, heap1⟩ op w).events = (step cfg env ⟨deps, reserved, heap2⟩ op w).events ∧
    (step cfg env ⟨deps, reserved, heap1⟩ op w).w = (step cfg env ⟨deps, reserved, heap2⟩ op w).w := by
  cases op with
  | inject d => exact ⟨rfl, rfl, rfl⟩
  | enable m => exact ⟨rfl, rfl, rfl⟩
  | create f =>
    simp only [step, create, doAlloc]
    repeat' split
    all_goals exact ⟨rfl, rfl, rfl⟩
  | free hd =>
    cases hd with
    | none => exact ⟨rfl, rfl, rfl⟩
    | some b =>
      have := hget b (by simp [handles])
      simp only [step, this]
      cases (Lib.mk deps reserved heap2).get b <;> exact ⟨rfl, rfl, rfl⟩
  | encode hh li coin =>
    have := hget hh (by simp [handles])
    simp only [step, this]
    cases (Lib.mk deps reserved heap2).get hh <;> exact ⟨rfl, rfl, rfl⟩
  | keygen hh coin n =>
    have := hget hh (by simp [handles])
    simp only [step, this]
    cases (Lib.mk deps reserved heap2).get hh <;> exact ⟨rfl, rfl, rfl⟩
  | store hh =>
    have := hget hh (by simp [handles])
    simp only [step, this]
    cases (Lib.mk deps reserved heap2).get hh <;> exact ⟨rfl, rfl, rfl⟩
  | crypt hh pw =>
    have := hget hh (by simp [handles])
    simp only [step, this]
    cases (Lib.mk deps reserved heap2).get hh <;> exact ⟨rfl, rfl, rfl⟩
  | getBirthday hh =>
    have := hget hh (by simp [handles])
    simp only [step, this]
    cases (Lib.mk deps reserved heap2).get hh <;> exact ⟨rfl, rfl, rfl⟩
  | getFeature hh m =>
    have := hget hh (by simp [handles])
    simp only [step, this]
    cases (Lib.mk deps reserved heap2).get hh <;> exact ⟨rfl, rfl, rfl⟩
  | isEncrypted hh =>
    have := hget hh (by simp [handles])
    simp only [step, this]
    cases (Lib.mk deps reserved heap2).get hh <;> exact ⟨rfl, rfl, rfl⟩
  | load buf =>
    simp only [step, load, doAlloc]
    repeat' split
    all_goals exact ⟨rfl, rfl, rfl⟩
  | decode s coin =>
    simp only [step, decode, decodeFinish, decompose, doAlloc, decodeWipes, detectWipe, freeEvents]
    repeat' split
    all_goals exact ⟨rfl, rfl, rfl⟩
  | decodeExplicit s coin li =>
    simp only [step, decodeExplicit, decodeFinish, decompose, doAlloc, decodeWipes, freeEvents, langAt]
    repeat' split
    all_goals exact ⟨rfl, rfl, rfl⟩

theorem alloc_answer (cfg : Cfg) (lib : Lib) (w : World) :
    (doAlloc cfg lib w).1 = w.allocs.headD none := by
  unfold doAlloc; split <;> simp_all

/-- **pointwise congruence**: if two library states with the same globals agree on the seeds a call is given,
then after the call they still agree at every block where they agreed before. -/
theorem step_agree (cfg : Cfg) (env : Env) (deps : Deps) (reserved : Nat) (heap1 heap2 : List (Nat × Data)) (op : Op) (w : World)
    (hget : ∀ h ∈ handles op, (Lib.mk deps reserved heap1).get h = (Lib.mk deps reserved heap2).get h)
    (x : Nat) (hx : (Lib.mk deps reserved heap1).get x = (Lib.mk deps reserved heap2).get x) :
    (step cfg env ⟨deps, reserved, heap1⟩ op w).lib.get x = (step cfg env ⟨deps, reserved, heap2⟩ op w).lib.get x := by
  have hp : ∀ b d, (Lib.put ⟨deps, reserved, heap1⟩ b d).get x = (Lib.put ⟨deps, reserved, heap2⟩ b d).get x := by
    intro b d; rw [Lib.get_put, Lib.get_put, hx]
  cases op with
  | inject d => exact hx
  | enable m => exact hx
  | create f =>
    simp only [step, create, doAlloc]
    repeat' split
    all_goals first | exact hx | exact hp _ _
  | free hd =>
    cases hd with
    | none => exact hx
    | some b =>
      have := hget b (by simp [handles])
      simp only [step, this]
      cases (Lib.mk deps reserved heap2).get b with
      | none => exact hx
      | some d => simp only [free]; rw [Lib.get_del, Lib.get_del, hx]
  | encode hh li coin =>
    have := hget hh (by simp [handles])
    simp only [step, this]
    cases (Lib.mk deps reserved heap2).get hh <;> exact hx
  | keygen hh coin n =>
    have := hget hh (by simp [handles])
    simp only [step, this]
    cases (Lib.mk deps reserved heap2).get hh <;> exact hx
  | store hh =>
    have := hget hh (by simp [handles])
    simp only [step, this]
    cases (Lib.mk deps reserved heap2).get hh <;> exact hx
  | crypt hh pw =>
    have hh' := hget hh (by simp [handles])
    simp only [step, hh']
    cases hg : (Lib.mk deps reserved heap2).get hh with
    | none => exact hx
    | some d =>
      simp only [crypt, decompose]
      rw [Lib.get_update, Lib.get_update, hx, hh']
  | getBirthday hh =>
    have := hget hh (by simp [handles])
    simp only [step, this]
    cases (Lib.mk deps reserved heap2).get hh <;> exact hx
  | getFeature hh m =>
    have := hget hh (by simp [handles])
    simp only [step, this]
    cases (Lib.mk deps reserved heap2).get hh <;> exact hx
  | isEncrypted hh =>
    have := hget hh (by simp [handles])
    simp only [step, this]
    cases (Lib.mk deps reserved heap2).get hh <;> exact hx
  | load buf =>
    simp only [step, load, doAlloc]
    repeat' split
    all_goals first | exact hx | exact hp _ _
  | decode s coin =>
    simp only [step, decode, decodeFinish, decompose, doAlloc]
    repeat' split
    all_goals first | exact hx | exact hp _ _
  | decodeExplicit s coin li =>
    simp only [step, decodeExplicit, decodeFinish, decompose, doAlloc, langAt]
    repeat' split
    all_goals first | exact hx | exact hp _ _


/-- the block the allocator will hand out to this call, if any -/
def nextId (w : World) : Option Nat := (w.allocs.headD none).map (·.1)

/-- a call leaves every block alone that it is not given and that is not the fresh block it obtains -/
theorem step_untouched (cfg : Cfg) (env : Env) (lib : Lib) (op : Op) (w : World) (x : Nat)
    (hh : x ∉ handles op) (hn : nextId w ≠ some x) : (step cfg env lib op w).lib.get x = lib.get x := by
  have hp : ∀ b junk e w1 d, doAlloc cfg lib w = (some (b, junk), e, w1) → (lib.put b d).get x = lib.get x := by
    intro b junk e w1 d ha
    have := alloc_answer cfg lib w
    rw [ha] at this
    have hb : x ≠ b := by
      intro h; apply hn; unfold nextId; rw [← this]; simp [h]
    rw [Lib.get_put]; simp [hb]
  have hfin : ∀ idx coin lo pre, (decodeFinish cfg lib idx coin lo pre w).lib.get x = lib.get x := by
    intro idx coin lo pre
    cases hc : polyCheck (applyCoin idx coin)
    · rw [decodeFinish_checksum hc]
    · rcases ha : doAlloc cfg lib w with ⟨_ | ⟨b, junk⟩, e, w1⟩
      · rw [decodeFinish_memory hc ha]
      · cases hs : featuresSupported lib.reserved (polyToData (applyCoin idx coin)).features
        · rw [decodeFinish_unsupported hc ha hs]
        · rw [decodeFinish_ok hc ha hs]; exact hp b junk e w1 _ ha
  cases op with
  | inject d => rfl
  | enable m => rfl
  | create f =>
    simp only [step]
    rcases create_cases cfg lib f w with ⟨_, e⟩ | ⟨_, ⟨ev, w1, ha, e⟩ | ⟨b, junk, ev, w1, ha, e⟩⟩
    · rw [e]
    · rw [e]
    · rw [e]; exact hp b junk ev w1 _ ha
  | free hd =>
    cases hd with
    | none => rfl
    | some b =>
      simp only [step]
      cases lib.get b with
      | none => rfl
      | some d =>
        simp only [free]; rw [Lib.get_del]
        have : x ≠ b := fun h => hh (by simp [handles, h])
        simp [this]
  | encode h li coin => simp only [step]; cases lib.get h <;> rfl
  | decode s coin =>
    simp only [step, decode]
    split
    · rfl
    · split
      · rfl
      · exact hfin _ _ _ _
  | decodeExplicit s coin li =>
    simp only [step, decodeExplicit]
    split
    · rfl
    · split
      · rfl
      · exact hfin _ _ _ _
  | keygen h coin n => simp only [step]; cases lib.get h <;> rfl
  | store h => simp only [step]; cases lib.get h <;> rfl
  | load buf =>
    simp only [step]
    rcases ha : doAlloc cfg lib w with ⟨_ | ⟨b, junk⟩, e, w1⟩
    · rw [load_memory ha]
    · rcases dataLoad_cases buf with hl | ⟨d, hl⟩
      · rw [load_format ha hl]
      · cases hc : polyCheck (d.checksum :: dataToPoly d)
        · rw [load_checksum ha hl hc]
        · cases hs : featuresSupported lib.reserved d.features
          · rw [load_unsupported ha hl hc hs]
          · rw [load_ok ha hl hc hs]; exact hp b junk e w1 _ ha
  | crypt h pw =>
    simp only [step]
    cases lib.get h with
    | none => rfl
    | some d =>
      simp only [crypt]; rw [Lib.get_update]
      have : x ≠ h := fun hx => hh (by simp [handles, hx])
      simp [this]
  | getBirthday h => simp only [step]; cases lib.get h <;> rfl
  | getFeature h m => simp only [step]; cases lib.get h <;> rfl
  | isEncrypted h => simp only [step]; cases lib.get h <;> rfl

/-- the globals after a call depend only on the globals before and on the call -/
theorem step_globals (cfg : Cfg) (env : Env) (deps : Deps) (reserved : Nat) (heap1 heap2 : List (Nat × Data)) (op : Op) (w : World) :
    (step cfg env ⟨deps, reserved, heap1⟩ op w).lib.deps = (step cfg env ⟨deps, reserved, heap2⟩ op w).lib.deps ∧
    (step cfg env ⟨deps, reserved, heap1⟩ op w).lib.reserved = (step cfg env ⟨deps, reserved, heap2⟩ op w).lib.reserved := by
  by_cases hg : Global op
  · cases op <;> first | exact ⟨rfl, rfl⟩ | exact absurd hg (by simp [Global])
  · rw [(globals_unchanged cfg env _ op w hg).1, (globals_unchanged cfg env _ op w hg).2,
      (globals_unchanged cfg env _ op w hg).1, (globals_unchanged cfg env _ op w hg).2]
    exact ⟨rfl, rfl⟩

/-- outputs of thread `t`'s calls in an interleaved history; every entry carries the oracle answers that call receives -/
def runT (cfg : Cfg) (env : Env) (t : Nat) : Lib → List (Nat × Op × World) → List Out
  | _, [] => []
  | lib, (u, op, w) :: rest =>
    (if u = t then [(step cfg env lib op w).out] else []) ++ runT cfg env t (step cfg env lib op w).lib rest

/-- outputs of a serial execution -/
def runS (cfg : Cfg) (env : Env) : Lib → List (Op × World) → List Out
  | _, [] => []
  | lib, (op, w) :: rest => (step cfg env lib op w).out :: runS cfg env (step cfg env lib op w).lib rest

/-- thread `t`'s own calls, in order -/
def mine (t : Nat) (hist : List (Nat × Op × World)) : List (Op × World) :=
  (hist.filter (fun e => e.1 == t)).map (·.2)

/-- blocks thread `t` ever names as a handle or is ever handed by the allocator -/
def Owns (calls : List (Op × World)) (x : Nat) : Prop :=
  ∃ c ∈ calls, x ∈ handles c.1 ∨ nextId c.2 = some x

/-- **Each thread observes exactly the results a serial execution of its own calls would give**, in EVERY
interleaving, provided the other threads make no injection / feature-configuration calls and neither name nor
are handed a block of this thread (distinct seed objects; the allocator never hands a live block to two owners). -/
theorem thread_serial (cfg : Cfg) (env : Env) (t : Nat) :
    ∀ (hist : List (Nat × Op × World)) (deps : Deps) (reserved : Nat) (hi hs : List (Nat × Data)) (own : Nat → Prop),
      (∀ x, Owns (mine t hist) x → own x) →
      (∀ e ∈ hist, e.1 ≠ t → ¬ Global e.2.1 ∧ ∀ x, own x → x ∉ handles e.2.1 ∧ nextId e.2.2 ≠ some x) →
      (∀ x, own x → (Lib.mk deps reserved hi).get x = (Lib.mk deps reserved hs).get x) →
      runT cfg env t ⟨deps, reserved, hi⟩ hist = runS cfg env ⟨deps, reserved, hs⟩ (mine t hist) := by
  intro hist
  induction hist with
  | nil => intro _ _ _ _ _ _ _ _; rfl
  | cons e rest ih =>
    intro deps reserved hi hs own hown hother hagree
    obtain ⟨u, op, w⟩ := e
    by_cases hu : u = t
    · subst hu
      have hmine : mine u ((u, op, w) :: rest) = (op, w) :: mine u rest := by simp [mine]
      have hh : ∀ h ∈ handles op, (Lib.mk deps reserved hi).get h = (Lib.mk deps reserved hs).get h := by
        intro h hmem
        exact hagree h (hown h ⟨(op, w), by rw [hmine]; simp, Or.inl hmem⟩)
      obtain ⟨ho, _, _⟩ := step_local cfg env deps reserved hi hs op w hh
      obtain ⟨hd, hr⟩ := step_globals cfg env deps reserved hi hs op w
      simp only [runT, ↓reduceIte, hmine, runS, List.singleton_append, ho]
      congr 1
      generalize hL1 : (step cfg env ⟨deps, reserved, hi⟩ op w).lib = L1 at hd hr
      generalize hL2 : (step cfg env ⟨deps, reserved, hs⟩ op w).lib = L2 at hd hr
      obtain ⟨d1, r1, h1⟩ := L1
      obtain ⟨d2, r2, h2⟩ := L2
      simp only at hd hr
      subst hd hr
      apply ih d1 r1 h1 h2 own
      · intro x hx
        obtain ⟨c, hc, hcx⟩ := hx
        exact hown x ⟨c, by rw [hmine]; simp [hc], hcx⟩
      · intro e he; exact hother e (by simp [he])
      · intro x hx
        have := step_agree cfg env deps reserved hi hs op w hh x (hagree x hx)
        rw [hL1, hL2] at this; exact this
    · have hmine : mine t ((u, op, w) :: rest) = mine t rest := by
        simp [mine, hu]
      obtain ⟨hng, hdis⟩ := hother (u, op, w) (by simp) hu
      obtain ⟨hd, hr⟩ := globals_unchanged cfg env ⟨deps, reserved, hi⟩ op w hng
      simp only [runT, hu, ↓reduceIte, List.nil_append, hmine]
      generalize hL1 : (step cfg env ⟨deps, reserved, hi⟩ op w).lib = L1 at hd hr
      obtain ⟨d1, r1, h1⟩ := L1
      simp only at hd hr
      subst hd hr
      apply ih _ _ h1 hs own
      · intro x hx; exact hown x (by rw [hmine]; exact hx)
      · intro e he; exact hother e (by simp [he])
      · intro x hx
        have := step_untouched cfg env ⟨d1, r1, hi⟩ op w x (hdis x hx).1 (hdis x hx).2
        rw [hL1] at this
        rw [this]; exact hagree x hx


end Polyseed.C20
