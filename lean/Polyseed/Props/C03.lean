import Polyseed.Lemmas.PackSpec
import Polyseed.Lemmas.Api
import Polyseed.Gen.Registry
/-!
# C03 — phrases follow the published bit layout exactly and depend on nothing else

`Spec.*` (Model/Spec.lean) is the README's encoding written without reference to the code:
base-1024 digits of the 150-bit secret, one extra bit each, GF(2)[x]/(x^11+x^2+1) check word,
coin XORed into word 2, words joined by the separator.  The theorems say the code's model computes
exactly that, for EVERY canonical seed, coin and language.
-/
namespace Polyseed.C03
open Spec

/-- Horner evaluation of the C code = evaluation over the field of the specification. -/
theorem polyEval_eq_evalX (p : List Nat) (hp : Coeffs p) : polyEval p = (evalX (p.map (BitVec.ofNat 11))).toNat := by
  induction p with
  | nil => rfl
  | cons c cs ih =>
    have hc : c < 2048 := hp c (by simp)
    have hcs : Coeffs cs := fun x hx => hp x (by simp [hx])
    simp only [polyEval, List.map_cons, evalX, BitVec.toNat_xor]
    rw [mul2_eq_bv _ (polyEval_lt cs hcs), ih hcs]
    congr 2
    · congr 1
      apply BitVec.eq_of_toNat_eq
      simp [Nat.mod_eq_of_lt (evalX (cs.map (BitVec.ofNat 11))).isLt]
    · simp [Nat.mod_eq_of_lt hc]

/-- word 1 is the GF(2048) check value of the specification. -/
theorem checkValue_eq_spec (d : Data) (h : d.WF) :
    checkValue d = checkWord (coeffs (secretNat d.secret) (extraNat d.features d.birthday)) := by
  unfold checkValue checkWord
  rw [← dataToPoly_eq_spec d h]
  have hp : Coeffs (0 :: dataToPoly d) := by
    intro c hc
    simp only [List.mem_cons] at hc
    rcases hc with rfl | hc
    · omega
    · exact dataToPoly_lt d h c hc
  rw [polyEval_eq_evalX _ hp]; rfl

/-- The 16 word indices `polyseed_encode` uses are exactly the published ones. -/
theorem encodeCoeffs_eq_spec (d : Data) (h : d.Canon) (coin : Nat) :
    encodeCoeffs d coin = indices (secretNat d.secret) d.birthday d.features coin := by
  unfold encodeCoeffs indices
  rw [h.checksum_ok, checkValue_eq_spec d h.toWF, dataToPoly_eq_spec d h.toWF]
  split <;> rename_i heq
  · have := coeffs_length (secretNat d.secret) (extraNat d.features d.birthday)
    rw [heq] at this; simp at this
  · rw [heq]

theorem joinWords_eq_intercalate (sep : List Nat) (ws : List (List Nat)) : joinWords sep ws = List.intercalate sep ws := by
  induction ws with
  | nil => rfl
  | cons w ws ih =>
    cases ws with
    | nil => simp [joinWords, List.intercalate]
    | cons w2 ws =>
      rw [joinWords, ih]
      · simp [List.intercalate, List.intersperse, List.append_assoc]
      · simp

/-- The decomposed phrase the library assembles is the published phrase. -/
theorem encodeTmp_eq_spec (L : Lang) (d : Data) (h : d.Canon) (coin : Nat) :
    encodeTmp L d coin = phraseNfkd L (indices (secretNat d.secret) d.birthday d.features coin) := by
  unfold encodeTmp phraseNfkd
  rw [encodeCoeffs_eq_spec d h coin, joinWords_eq_intercalate]

/-- `polyseed_encode`: the output is the published phrase, NFC-composed by the injected function iff the
language composes; the returned size is the length of the output. -/
theorem encode_eq_spec (cfg : Cfg) (env : Env) (lib : Lib) (L : Lang) (d : Data) (h : d.Canon) (coin : Nat)
    (hfit : (phraseNfkd L (indices (secretNat d.secret) d.birthday d.features coin)).length < cfg.strSize) :
    (encode cfg env lib d L coin).1 =
      (let p := phraseNfkd L (indices (secretNat d.secret) d.birthday d.features coin)
       let out := if L.compose then env.nfc lib.deps.nfc p else p
       EncOut.ok out out.length) := by
  unfold encode
  rw [encodeTmp_eq_spec L d h coin]
  simp only [show ¬ (cfg.strSize ≤ _) from Nat.not_le.mpr hfit, ↓reduceIte]
  cases L.compose <;> simp

/-- The phrase is a pure function of secret, birthday, features, coin and language. -/
theorem encode_pure (cfg : Cfg) (env : Env) (lib : Lib) (L : Lang) (d d' : Data) (coin : Nat)
    (h1 : d.secret = d'.secret) (h2 : d.birthday = d'.birthday) (h3 : d.features = d'.features) (h4 : d.checksum = d'.checksum) :
    (encode cfg env lib d L coin).1 = (encode cfg env lib d' L coin).1 := by
  have : encodeTmp L d coin = encodeTmp L d' coin := by
    simp only [encodeTmp, encodeCoeffs, dataToPoly, h1, h2, h3, h4]
  simp only [encode, this]

/-- the language flags and separators as published: NFC for Spanish, French, Japanese, Korean; ideographic space for Japanese. -/
theorem flags_as_published :
    Gen.registry.map (fun L => (L.nameEn, L.compose, L.sep)) =
      [ ([69, 110, 103, 108, 105, 115, 104], false, [32]),
        ([74, 97, 112, 97, 110, 101, 115, 101], true, [0xE3, 0x80, 0x80]),
        ([75, 111, 114, 101, 97, 110], true, [32]),
        ([83, 112, 97, 110, 105, 115, 104], true, [32]),
        ([70, 114, 101, 110, 99, 104], true, [32]),
        ([73, 116, 97, 108, 105, 97, 110], false, [32]),
        ([67, 122, 101, 99, 104], false, [32]),
        ([80, 111, 114, 116, 117, 103, 117, 101, 115, 101], false, [32]),
        ([67, 104, 105, 110, 101, 115, 101, 32, 40, 83, 105, 109, 112, 108, 105, 102, 105, 101, 100, 41], false, [32]),
        ([67, 104, 105, 110, 101, 115, 101, 32, 40, 84, 114, 97, 100, 105, 116, 105, 111, 110, 97, 108, 41], false, [32]) ] := by
  decide +kernel

/-- published vector (tests.c, seed 1, English, coin 0): "raven tail swear infant grief assist regular lamp duck valid someone little harsh puppy airport language" -/
def secret1 : List Nat := [0xdd, 0x76, 0xe7, 0x35, 0x9a, 0x0d, 0xed, 0x37, 0xcd, 0x0f, 0xf0, 0xf3, 0xc8, 0x29, 0xa5, 0xae, 0x01, 0x67, 0x33]

theorem vector_en1 : indices (secretNat secret1) 1 0 0 =
    [1427, 1770, 1756, 922, 820, 110, 1446, 998, 542, 1926, 1656, 1044, 842, 1392, 44, 999] := by
  decide +kernel

theorem vector_en1_phrase : phraseNfkd Gen.L0.lang (indices (secretNat secret1) 1 0 0) =
    [114, 97, 118, 101, 110, 32, 116, 97, 105, 108, 32, 115, 119, 101, 97, 114, 32, 105, 110, 102, 97, 110, 116, 32, 103, 114, 105, 101, 102, 32,
     97, 115, 115, 105, 115, 116, 32, 114, 101, 103, 117, 108, 97, 114, 32, 108, 97, 109, 112, 32, 100, 117, 99, 107, 32, 118, 97, 108, 105, 100, 32,
     115, 111, 109, 101, 111, 110, 101, 32, 108, 105, 116, 116, 108, 101, 32, 104, 97, 114, 115, 104, 32, 112, 117, 112, 112, 121, 32,
     97, 105, 114, 112, 111, 114, 116, 32, 108, 97, 110, 103, 117, 97, 103, 101] := by
  decide +kernel

end Polyseed.C03
