import Polyseed.Model.Api
/-!
# C19 — results do not depend on whether the platform's plain char is signed

After the repair of D2 the C code converts every `char` it compares or classifies through
`unsigned char` (`compare_char`, `IS_NON_ASCII`, `utf8_nfkd_lazy`), so the model works on byte
values `0..255` and has no signedness parameter at all: there is nothing left for a result to
depend on.  What remains to state is that the explicit order is the order a signed-char platform
used before (so the shipped sorted lists and all previously produced results are unaffected).
The tie to the code is S-sign: the same scripts on a `-fsigned-char` and a `-funsigned-char`
build, each compared with this one model and with each other.
-/
namespace Polyseed.C19

/-- the value of a byte held in a `signed char` -/
def signedVal (b : Nat) : Int := if 128 ≤ b then (b : Int) - 256 else (b : Int)

/-- `compare_char` orders bytes exactly as `signed char` comparison does -/
theorem rank_is_signed_order (a b : Nat) (ha : a < 256) (hb : b < 256) : sc a < sc b ↔ signedVal a < signedVal b := by
  unfold sc signedVal; split <;> split <;> omega

theorem sgnCmp_is_signed (a b : Nat) (ha : a < 256) (hb : b < 256) :
    sgnCmp a b = (if signedVal a < signedVal b then -1 else if signedVal b < signedVal a then 1 else 0) := by
  unfold sgnCmp
  simp only [rank_is_signed_order a b ha hb, rank_is_signed_order b a hb ha]

/-- `IS_NON_ASCII` is `c < 0` of a signed char -/
theorem isNeg_is_signed (b : Nat) (hb : b < 256) : isNeg b = true ↔ signedVal b < 0 := by
  unfold isNeg signedVal; simp only [decide_eq_true_eq]; split <;> omega

/-- and it is `c >= 0x80` of an unsigned char: one definition serves both platforms -/
theorem isNeg_is_unsigned (b : Nat) : isNeg b = true ↔ 128 ≤ b := by simp [isNeg]

/-- ASCII bytes keep their natural order, NUL sorts before every ASCII byte and after every non-ASCII byte -/
theorem rank_facts (a b : Nat) (ha : a < 128) (hb : b < 128) (c : Nat) (hc : 128 ≤ c) (hc2 : c < 256) :
    (sc a < sc b ↔ a < b) ∧ sc c < sc 0 ∧ (0 < a → sc 0 < sc a) := by
  unfold sc
  have h1 : ¬ (128 ≤ a) := by omega
  have h2 : ¬ (128 ≤ b) := by omega
  simp only [h1, h2, hc, ↓reduceIte, show ¬ (128 ≤ 0) by omega]
  omega

end Polyseed.C19
