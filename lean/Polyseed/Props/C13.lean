import Polyseed.Model.Step
import Polyseed.Lemmas.PackSpec
import Polyseed.Lemmas.Heap
import Polyseed.Lemmas.Storage
import Polyseed.Props.C12
import Polyseed.Props.C11
import Polyseed.Props.C09
import Polyseed.Props.C15
import Polyseed.Lemmas.Search
/-!
# C13 — any sequence of API calls behaves like a simple abstract seed model

* the invariant: every seed the library holds or hands out is canonical (`AllCanon`), for EVERY history,
  all oracles (random bytes, clock values, KDF outputs, normaliser outputs), all junk in fresh blocks and all
  allocation failures;
* a canonical seed is nothing but its abstract value `(secret, birthday, features)` (`canon_determined`),
  and every observable output of a seed is a function of that abstract value written with `Spec.*` only
  (`store_abs`, `encode_abs`, `keygen_abs`, `queries_abs`);
* calls on one seed never affect another (`frame`).
-/
namespace Polyseed.C13
open Spec

/-- the abstract seed: 150-bit secret, birthday month, five feature bits -/
structure AbsSeed where
  S : Nat
  B : Nat
  F : Nat
deriving DecidableEq, Repr

def absSeed (d : Data) : AbsSeed := ⟨secretNat d.secret, d.birthday, d.features⟩

/-- the canonical representation of an abstract seed, written with `Spec.*` only -/
def concr (a : AbsSeed) : Data :=
  { birthday := a.B, features := a.F, secret := secretBytes a.S ++ List.replicate 13 0,
    checksum := checkWord (coeffs a.S (extraNat a.F a.B)) }

theorem checkValue_eq_checkWord (d : Data) (h : d.WF) :
    checkValue d = checkWord (coeffs (secretNat d.secret) (extraNat d.features d.birthday)) := by
  unfold checkValue checkWord
  rw [← dataToPoly_eq_spec d h]
  have hp : Coeffs (0 :: dataToPoly d) := by
    intro c hc
    simp only [List.mem_cons] at hc
    rcases hc with rfl | hc
    · omega
    · exact dataToPoly_lt d h c hc
  -- Horner over Nat with `mul2` = Horner over the field
  have : ∀ p : List Nat, Coeffs p → polyEval p = (evalX (p.map (BitVec.ofNat 11))).toNat := by
    intro p
    induction p with
    | nil => intro _; rfl
    | cons c cs ih =>
      intro hp
      have hc : c < 2048 := hp c (by simp)
      have hcs : Coeffs cs := fun x hx => hp x (by simp [hx])
      simp only [polyEval, List.map_cons, evalX, BitVec.toNat_xor]
      rw [mul2_eq_bv _ (polyEval_lt cs hcs), ih hcs]
      congr 2
      · congr 1
        apply BitVec.eq_of_toNat_eq
        simp [Nat.mod_eq_of_lt (evalX (cs.map (BitVec.ofNat 11))).isLt]
      · simp [Nat.mod_eq_of_lt hc]
  rw [this _ hp]; rfl

/-- **a canonical seed is just (secret, birthday, features)**: it equals the canonical representation of its
abstract value, so two canonical seeds with the same abstract value are identical in every field. -/
theorem concr_abs (d : Data) (h : d.Canon) : concr (absSeed d) = d := by
  have hwf := h.toWF
  have hsec : secretBytes (secretNat d.secret) ++ List.replicate 13 0 = d.secret := by
    rw [secretBytes_secretNat d.secret (by rw [hwf.secret_len]; decide) hwf.secret_bytes hwf.secret_top]
    have hp := hwf.secret_pad
    simp only [SECRET_SIZE, SECRET_BUFFER_SIZE] at hp
    rw [← hp, List.take_append_drop]
  have hchk : checkWord (coeffs (secretNat d.secret) (extraNat d.features d.birthday)) = d.checksum := by
    rw [← checkValue_eq_checkWord d hwf, ← h.checksum_ok]
  cases d with
  | mk b f s c =>
    simp only [concr, absSeed] at *
    rw [hsec, hchk]

theorem canon_determined (d d' : Data) (h : d.Canon) (h' : d'.Canon) (e : absSeed d = absSeed d') : d = d' := by
  rw [← concr_abs d h, ← concr_abs d' h', e]

/-! ### observations are functions of the abstract value -/

/-- serialized bytes -/
theorem store_abs (d : Data) (h : d.Canon) : store d = store (concr (absSeed d)) := by rw [concr_abs d h]

/-- phrase: indices by `Spec.indices` -/
theorem encode_abs (d : Data) (h : d.Canon) (coin : Nat) :
    encodeCoeffs d coin = indices (absSeed d).S (absSeed d).B (absSeed d).F coin := by
  unfold encodeCoeffs indices absSeed
  rw [h.checksum_ok, checkValue_eq_checkWord d h.toWF, dataToPoly_eq_spec d h.toWF]
  split <;> rename_i heq
  · have := coeffs_length (secretNat d.secret) (extraNat d.features d.birthday)
    rw [heq] at this; simp at this
  · rw [heq]

/-- key-derivation inputs -/
theorem keygen_abs (env : Env) (lib : Lib) (d : Data) (h : d.Canon) (coin n : Nat) :
    keygen env lib d coin n = keygen env lib (concr (absSeed d)) coin n := by rw [concr_abs d h]

/-- queries -/
theorem queries_abs (d : Data) (m : Nat) :
    getBirthday d = birthdayDecode (absSeed d).B ∧ getFeature d m = getFeatures (absSeed d).F (m % 2 ^ 32) ∧
    isEncryptedSeed d = (if isEncrypted (absSeed d).F then 1 else 0) := ⟨rfl, rfl, rfl⟩

/-! ### the invariant -/

def AllCanon (lib : Lib) : Prop := ∀ b d, lib.get b = some d → d.Canon

/-- oracles return bytes; the random source returns the 19 bytes it was asked for -/
structure OraclesOK (env : Env) (w : World) : Prop where
  kdf_bytes : ∀ f pw salt it n, ∀ b ∈ env.kdf f pw salt it n, b < 256
  rand_ok : ∀ r ∈ w.rands, ∀ b ∈ r, b < 256

theorem inv_init : AllCanon Lib.init := by
  intro b d h; simp [Lib.init, Lib.get] at h

theorem checkValue_indep (d : Data) (c : Nat) : checkValue { d with checksum := c } = checkValue d := rfl

theorem createData_checksum (junk : Data) (sf t : Nat) (rnd : List Nat) :
    (createData junk sf t rnd).checksum = checkValue (createData junk sf t rnd) := by
  simp only [createData, polyEncode, List.headD_cons, checkValue, dataToPoly]

theorem createData_canon (junk : Data) (f t : Nat) (rnd : List Nat) (hlen : rnd.length = 19) (hb : ∀ b ∈ rnd, b < 256) :
    (createData junk (makeFeatures f) t rnd).Canon := by
  generalize hd : createData junk (makeFeatures f) t rnd = d
  have hsec : d.secret = rnd.set 18 (rnd.getD 18 0 &&& 63) ++ List.replicate 13 0 := by
    rw [← hd]
    simp only [createData, SECRET_SIZE, SECRET_BUFFER_SIZE, CLEAR_MASK, hlen, Nat.sub_self, List.replicate_zero, List.append_nil]
    rw [List.take_of_length_le (by omega)]
  have hbd : d.birthday = birthdayEncode t := by rw [← hd]; rfl
  have hft : d.features = makeFeatures f := by rw [← hd]; rfl
  have hck : d.checksum = checkValue d := by rw [← hd]; exact createData_checksum _ _ _ _
  have hwf0 : (Data.mk d.birthday d.features d.secret 0).WF := by
    refine { birthday_lt := ?_, features_lt := ?_, checksum_lt := ?_, secret_len := ?_, secret_bytes := ?_, secret_top := ?_, secret_pad := ?_ }
    · show d.birthday < 1024; rw [hbd]; exact C11.encode_lt t
    · show d.features < 32; rw [hft]; show f &&& 7 < 32; rw [and_7]; omega
    · show (0 : Nat) < 2048; omega
    · show d.secret.length = SECRET_BUFFER_SIZE; rw [hsec]; simp [hlen, SECRET_BUFFER_SIZE]
    · show ∀ b ∈ d.secret, b < 256
      rw [hsec]
      intro b hb'
      simp only [List.mem_append, List.mem_replicate] at hb'
      rcases hb' with hb' | hb'
      · rcases List.mem_or_eq_of_mem_set hb' with h | h
        · exact hb b h
        · rw [h, and_63]; omega
      · omega
    · show d.secret.getD 18 0 < 64
      rw [hsec]
      have : (rnd.set 18 (rnd.getD 18 0 &&& 63) ++ List.replicate 13 0).getD 18 0 = rnd.getD 18 0 &&& 63 := by
        simp [List.getD, List.getElem?_append_left, hlen]
      rw [this, and_63]; omega
    · show d.secret.drop SECRET_SIZE = _
      rw [hsec, show SECRET_SIZE = 19 from rfl, List.drop_left' (by simp [hlen])]; rfl
  have heq : checkValue d = checkValue (Data.mk d.birthday d.features d.secret 0) := C12.checkValue_congr _ _ rfl rfl rfl
  have hlt := checkValue_lt _ hwf0
  exact { birthday_lt := hwf0.birthday_lt, features_lt := hwf0.features_lt, checksum_lt := by rw [hck, heq]; exact hlt,
          secret_len := hwf0.secret_len, secret_bytes := hwf0.secret_bytes,
          secret_top := hwf0.secret_top, secret_pad := hwf0.secret_pad, checksum_ok := hck }

/-- what the random source delivered, padded/truncated to the 19 bytes `polyseed_create` asked for -/
theorem createData_pad (junk : Data) (sf t : Nat) (rnd : List Nat) :
    createData junk sf t rnd = createData junk sf t (rnd.take 19 ++ List.replicate (19 - rnd.length) 0) := by
  have hl : (rnd.take 19 ++ List.replicate (19 - rnd.length) 0).length = 19 := by simp; omega
  simp only [createData, SECRET_SIZE, hl, Nat.sub_self, List.replicate_zero, List.append_nil]
  rw [List.take_of_length_le (Nat.le_of_eq hl)]

/-- a seed decoded from a checksum-valid polynomial of field elements is canonical -/
theorem polyToData_canon (p : List Nat) (hlen : p.length = 16) (hp : Coeffs p) (hc : polyCheck p = true) : (polyToData p).Canon := by
  obtain ⟨k, cs, rfl⟩ : ∃ k cs, p = k :: cs := by
    cases p with
    | nil => simp at hlen
    | cons k cs => exact ⟨k, cs, rfl⟩
  have hk : k < 2048 := hp k (by simp)
  have hcs : Coeffs cs := fun x hx => hp x (by simp [hx])
  have hl : cs.length = 15 := by simpa using hlen
  have hwf := polyToData_wf k cs hk hl hcs
  refine { toWF := hwf, checksum_ok := ?_ }
  unfold checkValue
  rw [dataToPoly_polyToData k cs hk hl hcs]
  have : (polyToData (k :: cs)).checksum = k := by simp [polyToData]
  rw [this]
  exact (polyCheck_cons_iff k cs).mp hc

theorem AllCanon_put (lib : Lib) (b : Nat) (d : Data) (h : AllCanon lib) (hd : d.Canon) : AllCanon (lib.put b d) := by
  intro x dx hx
  rw [Lib.get_put] at hx
  split at hx
  · simp at hx; rw [← hx]; exact hd
  · exact h x dx hx

theorem AllCanon_del (lib : Lib) (b : Nat) (h : AllCanon lib) : AllCanon (lib.del b) := by
  intro x dx hx
  rw [Lib.get_del] at hx
  split at hx
  · simp at hx
  · exact h x dx hx

theorem applyCoin_coeffs (idx : List Nat) (coin : Nat) (h : Coeffs idx) (hc : coin < 2048) : Coeffs (applyCoin idx coin) := by
  unfold applyCoin
  split
  · rename_i c0 c1 cs
    intro x hx
    simp only [List.mem_cons] at hx
    rcases hx with rfl | rfl | hx
    · exact h _ (by simp)
    · exact Nat.xor_lt_two_pow (n := 11) (h c1 (by simp)) hc
    · exact h x (by simp [hx])
  · exact h

theorem applyCoin_length' (idx : List Nat) (coin : Nat) : (applyCoin idx coin).length = idx.length := by
  unfold applyCoin; split <;> simp

/-- the common tail of the decoders keeps the invariant, given 16 field elements -/
theorem decodeFinish_inv (cfg : Cfg) (lib : Lib) (idx : List Nat) (coin : Nat) (lo : Option Nat) (pre : List Event) (w : World)
    (h : AllCanon lib) (hidx : Coeffs idx) (hlen : idx.length = 16) (hcoin : coin < 2048) :
    AllCanon (decodeFinish cfg lib idx coin lo pre w).lib := by
  cases hc : polyCheck (applyCoin idx coin)
  · rw [decodeFinish_checksum hc]; exact h
  · rcases ha : doAlloc cfg lib w with ⟨_ | ⟨b, junk⟩, e, w1⟩
    · rw [decodeFinish_memory hc ha]; exact h
    · cases hs : featuresSupported lib.reserved (polyToData (applyCoin idx coin)).features
      · rw [decodeFinish_unsupported hc ha hs]; exact h
      · rw [decodeFinish_ok hc ha hs]
        exact AllCanon_put lib b _ h
          (polyToData_canon _ (by rw [applyCoin_length', hlen]) (applyCoin_coeffs idx coin hidx hcoin) hc)

theorem findAll_sound (L : Lang) : ∀ (toks : List (List Nat)) (idx : List Nat), findAll L toks = some idx →
    idx.length = toks.length ∧ ∀ i ∈ idx, i < L.words.size := by
  intro toks
  induction toks with
  | nil => intro idx h; simp [findAll] at h; subst h; simp
  | cons t ts ih =>
    intro idx h
    simp only [findAll] at h
    split at h
    · simp at h
    · rename_i i hi
      split at h
      · simp at h
      · rename_i is his
        simp only [Option.some.injEq] at h
        subst h
        obtain ⟨h1, h2⟩ := ih is his
        obtain ⟨hlt, _⟩ := findWord_sound L t i hi
        refine ⟨by simp [h1], ?_⟩
        intro x hx
        simp only [List.mem_cons] at hx
        rcases hx with rfl | hx
        · exact hlt
        · exact h2 x hx

theorem strSplit_len (n : Nat) (s : List Nat) (h : (strSplit n s).2 = n) : (strSplit n s).1.length = n := by
  simp only [strSplit] at h ⊢
  cases hm : (splitN n s).2
  · rw [hm] at h; simpa using h
  · have := C09.splitN_more n s hm
    rw [hm] at h; simp only [↓reduceIte] at h; omega

/-- what the invariant needs from the configuration and the call's arguments -/
structure CfgOK (cfg : Cfg) : Prop where
  numWords : cfg.numWords = 16
  sizes : ∀ li, (langAt cfg li).words.size ≤ 2048
  sizes' : ∀ L ∈ cfg.langs, L.words.size ≤ 2048

def OpOK : Op → Prop
  | .decode _ coin => coin < 2048
  | .decodeExplicit _ coin _ => coin < 2048
  | .load buf => buf.length = 32 ∧ BytesLt buf
  | _ => True

theorem matching_sound (toks : List (List Nat)) : ∀ (Ls : List Lang) (li l : Nat) (idx : List Nat),
    (l, idx) ∈ matching toks Ls li → ∃ L ∈ Ls, findAll L toks = some idx := by
  intro Ls li l idx h
  obtain ⟨k, hk, _, hf⟩ := (matching_mem toks Ls li l idx).mp h
  exact ⟨Ls[k], List.getElem_mem hk, hf⟩

theorem phraseDecode_ok_sound (langs : List Lang) (toks : List (List Nat)) (h : (phraseDecode langs toks).status = .ok) :
    ∃ L ∈ langs, findAll L toks = some (phraseDecode langs toks).idx := by
  rw [phraseDecode_spec] at h ⊢
  split at h
  · simp at h
  · rename_i l idx hm
    exact matching_sound toks langs 0 l idx (by rw [hm]; simp)
  · simp at h

/-- **the invariant is preserved by every call**, whatever its arguments, the oracles' answers, the junk in
fresh blocks and the allocator's answer. -/
theorem inv_step (cfg : Cfg) (env : Env) (lib : Lib) (op : Op) (w : World) (hcfg : CfgOK cfg) (hor : OraclesOK env w) (hop : OpOK op)
    (h : AllCanon lib) : AllCanon (step cfg env lib op w).lib := by
  cases op with
  | inject d => exact h
  | enable m => exact h
  | create f =>
    simp only [step]
    rcases create_cases cfg lib f w with ⟨_, e⟩ | ⟨_, ⟨ev, w1, ha, e⟩ | ⟨b, junk, ev, w1, ha, e⟩⟩
    · rw [e]; exact h
    · rw [e]; exact h
    · rw [e]
      apply AllCanon_put lib b _ h
      have hw1 : w1.rands = w.rands := by
        unfold doAlloc at ha
        split at ha <;> simp at ha <;> (obtain ⟨_, _, rfl⟩ := ha; rfl)
      rw [createData_pad]
      apply createData_canon
      · simp; omega
      · intro x hx
        simp only [List.mem_append, List.mem_replicate] at hx
        rcases hx with hx | hx
        · have hx' := List.mem_of_mem_take hx
          cases hr : w1.rands with
          | nil => rw [hr] at hx'; simp at hx'
          | cons r rs =>
            rw [hr] at hx'; simp only [List.headD_cons] at hx'
            exact hor.rand_ok r (by rw [← hw1, hr]; simp) x hx'
        · omega
  | free hd =>
    cases hd with
    | none => exact h
    | some b =>
      simp only [step]
      cases lib.get b with
      | none => exact h
      | some d => exact AllCanon_del lib b h
  | encode hh li coin => simp only [step]; cases lib.get hh <;> exact h
  | decode s coin =>
    simp only [step, decode]
    generalize decompose cfg env lib s = dec
    obtain ⟨tmp, pre⟩ := dec
    simp only
    generalize hsp : strSplit cfg.numWords tmp = sp
    obtain ⟨toks, n⟩ := sp
    simp only
    split
    · exact h
    · rename_i hn
      have hn' : n = cfg.numWords := by simpa using hn
      split
      · exact h
      · rename_i hst
        have hst' : (phraseDecode cfg.langs toks).status = .ok := by simpa using hst
        obtain ⟨L, hL, hf⟩ := phraseDecode_ok_sound cfg.langs toks hst'
        obtain ⟨hl, hlt⟩ := findAll_sound L toks _ hf
        have htl : toks.length = 16 := by
          have := strSplit_len cfg.numWords tmp (by rw [hsp]; exact hn')
          rw [hsp] at this; simpa [hcfg.numWords] using this
        exact decodeFinish_inv cfg lib _ coin _ _ w h (fun x hx => Nat.lt_of_lt_of_le (hlt x hx) (hcfg.sizes' L hL))
          (by rw [hl, htl]) hop
  | decodeExplicit s coin li =>
    simp only [step, decodeExplicit]
    generalize decompose cfg env lib s = dec
    obtain ⟨tmp, pre⟩ := dec
    simp only
    generalize hsp : strSplit cfg.numWords tmp = sp
    obtain ⟨toks, n⟩ := sp
    simp only
    split
    · exact h
    · rename_i hn
      have hn' : n = cfg.numWords := by simpa using hn
      rcases hf : findAll (langAt cfg li) toks with _ | idx
      · have : phraseDecodeExplicit (langAt cfg li) toks = (.lang, []) := by simp [phraseDecodeExplicit, hf]
        rw [this]; exact h
      · have : phraseDecodeExplicit (langAt cfg li) toks = (.ok, idx) := by simp [phraseDecodeExplicit, hf]
        rw [this]
        obtain ⟨hl, hlt⟩ := findAll_sound _ toks _ hf
        have htl : toks.length = 16 := by
          have := strSplit_len cfg.numWords tmp (by rw [hsp]; exact hn')
          rw [hsp] at this; simpa [hcfg.numWords] using this
        simp only [ne_eq, not_true_eq_false, ↓reduceIte]
        exact decodeFinish_inv cfg lib idx coin _ pre w h (fun x hx => Nat.lt_of_lt_of_le (hlt x hx) (hcfg.sizes li))
          (by rw [hl, htl]) hop
  | keygen hh coin n => simp only [step]; cases lib.get hh <;> exact h
  | store hh => simp only [step]; cases lib.get hh <;> exact h
  | load buf =>
    simp only [step]
    rcases ha : doAlloc cfg lib w with ⟨_ | ⟨b, junk⟩, e, w1⟩
    · rw [load_memory ha]; exact h
    · rcases dataLoad_cases buf with hl | ⟨d, hl⟩
      · rw [load_format ha hl]; exact h
      · cases hc : polyCheck (d.checksum :: dataToPoly d)
        · rw [load_checksum ha hl hc]; exact h
        · cases hs : featuresSupported lib.reserved d.features
          · rw [load_unsupported ha hl hc hs]; exact h
          · rw [load_ok ha hl hc hs]
            apply AllCanon_put lib b d h
            exact ⟨(dataLoad_ok buf d hop.1 hop.2 hl).1, (polyCheck_cons_iff _ _).mp hc⟩
  | crypt hh pw =>
    simp only [step]
    cases hg : lib.get hh with
    | none => exact h
    | some d =>
      intro x dx hx
      simp only [crypt] at hx
      rw [Lib.get_update] at hx
      split at hx
      · rename_i hxh
        subst hxh
        rw [hg] at hx
        simp only [Option.map_some, Option.some.injEq] at hx
        subst hx
        have hd := h x d hg
        exact C12.crypt_canon d _ hd (hor.kdf_bytes _ _ _ _ _)
      · exact h x dx hx
  | getBirthday hh => simp only [step]; cases lib.get hh <;> exact h
  | getFeature hh m => simp only [step]; cases lib.get hh <;> exact h
  | isEncrypted hh => simp only [step]; cases lib.get hh <;> exact h

theorem doAlloc_rands (cfg : Cfg) (lib : Lib) (w : World) : (doAlloc cfg lib w).2.2.rands = w.rands := by
  unfold doAlloc; split <;> rfl

/-- a call consumes oracle answers from the front only: what is left was there before -/
theorem step_rands (cfg : Cfg) (env : Env) (lib : Lib) (op : Op) (w : World) :
    ∀ r ∈ (step cfg env lib op w).w.rands, r ∈ w.rands := by
  have hda := doAlloc_rands cfg lib w
  cases op with
  | create f =>
    simp only [step]
    rcases create_cases cfg lib f w with ⟨_, e⟩ | ⟨_, ⟨ev, w1, ha, e⟩ | ⟨b, junk, ev, w1, ha, e⟩⟩
    · rw [e]; exact fun r h => h
    · rw [e]; rw [ha] at hda; simp only at hda; rw [hda]; exact fun r h => h
    · rw [e]; rw [ha] at hda; simp only at hda ⊢; rw [hda]; exact fun r h => List.mem_of_mem_tail h
  | load buf =>
    simp only [step]
    rcases ha : doAlloc cfg lib w with ⟨_ | ⟨b, junk⟩, e, w1⟩
    · rw [load_memory ha]; rw [ha] at hda; simp only at hda ⊢; rw [hda]; exact fun r h => h
    · rw [ha] at hda; simp only at hda
      rcases dataLoad_cases buf with hl | ⟨d, hl⟩
      · rw [load_format ha hl]; simp only; rw [hda]; exact fun r h => h
      · cases hc : polyCheck (d.checksum :: dataToPoly d)
        · rw [load_checksum ha hl hc]; simp only; rw [hda]; exact fun r h => h
        · cases hs : featuresSupported lib.reserved d.features
          · rw [load_unsupported ha hl hc hs]; simp only; rw [hda]; exact fun r h => h
          · rw [load_ok ha hl hc hs]; simp only; rw [hda]; exact fun r h => h
  | decode s coin =>
    have hfin : ∀ idx lo pre, ∀ r ∈ (decodeFinish cfg lib idx coin lo pre w).w.rands, r ∈ w.rands := by
      intro idx lo pre
      cases hc : polyCheck (applyCoin idx coin)
      · rw [decodeFinish_checksum hc]; exact fun r h => h
      · rcases ha : doAlloc cfg lib w with ⟨_ | ⟨b, junk⟩, e, w1⟩
        · rw [decodeFinish_memory hc ha]; rw [ha] at hda; simp only at hda ⊢; rw [hda]; exact fun r h => h
        · rw [ha] at hda; simp only at hda
          cases hs : featuresSupported lib.reserved (polyToData (applyCoin idx coin)).features
          · rw [decodeFinish_unsupported hc ha hs]; simp only; rw [hda]; exact fun r h => h
          · rw [decodeFinish_ok hc ha hs]; simp only; rw [hda]; exact fun r h => h
    simp only [step, decode]
    split
    · exact fun r h => h
    · split
      · exact fun r h => h
      · exact hfin _ _ _
  | decodeExplicit s coin li =>
    have hfin : ∀ idx lo pre, ∀ r ∈ (decodeFinish cfg lib idx coin lo pre w).w.rands, r ∈ w.rands := by
      intro idx lo pre
      cases hc : polyCheck (applyCoin idx coin)
      · rw [decodeFinish_checksum hc]; exact fun r h => h
      · rcases ha : doAlloc cfg lib w with ⟨_ | ⟨b, junk⟩, e, w1⟩
        · rw [decodeFinish_memory hc ha]; rw [ha] at hda; simp only at hda ⊢; rw [hda]; exact fun r h => h
        · rw [ha] at hda; simp only at hda
          cases hs : featuresSupported lib.reserved (polyToData (applyCoin idx coin)).features
          · rw [decodeFinish_unsupported hc ha hs]; simp only; rw [hda]; exact fun r h => h
          · rw [decodeFinish_ok hc ha hs]; simp only; rw [hda]; exact fun r h => h
    simp only [step, decodeExplicit]
    split
    · exact fun r h => h
    · split
      · exact fun r h => h
      · exact hfin _ _ _
  | free hd =>
    cases hd with
    | none => exact fun r h => h
    | some b => simp only [step]; cases lib.get b <;> exact fun r h => h
  | inject d => exact fun r h => h
  | enable m => exact fun r h => h
  | encode hh li coin => simp only [step]; cases lib.get hh <;> exact fun r h => h
  | keygen hh coin n => simp only [step]; cases lib.get hh <;> exact fun r h => h
  | store hh => simp only [step]; cases lib.get hh <;> exact fun r h => h
  | crypt hh pw => simp only [step]; cases lib.get hh <;> exact fun r h => h
  | getBirthday hh => simp only [step]; cases lib.get hh <;> exact fun r h => h
  | getFeature hh m => simp only [step]; cases lib.get hh <;> exact fun r h => h
  | isEncrypted hh => simp only [step]; cases lib.get hh <;> exact fun r h => h

/-- **every history**: after any finite sequence of calls from any state satisfying the invariant (in
particular the initial one), every seed the library holds is canonical. -/
theorem inv_run (cfg : Cfg) (env : Env) (hcfg : CfgOK cfg) : ∀ (ops : List Op) (lib : Lib) (w : World),
    OraclesOK env w → (∀ op ∈ ops, OpOK op) → AllCanon lib → AllCanon (run cfg env lib ops w).1 := by
  intro ops
  induction ops with
  | nil => intro lib w _ _ h; exact h
  | cons op ops ih =>
    intro lib w hor hops h
    simp only [run]
    apply ih
    · exact ⟨hor.kdf_bytes, fun r hr => hor.rand_ok r (step_rands cfg env lib op w r hr)⟩
    · exact fun o ho => hops o (by simp [ho])
    · exact inv_step cfg env lib op w hcfg hor (hops op (by simp)) h

theorem inv_run_init (cfg : Cfg) (env : Env) (hcfg : CfgOK cfg) (ops : List Op) (w : World)
    (hor : OraclesOK env w) (hops : ∀ op ∈ ops, OpOK op) : AllCanon (run cfg env Lib.init ops w).1 :=
  inv_run cfg env hcfg ops Lib.init w hor hops inv_init

/-- the seed a call operates on -/
def target : Op → Option Nat
  | .free h => h
  | .crypt h _ => some h
  | _ => none

/-- **frame**: a call never changes a seed other than the one it is given (constructors touch only the fresh
block they obtained; `polyseed_free` and `polyseed_crypt` only their argument). -/
theorem frame (cfg : Cfg) (env : Env) (lib : Lib) (op : Op) (w : World) (hinv : C15.Inv lib w)
    (x : Nat) (d : Data) (hx : lib.get x = some d) (hne : target op ≠ some x) :
    (step cfg env lib op w).lib.get x = some d := by
  have hxk : x ∈ lib.keys := (Lib.mem_keys_iff lib x).mpr ⟨d, hx⟩
  have hput : ∀ b d', b ∉ lib.keys → (lib.put b d').get x = some d := by
    intro b d' hb
    rw [Lib.get_put]
    have : x ≠ b := fun h => hb (h ▸ hxk)
    simp [this, hx]
  have hfin : ∀ idx coin lo pre, (decodeFinish cfg lib idx coin lo pre w).lib.get x = some d := by
    intro idx coin lo pre
    cases hc : polyCheck (applyCoin idx coin)
    · rw [decodeFinish_checksum hc]; exact hx
    · rcases C15.doAlloc_spec cfg lib w hinv with ⟨e, w1, ha, _, _, _, _⟩ | ⟨b, junk, e, w1, ha, _, hb, _, _⟩
      · rw [decodeFinish_memory hc ha]; exact hx
      · cases hs : featuresSupported lib.reserved (polyToData (applyCoin idx coin)).features
        · rw [decodeFinish_unsupported hc ha hs]; exact hx
        · rw [decodeFinish_ok hc ha hs]; exact hput b _ hb
  cases op with
  | inject dd => exact hx
  | enable m => exact hx
  | create f =>
    simp only [step]
    rcases create_cases cfg lib f w with ⟨_, e⟩ | ⟨_, ⟨ev, w1, ha, e⟩ | ⟨b, junk, ev, w1, ha, e⟩⟩
    · rw [e]; exact hx
    · rw [e]; exact hx
    · rw [e]
      rcases C15.doAlloc_spec cfg lib w hinv with ⟨e', w1', ha', _, _, _, _⟩ | ⟨b', junk', e', w1', ha', _, hb, _, _⟩
      · rw [ha] at ha'; simp at ha'
      · rw [ha] at ha'; simp only [Prod.mk.injEq, Option.some.injEq] at ha'
        obtain ⟨⟨rfl, _⟩, _, _⟩ := ha'
        exact hput b _ hb
  | free hd =>
    cases hd with
    | none => exact hx
    | some b =>
      simp only [step]
      cases lib.get b with
      | none => exact hx
      | some db =>
        simp only [free]
        rw [Lib.get_del]
        have : x ≠ b := fun h => hne (by simp [target, h])
        simp [this, hx]
  | encode hh li coin => simp only [step]; cases lib.get hh <;> exact hx
  | decode s coin =>
    simp only [step, decode]
    split
    · exact hx
    · split
      · exact hx
      · exact hfin _ _ _ _
  | decodeExplicit s coin li =>
    simp only [step, decodeExplicit]
    split
    · exact hx
    · split
      · exact hx
      · exact hfin _ _ _ _
  | keygen hh coin n => simp only [step]; cases lib.get hh <;> exact hx
  | store hh => simp only [step]; cases lib.get hh <;> exact hx
  | load buf =>
    simp only [step]
    rcases C15.doAlloc_spec cfg lib w hinv with ⟨e, w1, ha, _, _, _, _⟩ | ⟨b, junk, e, w1, ha, _, hb, _, _⟩
    · rw [load_memory ha]; exact hx
    · rcases dataLoad_cases buf with hl | ⟨dd, hl⟩
      · rw [load_format ha hl]; exact hx
      · cases hc : polyCheck (dd.checksum :: dataToPoly dd)
        · rw [load_checksum ha hl hc]; exact hx
        · cases hs : featuresSupported lib.reserved dd.features
          · rw [load_unsupported ha hl hc hs]; exact hx
          · rw [load_ok ha hl hc hs]; exact hput b _ hb
  | crypt hh pw =>
    simp only [step]
    cases lib.get hh with
    | none => exact hx
    | some dh =>
      simp only [crypt]
      rw [Lib.get_update]
      have : x ≠ hh := fun h => hne (by simp [target, h])
      simp [this, hx]
  | getBirthday hh => simp only [step]; cases lib.get hh <;> exact hx
  | getFeature hh m => simp only [step]; cases lib.get hh <;> exact hx
  | isEncrypted hh => simp only [step]; cases lib.get hh <;> exact hx

/-- non-vacuity: a concrete canonical seed and its abstract value (test vector 1) -/
example : absSeed (concr ⟨0xdd76e7359a0ded37cd0ff0f3c829a5ae0167 * 64 + 0x33, 1, 0⟩) = ⟨0xdd76e7359a0ded37cd0ff0f3c829a5ae0167 * 64 + 0x33, 1, 0⟩ := by
  decide +kernel

end Polyseed.C13
