import Polyseed.Lemmas.Decode
import Polyseed.Lemmas.Api
/-!
# C09 — language auto-detection never guesses and agrees with explicit decoding

Generic in the language list and in the tables: nothing here depends on the contents of the word lists.
-/
namespace Polyseed.C09

/-- `polyseed_phrase_decode` is a case split on the languages that recognise ALL tokens:
none → language error; exactly one → OK with that language (position in the registry) and its indices;
two or more → 'multiple languages', regardless of checksums. -/
theorem phraseDecode_cases (langs : List Lang) (toks : List (List Nat)) :
    phraseDecode langs toks =
      match matching toks langs 0 with
      | [] => ⟨.lang, [], none⟩
      | [(l, idx)] => ⟨.ok, idx, some l⟩
      | (l, idx) :: _ :: _ => ⟨.multLang, idx, some l⟩ := phraseDecode_spec langs toks

/-- `matching` lists exactly the languages that recognise all tokens -/
theorem matching_iff (toks : List (List Nat)) (langs : List Lang) (l : Nat) (idx : List Nat) :
    (l, idx) ∈ matching toks langs 0 ↔ ∃ (hl : l < langs.length), findAll langs[l] toks = some idx := by
  rw [matching_mem]
  constructor
  · rintro ⟨k, hk, rfl, hf⟩; exact ⟨by omega, by simpa using hf⟩
  · rintro ⟨hl, hf⟩; exact ⟨l, hl, by omega, hf⟩

/-- When auto-detection succeeds it reports exactly the outcome explicit decoding with that language gives
(status, seed, library state) — `lang_out` is additional, and the dependency calls are the same except for
the wipe of the detection loop's private index array. -/
theorem decode_eq_explicit (cfg : Cfg) (env : Env) (lib : Lib) (s : List Nat) (coin : Nat) (w : World) (l : Nat) (idx : List Nat)
    (hl : l < cfg.langs.length)
    (hm : matching (strSplit cfg.numWords (decompose cfg env lib s).1).1 cfg.langs 0 = [(l, idx)])
    (hn : (strSplit cfg.numWords (decompose cfg env lib s).1).2 = cfg.numWords) :
    let a := decode cfg env lib s coin w
    let x := decodeExplicit cfg env lib s coin cfg.langs[l] w
    a.out.status = x.out.status ∧ a.out.seed = x.out.seed ∧ a.lib = x.lib ∧ a.out.langOut = some l ∧
      ∃ pre post, x.events = pre ++ post ∧ a.events = pre ++ [detectWipe cfg lib] ++ post := by
  have hmem : (l, idx) ∈ matching (strSplit cfg.numWords (decompose cfg env lib s).1).1 cfg.langs 0 := by rw [hm]; simp
  obtain ⟨_, hf⟩ := (matching_iff _ _ _ _).mp hmem
  simp only [decode, decodeExplicit]
  generalize decompose cfg env lib s = dec at *
  obtain ⟨tmp, pre⟩ := dec
  generalize hsp : strSplit cfg.numWords tmp = sp at *
  obtain ⟨toks, n⟩ := sp
  simp only at hm hn hf
  simp only [hn, ne_eq, not_true_eq_false, ↓reduceIte, phraseDecode_spec, hm, phraseDecodeExplicit, hf]
  unfold decodeFinish
  simp only
  split
  · exact ⟨rfl, rfl, rfl, rfl, pre, _, rfl, rfl⟩
  · split
    · exact ⟨rfl, rfl, rfl, rfl, pre, _, by simp only [List.append_assoc]; rfl, by simp only [List.append_assoc]⟩
    · split
      · exact ⟨rfl, rfl, rfl, rfl, pre, _, by simp only [List.append_assoc]; rfl, by simp only [List.append_assoc]⟩
      · exact ⟨rfl, rfl, rfl, rfl, pre, _, by simp only [List.append_assoc]; rfl, by simp only [List.append_assoc]⟩

/-- Status precedence of `polyseed_decode`: word count, then language / multiple languages, then checksum,
then memory, then unsupported features. -/
theorem decode_status (cfg : Cfg) (env : Env) (lib : Lib) (s : List Nat) (coin : Nat) (w : World) :
    let toks := (strSplit cfg.numWords (decompose cfg env lib s).1).1
    let n := (strSplit cfg.numWords (decompose cfg env lib s).1).2
    let det := phraseDecode cfg.langs toks
    let st := (decode cfg env lib s coin w).out.status
    (n ≠ cfg.numWords → st = .numWords) ∧
    (n = cfg.numWords → det.status ≠ .ok → st = det.status) ∧
    (n = cfg.numWords → det.status = .ok → polyCheck (applyCoin det.idx coin) = false → st = .checksum) ∧
    (n = cfg.numWords → det.status = .ok → polyCheck (applyCoin det.idx coin) = true →
      (∀ e w1, doAlloc cfg lib w = (none, e, w1) → st = .memory) ∧
      (∀ a e w1, doAlloc cfg lib w = (some a, e, w1) →
        st = if featuresSupported lib.reserved (polyToData (applyCoin det.idx coin)).features then .ok else .unsupported)) := by
  simp only [decode]
  generalize decompose cfg env lib s = dec
  obtain ⟨tmp, pre⟩ := dec
  generalize strSplit cfg.numWords tmp = sp
  obtain ⟨toks, n⟩ := sp
  simp only
  refine ⟨fun h => by simp [h], fun h hd => by simp [h, hd], fun h hd hc => ?_, fun h hd hc => ⟨fun e w1 ha => ?_, fun ⟨b, junk⟩ e w1 ha => ?_⟩⟩
  · simp only [h, hd, ne_eq, not_true_eq_false, ↓reduceIte]; rw [decodeFinish_checksum hc]
  · simp only [h, hd, ne_eq, not_true_eq_false, ↓reduceIte]; rw [decodeFinish_memory hc ha]
  · simp only [h, hd, ne_eq, not_true_eq_false, ↓reduceIte]
    cases hs : featuresSupported lib.reserved (polyToData (applyCoin (phraseDecode cfg.langs toks).idx coin)).features
    · rw [decodeFinish_unsupported hc ha hs]; simp
    · rw [decodeFinish_ok hc ha hs]; simp

/-- the same for explicit decoding -/
theorem decodeExplicit_status (cfg : Cfg) (env : Env) (lib : Lib) (s : List Nat) (coin : Nat) (L : Lang) (w : World) :
    let toks := (strSplit cfg.numWords (decompose cfg env lib s).1).1
    let n := (strSplit cfg.numWords (decompose cfg env lib s).1).2
    let st := (decodeExplicit cfg env lib s coin L w).out.status
    (n ≠ cfg.numWords → st = .numWords) ∧
    (n = cfg.numWords → findAll L toks = none → st = .lang) ∧
    (∀ idx, n = cfg.numWords → findAll L toks = some idx → polyCheck (applyCoin idx coin) = false → st = .checksum) ∧
    (∀ idx, n = cfg.numWords → findAll L toks = some idx → polyCheck (applyCoin idx coin) = true →
      (∀ e w1, doAlloc cfg lib w = (none, e, w1) → st = .memory) ∧
      (∀ a e w1, doAlloc cfg lib w = (some a, e, w1) →
        st = if featuresSupported lib.reserved (polyToData (applyCoin idx coin)).features then .ok else .unsupported)) := by
  simp only [decodeExplicit]
  generalize decompose cfg env lib s = dec
  obtain ⟨tmp, pre⟩ := dec
  generalize strSplit cfg.numWords tmp = sp
  obtain ⟨toks, n⟩ := sp
  simp only
  refine ⟨fun h => by simp [h], fun h hf => by simp [h, phraseDecodeExplicit, hf], fun idx h hf hc => ?_,
    fun idx h hf hc => ⟨fun e w1 ha => ?_, fun ⟨b, junk⟩ e w1 ha => ?_⟩⟩
  · simp only [h, phraseDecodeExplicit, hf, ne_eq, not_true_eq_false, ↓reduceIte]; rw [decodeFinish_checksum hc]
  · simp only [h, phraseDecodeExplicit, hf, ne_eq, not_true_eq_false, ↓reduceIte]; rw [decodeFinish_memory hc ha]
  · simp only [h, phraseDecodeExplicit, hf, ne_eq, not_true_eq_false, ↓reduceIte]
    cases hs : featuresSupported lib.reserved (polyToData (applyCoin idx coin)).features
    · rw [decodeFinish_unsupported hc ha hs]; simp
    · rw [decodeFinish_ok hc ha hs]; simp

/-! ### the tokeniser: extra, missing or empty tokens are never ignored, except a single trailing space -/

theorem takeWord_spec : ∀ s : List Nat, s = (takeWord s).1 ++ (takeWord s).2 ∧ (∀ b ∈ (takeWord s).1, b ≠ 32) ∧
    ((takeWord s).2 = [] ∨ ∃ r, (takeWord s).2 = 32 :: r) := by
  intro s
  induction s with
  | nil => simp [takeWord]
  | cons c cs ih =>
    unfold takeWord
    by_cases hc : c = 32
    · subst hc; simp
    · simp only [hc, ↓reduceIte, List.cons_append, List.cons.injEq, true_and, List.mem_cons, forall_eq_or_imp, ne_eq,
        not_false_eq_true]
      exact ⟨ih.1, ih.2.1, ih.2.2⟩

/-- if `str_split` reports exactly the tokens `toks` without the too-many flag, the string IS those tokens
joined by single spaces, optionally followed by one trailing space; and no token contains a space. -/
theorem splitN_inv : ∀ (n : Nat) (s : List Nat) (toks : List (List Nat)), splitN n s = (toks, false) →
    (s = joinWords [32] toks ∨ (toks ≠ [] ∧ s = joinWords [32] toks ++ [32])) ∧ ∀ t ∈ toks, ∀ b ∈ t, b ≠ 32 := by
  intro n
  induction n with
  | zero =>
    intro s toks h
    simp only [splitN, Prod.mk.injEq, Bool.not_eq_false', List.isEmpty_iff] at h
    obtain ⟨rfl, rfl⟩ := h
    simp [joinWords]
  | succ n ih =>
    intro s toks h
    cases s with
    | nil =>
      simp only [splitN, Prod.mk.injEq] at h
      obtain ⟨rfl, _⟩ := h
      simp [joinWords]
    | cons c cs =>
      simp only [splitN, Prod.mk.injEq] at h
      obtain ⟨hs, hw, hrest⟩ := takeWord_spec (c :: cs)
      generalize takeWord (c :: cs) = tw at *
      obtain ⟨wd, rest⟩ := tw
      simp only at h hs hw hrest
      obtain ⟨htoks, hmore⟩ := h
      have hrec := ih (rest.drop 1) (splitN n (rest.drop 1)).1 (by rw [← hmore])
      subst htoks
      refine ⟨?_, ?_⟩
      · rcases hrest with hr | ⟨r, hr⟩
        · -- the word runs to the end of the string
          subst hr
          simp only [List.drop_nil, List.append_nil] at hs hrec ⊢
          have hnil : (splitN n []).1 = [] := by cases n <;> simp [splitN]
          rw [hnil]
          left; rw [hs]; simp [joinWords]
        · subst hr
          simp only [List.drop_succ_cons, List.drop_zero] at hrec ⊢
          rw [hs]
          generalize (splitN n r).1 = ws at hrec ⊢
          cases ws with
          | nil =>
            rcases hrec.1 with h1 | ⟨h1, _⟩
            · right; simp only [joinWords] at h1; subst h1; exact ⟨by simp, by simp [joinWords]⟩
            · exact absurd rfl h1
          | cons w2 ws =>
            rcases hrec.1 with h1 | ⟨_, h1⟩
            · left; rw [h1]; simp [joinWords]
            · right; exact ⟨by simp, by rw [h1]; simp [joinWords]⟩
      · intro t ht
        simp only [List.mem_cons] at ht
        rcases ht with rfl | ht
        · exact hw
        · exact hrec.2 t ht

theorem splitN_more : ∀ (n : Nat) (s : List Nat), (splitN n s).2 = true → (splitN n s).1.length = n := by
  intro n
  induction n with
  | zero => intro s _; simp [splitN]
  | succ n ih =>
    intro s h
    cases s with
    | nil => simp [splitN] at h
    | cons c cs =>
      simp only [splitN] at h ⊢
      simp only [List.length_cons, Nat.add_right_cancel_iff]
      exact ih _ h

/-- Consequently: `str_split` returns 16 only for strings that consist of exactly 16 space-free tokens
separated by single spaces, with at most one trailing space (leading, doubled or extra separators give
empty or extra tokens, which are tokens like any other and are looked up). -/
theorem strSplit_16 (s : List Nat) (h : (strSplit 16 s).2 = 16) :
    let toks := (strSplit 16 s).1
    toks.length = 16 ∧ (s = joinWords [32] toks ∨ s = joinWords [32] toks ++ [32]) ∧ ∀ t ∈ toks, ∀ b ∈ t, b ≠ 32 := by
  simp only [strSplit] at h ⊢
  have hlen : ∀ n s, (splitN n s).1.length ≤ n := by
    intro n
    induction n with
    | zero => intro s; simp [splitN]
    | succ n ih => intro s; cases s <;> simp [splitN]; exact ih _
  cases hm : (splitN 16 s).2
  · rw [hm] at h
    simp only [Bool.false_eq_true, ↓reduceIte, Nat.add_zero] at h
    have := splitN_inv 16 s (splitN 16 s).1 (by rw [← hm])
    refine ⟨h, ?_, this.2⟩
    rcases this.1 with h1 | ⟨_, h1⟩
    · exact Or.inl h1
    · exact Or.inr h1
  · rw [hm] at h
    simp only [↓reduceIte] at h
    have := splitN_more 16 s hm
    omega

end Polyseed.C09
