import Polyseed.Lemmas.Api
import Polyseed.Lemmas.Heap
import Polyseed.Lemmas.Bits
import Polyseed.Model.Canon
import Polyseed.Lemmas.PackSpec
/-!
# C12 — password encryption is an involution that always leaves a valid seed
-/
namespace Polyseed.C12

theorem xorPrefix_length (n : Nat) (a m : List Nat) : (xorPrefix n a m).length = a.length := by
  induction n generalizing a m with
  | zero => rfl
  | succ n ih => cases a <;> simp [xorPrefix, ih]

theorem xorPrefix_getD (n : Nat) (a m : List Nat) (i : Nat) :
    (xorPrefix n a m).getD i 0 = if i < n ∧ i < a.length then a.getD i 0 ^^^ m.getD i 0 else a.getD i 0 := by
  induction n generalizing a m i with
  | zero => simp [xorPrefix]
  | succ n ih =>
    cases a with
    | nil => simp [xorPrefix]
    | cons x xs =>
      cases i with
      | zero => cases m <;> simp [xorPrefix]
      | succ i =>
        simp only [xorPrefix, List.getD_cons_succ, ih, List.length_cons, Nat.add_lt_add_iff_right]
        cases m <;> simp

/-- the new secret: bytes 0..17 XOR mask, byte 18 XOR mask with the top two bits dropped, the rest unchanged -/
def cryptSecret (s mask : List Nat) : List Nat :=
  let s1 := xorPrefix SECRET_SIZE s mask
  s1.set (SECRET_SIZE - 1) ((s1.getD (SECRET_SIZE - 1) 0) &&& CLEAR_MASK)

theorem cryptSecret_length (s m : List Nat) : (cryptSecret s m).length = s.length := by
  simp [cryptSecret, xorPrefix_length]

/-- The mask is the first 19 bytes of the KDF output, top two bits of the 19th dropped. -/
theorem cryptSecret_getD (s m : List Nat) (hs : s.length = 32) (i : Nat) :
    (cryptSecret s m).getD i 0 =
      if i < 18 then s.getD i 0 ^^^ m.getD i 0
      else if i = 18 then (s.getD 18 0 ^^^ m.getD 18 0) &&& 63
      else s.getD i 0 := by
  unfold cryptSecret
  simp only [SECRET_SIZE, CLEAR_MASK, Nat.add_one_sub_one]
  by_cases h18 : i = 18
  · subst h18
    have : 18 < (xorPrefix 19 s m).length := by rw [xorPrefix_length]; omega
    have e := xorPrefix_getD 19 s m 18
    simp only [hs, show (18:Nat) < 19 from by omega, show (18:Nat) < 32 from by omega, and_self, ↓reduceIte] at e
    simp only [List.getD, List.getElem?_set_self this, Option.getD_some, Nat.lt_irrefl, ↓reduceIte] at e ⊢
    rw [e]
  · rw [show (List.set (xorPrefix 19 s m) 18 _).getD i 0 = (xorPrefix 19 s m).getD i 0 by
      simp [List.getD, List.getElem?_set_ne (Ne.symm h18)]]
    rw [xorPrefix_getD]
    by_cases hi : i < 18
    · simp [hi, hs]; intro; omega
    · simp only [hi, h18, ↓reduceIte]
      split
      · rename_i h; omega
      · rfl

theorem getD_ext (a b : List Nat) (hl : a.length = b.length) (h : ∀ i, a.getD i 0 = b.getD i 0) : a = b := by
  apply List.ext_getElem hl
  intro i h1 h2
  have := h i
  simpa [List.getD, h1, h2] using this

/-- applying the same mask twice restores the secret (for secrets within 150 bits). -/
theorem cryptSecret_involutive (s m : List Nat) (hs : s.length = 32) (htop : s.getD 18 0 < 64) :
    cryptSecret (cryptSecret s m) m = s := by
  apply getD_ext _ _ (by simp [cryptSecret_length])
  intro i
  rw [cryptSecret_getD _ m (by simp [cryptSecret_length, hs])]
  by_cases hi : i < 18
  · simp only [hi, ↓reduceIte]
    rw [cryptSecret_getD s m hs]; simp only [hi, ↓reduceIte]
    rw [Nat.xor_assoc, Nat.xor_self, Nat.xor_zero]
  · by_cases h18 : i = 18
    · subst h18
      simp only [Nat.lt_irrefl, ↓reduceIte]
      rw [cryptSecret_getD s m hs]; simp only [Nat.lt_irrefl, ↓reduceIte]
      rw [Nat.and_xor_distrib_right, Nat.and_xor_distrib_right, Nat.and_xor_distrib_right, Nat.and_assoc, Nat.and_self,
        Nat.and_assoc, Nat.and_self, Nat.xor_assoc, Nat.xor_self, Nat.xor_zero, and_63]
      omega
    · simp only [hi, h18, ↓reduceIte]
      rw [cryptSecret_getD s m hs]; simp only [hi, h18, ↓reduceIte]

theorem cryptData_secret (d : Data) (m : List Nat) : (cryptData d m).secret = cryptSecret d.secret m := rfl
theorem cryptData_features (d : Data) (m : List Nat) : (cryptData d m).features = d.features ^^^ 16 := rfl
theorem cryptData_birthday (d : Data) (m : List Nat) : (cryptData d m).birthday = d.birthday := rfl
theorem cryptData_checksum (d : Data) (m : List Nat) :
    (cryptData d m).checksum = checkValue { d with secret := cryptSecret d.secret m, features := d.features ^^^ 16 } := by
  simp [cryptData, checkValue, polyEncode, cryptSecret, ENCRYPTED_MASK]

/-- the check value depends on the data fields only -/
theorem checkValue_congr (d d' : Data) (h1 : d.secret = d'.secret) (h2 : d.birthday = d'.birthday) (h3 : d.features = d'.features) :
    checkValue d = checkValue d' := by
  simp only [checkValue, dataToPoly, h1, h2, h3]

/-- Applying the password operation twice with the same mask restores the original seed bit for bit. -/
theorem crypt_involutive (d : Data) (m : List Nat) (h : d.Canon) : cryptData (cryptData d m) m = d := by
  have hs : d.secret.length = 32 := h.secret_len
  have e1 : (cryptData (cryptData d m) m).secret = d.secret := by
    rw [cryptData_secret, cryptData_secret, cryptSecret_involutive _ _ hs h.secret_top]
  have e2 : (cryptData (cryptData d m) m).features = d.features := by
    rw [cryptData_features, cryptData_features, Nat.xor_assoc, Nat.xor_self, Nat.xor_zero]
  have e3 : (cryptData (cryptData d m) m).birthday = d.birthday := rfl
  have e4 : (cryptData (cryptData d m) m).checksum = d.checksum := by
    rw [cryptData_checksum, h.checksum_ok]
    apply checkValue_congr
    · exact e1
    · rfl
    · exact e2
  generalize cryptData (cryptData d m) m = d' at *
  cases d; cases d'
  simp only at e1 e2 e3 e4
  rw [e1, e2, e3, e4]

/-- the mask bytes come from the KDF and are bytes -/
def MaskOK (m : List Nat) : Prop := ∀ b ∈ m, b < 256

theorem xor_lt_256 (a b : Nat) (ha : a < 256) (hb : b < 256) : a ^^^ b < 256 := Nat.xor_lt_two_pow (n := 8) ha hb

theorem getD_lt_of (l : List Nat) (h : ∀ b ∈ l, b < 256) (i : Nat) : l.getD i 0 < 256 := by
  unfold List.getD
  cases hi : l[i]? with
  | none => simp
  | some v => simp; exact h v (List.mem_of_getElem? hi)

/-- the seed after the XOR and the flag toggle, before the check value is recomputed, is well-formed -/
theorem crypt_wf (d : Data) (m : List Nat) (h : d.WF) (hm : MaskOK m) :
    (Data.mk d.birthday (d.features ^^^ 16) (cryptSecret d.secret m) d.checksum).WF := by
  have hs : d.secret.length = 32 := h.secret_len
  have hg := cryptSecret_getD d.secret m hs
  refine { birthday_lt := h.birthday_lt, features_lt := ?_, checksum_lt := h.checksum_lt, secret_len := ?_, secret_bytes := ?_,
           secret_top := ?_, secret_pad := ?_ }
  · exact Nat.xor_lt_two_pow (n := 5) h.features_lt (by decide)
  · show (cryptSecret d.secret m).length = _; rw [cryptSecret_length]; exact hs
  · show ∀ b ∈ cryptSecret d.secret m, b < 256
    intro b hb
    obtain ⟨i, hi, rfl⟩ := List.getElem_of_mem hb
    have := hg i
    simp only [List.getD, List.getElem?_eq_getElem hi, Option.getD_some] at this
    rw [this]
    have hsb := getD_lt_of d.secret h.secret_bytes
    have hmb := getD_lt_of m hm
    split
    · exact xor_lt_256 _ _ (hsb i) (hmb i)
    · split
      · have := Nat.and_le_right (n := d.secret[18]?.getD 0 ^^^ m[18]?.getD 0) (m := 63); omega
      · exact hsb i
  · show (cryptSecret d.secret m).getD 18 0 < 64
    rw [hg 18]
    simp only [Nat.lt_irrefl, ↓reduceIte]
    have := Nat.and_le_right (n := d.secret.getD 18 0 ^^^ m.getD 18 0) (m := 63); omega
  · show (cryptSecret d.secret m).drop SECRET_SIZE = _
    apply getD_ext
    · simp [cryptSecret_length, hs, SECRET_SIZE, SECRET_BUFFER_SIZE]
    · intro i
      have hp := h.secret_pad
      have e : ∀ l : List Nat, (l.drop SECRET_SIZE).getD i 0 = l.getD (19 + i) 0 := fun l => by
        simp [List.getD, SECRET_SIZE]
      rw [e, hg (19 + i)]
      have : ¬ (19 + i < 18) := by omega
      have h2 : ¬ (19 + i = 18) := by omega
      simp only [this, h2, ↓reduceIte]
      rw [← e, hp]

/-- Each application toggles the encrypted flag, leaves birthday and user features unchanged, keeps the
secret within 150 bits and the padding zero, and recomputes the check value: the result is canonical for
EVERY mask the KDF can return (so a wrong password still yields a well-formed seed). -/
theorem crypt_canon (d : Data) (m : List Nat) (h : d.Canon) (hm : MaskOK m) : (cryptData d m).Canon := by
  have hwf := crypt_wf d m h.toWF hm
  have hck : (cryptData d m).checksum = checkValue (Data.mk d.birthday (d.features ^^^ 16) (cryptSecret d.secret m) d.checksum) := by
    rw [cryptData_checksum]
  exact { birthday_lt := hwf.birthday_lt, features_lt := hwf.features_lt, checksum_lt := by rw [hck]; exact checkValue_lt _ hwf,
          secret_len := hwf.secret_len, secret_bytes := hwf.secret_bytes, secret_top := hwf.secret_top, secret_pad := hwf.secret_pad,
          checksum_ok := by rw [hck]; apply checkValue_congr <;> rfl }

/-- the flag toggles -/
theorem crypt_toggles (d : Data) (m : List Nat) (hf : d.features < 32) :
    isEncrypted (cryptData d m).features = !isEncrypted d.features := by
  rw [cryptData_features]
  unfold isEncrypted ENCRYPTED_MASK
  rw [Nat.and_xor_distrib_right]
  have : d.features &&& 16 = 0 ∨ d.features &&& 16 = 16 := by
    have := and_mul_two_pow d.features 1 4
    simp only [Nat.one_mul, show (2:Nat)^4 = 16 from rfl, and_1] at this
    rw [this]; omega
  rcases this with h | h <;> simp [h]

/-- `polyseed_crypt`: the events are [nfkd of the password, if it has non-ASCII bytes], ONE KDF call with
(normalised password, 'POLYSEED mask' 00 FF FF, 10000 iterations, 32 bytes), then the three wipes. -/
theorem crypt_events (cfg : Cfg) (env : Env) (lib : Lib) (b : Nat) (d : Data) (pw : List Nat) (hlive : lib.get b = some d) :
    let pn := lazyNfkd cfg.strSize (env.nfkd lib.deps.nfkd) pw
    (crypt cfg env lib b d pw).2 =
      (if pn.2 then [Event.nfkd lib.deps.nfkd pw pn.1] else []) ++
      [Event.kdf lib.deps.pbkdf2 pn.1 [80, 79, 76, 89, 83, 69, 69, 68, 32, 109, 97, 115, 107, 0, 255, 255] 10000 32
          (env.kdf lib.deps.pbkdf2 pn.1 cryptSalt 10000 32),
       Event.zeroStack lib.deps.memzero .poly cfg.sizeofPoly,
       Event.zeroStack lib.deps.memzero .mask 32,
       Event.zeroStack lib.deps.memzero .passNorm cfg.strSize] ∧
    (crypt cfg env lib b d pw).1.get b = some (cryptData d (env.kdf lib.deps.pbkdf2 pn.1 cryptSalt 10000 32)) := by
  simp only [crypt, decompose, KDF_NUM_ITERATIONS, cryptSalt, Lib.get_update, hlive, ↓reduceIte, Option.map_some, and_self]

/-- canonically equivalent spellings (equal normalised forms) give the same result. -/
theorem crypt_norm_equiv (cfg : Cfg) (env : Env) (lib : Lib) (b : Nat) (d : Data) (pw pw' : List Nat) (hlive : lib.get b = some d)
    (h : (lazyNfkd cfg.strSize (env.nfkd lib.deps.nfkd) pw).1 = (lazyNfkd cfg.strSize (env.nfkd lib.deps.nfkd) pw').1) :
    (crypt cfg env lib b d pw).1.get b = (crypt cfg env lib b d pw').1.get b := by
  rw [(crypt_events cfg env lib b d pw hlive).2, (crypt_events cfg env lib b d pw' hlive).2, h]

/-- non-vacuity / the published vector: test mask of tests.c applied to seed 3's secret is an involution. -/
example : cryptSecret (cryptSecret ([0x67, 0xb9, 0x36, 0xdf, 0xa4, 0xda, 0x6a, 0xe8, 0xd3, 0xb3, 0xcd, 0xb3, 0xb9, 0x37, 0xf4, 0x02, 0x7b, 0x0e, 0x3b] ++ List.replicate 13 0)
    [0x54, 0x4a, 0x88, 0x95, 0xff, 0xc0, 0x45, 0x1c, 0x9b, 0x8e, 0x28, 0x1e, 0x18, 0x2d, 0x0d, 0x73, 0x63, 0x7d, 0x1b, 0xd7])
    [0x54, 0x4a, 0x88, 0x95, 0xff, 0xc0, 0x45, 0x1c, 0x9b, 0x8e, 0x28, 0x1e, 0x18, 0x2d, 0x0d, 0x73, 0x63, 0x7d, 0x1b, 0xd7]
    = [0x67, 0xb9, 0x36, 0xdf, 0xa4, 0xda, 0x6a, 0xe8, 0xd3, 0xb3, 0xcd, 0xb3, 0xb9, 0x37, 0xf4, 0x02, 0x7b, 0x0e, 0x3b] ++ List.replicate 13 0 := by
  decide +kernel

end Polyseed.C12
