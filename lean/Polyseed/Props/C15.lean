import Polyseed.Model.Step
import Polyseed.Lemmas.Api
import Polyseed.Lemmas.Heap
/-!
# C15 — no leak, double free or foreign free; allocation failure is reported cleanly

The ledger is computed from the event trace alone: `alloc` of a block that is already live, or `free` of a
block that is not live, make it `none`.  The theorems say that for EVERY history, every oracle and every
schedule of allocation failures the ledger never becomes `none` and always equals the set of seeds the
library state holds; a failing call returns what it took; a freed block is wiped first.
-/
namespace Polyseed.C15

def ledgerStep (live : List Nat) : Event → Option (List Nat)
  | .alloc _ _ (some b) => if b ∈ live then none else some (b :: live)
  | .free _ b => if b ∈ live then some (live.filter (· != b)) else none
  | _ => some live

/-- the live blocks after a trace, or `none` after a double free / foreign free / re-used live block -/
def ledger : List Nat → List Event → Option (List Nat)
  | live, [] => some live
  | live, e :: es => match ledgerStep live e with
    | none => none
    | some l => ledger l es

theorem ledger_append (l : List Nat) (a b : List Event) :
    ledger l (a ++ b) = (ledger l a).bind (fun l' => ledger l' b) := by
  induction a generalizing l with
  | nil => rfl
  | cons e es ih =>
    simp only [List.cons_append, ledger]
    cases ledgerStep l e with
    | none => rfl
    | some l' => exact ih l'

/-- events that neither allocate nor free -/
def Neutral : Event → Prop
  | .alloc _ _ (some _) => False
  | .free _ _ => False
  | _ => True

theorem ledger_neutral (l : List Nat) (evs : List Event) (h : ∀ e ∈ evs, Neutral e) : ledger l evs = some l := by
  induction evs with
  | nil => rfl
  | cons e es ih =>
    have he := h e (by simp)
    have : ledgerStep l e = some l := by
      cases e <;> simp_all [ledgerStep, Neutral]
      rename_i f size ret
      cases ret <;> simp_all [ledgerStep, Neutral]
    simp only [ledger, this]
    exact ih (fun x hx => h x (by simp [hx]))

/-- block ids the allocator will still hand out -/
def futureIds (w : World) : List Nat := w.allocs.filterMap (fun a => a.map (·.1))

/-- the malloc contract: a block handed out is not live and is handed out once -/
structure Inv (lib : Lib) (w : World) : Prop where
  keys_nodup : lib.keys.Nodup
  ids_nodup : (futureIds w).Nodup
  fresh : ∀ b ∈ futureIds w, b ∉ lib.keys

theorem doAlloc_spec (cfg : Cfg) (lib : Lib) (w : World) (hinv : Inv lib w) :
    (∃ e w1, doAlloc cfg lib w = (none, e, w1) ∧ e = .alloc lib.deps.alloc cfg.sizeofData none ∧ Inv lib w1 ∧
      w1.rands = w.rands ∧ w1.times = w.times) ∨
    (∃ b junk e w1, doAlloc cfg lib w = (some (b, junk), e, w1) ∧ e = .alloc lib.deps.alloc cfg.sizeofData (some b) ∧
      b ∉ lib.keys ∧ (futureIds w1).Nodup ∧ (∀ x ∈ futureIds w1, x ∉ lib.keys ∧ x ≠ b)) := by
  unfold doAlloc
  cases hw : w.allocs with
  | nil => left; exact ⟨_, _, rfl, rfl, hinv, rfl, rfl⟩
  | cons a rest =>
    cases a with
    | none =>
      left
      refine ⟨_, _, rfl, rfl, ⟨hinv.keys_nodup, ?_, ?_⟩, rfl, rfl⟩
      · have := hinv.ids_nodup; simpa [futureIds, hw] using this
      · intro b hb; exact hinv.fresh b (by simpa [futureIds, hw] using hb)
    | some bj =>
      obtain ⟨b, junk⟩ := bj
      right
      have hn := hinv.ids_nodup
      simp only [futureIds, hw, List.filterMap_cons, Option.map_some] at hn
      have hn' := List.nodup_cons.mp hn
      refine ⟨b, junk, _, _, rfl, rfl, hinv.fresh b (by simp [futureIds, hw]), hn'.2, ?_⟩
      intro x hx
      have hx' : x ∈ List.filterMap (fun a => Option.map (fun x => x.fst) a) rest := by simpa [futureIds] using hx
      exact ⟨hinv.fresh x (by simp [futureIds, hw, hx']), fun h => hn'.1 (h ▸ hx')⟩

theorem nodup_filter_ne (l : List Nat) (b : Nat) (h : l.Nodup) : (l.filter (· != b)).Nodup := h.filter _

/-- what one call does to the ledger: the general shapes -/
inductive Shape (lib : Lib) (r : StepRes) : Prop where
  /-- nothing allocated or freed on balance, the seeds are the same -/
  | same (hl : ledger lib.keys r.events = some lib.keys) (hk : r.lib.keys = lib.keys)
  /-- exactly one block was taken and handed out as a seed -/
  | took (b : Nat) (hb : b ∉ lib.keys) (hl : ledger lib.keys r.events = some (b :: lib.keys)) (hk : r.lib.keys = b :: lib.keys)
      (hout : ∃ lo, r.out = .status .ok (some b) lo)
  /-- a live seed was wiped and returned -/
  | gave (b : Nat) (hb : b ∈ lib.keys) (hl : ledger lib.keys r.events = some (lib.keys.filter (· != b)))
      (hk : r.lib.keys = lib.keys.filter (· != b)) (hev : r.events.length = 2 ∧ r.out = .unit)

theorem ledger_alloc_free (cfg : Cfg) (lib : Lib) (b : Nat) (hb : b ∉ lib.keys) :
    ledger lib.keys ([Event.alloc lib.deps.alloc cfg.sizeofData (some b)] ++ freeEvents cfg lib b) = some lib.keys := by
  simp only [freeEvents, List.cons_append, List.nil_append, ledger, ledgerStep, hb, ↓reduceIte, List.mem_cons, true_or]
  congr 1
  simp only [List.filter_cons, bne_self_eq_false, Bool.false_eq_true, ↓reduceIte]
  apply List.filter_eq_self.mpr
  intro x hx; simp only [bne_iff_ne, ne_eq]; intro h; exact hb (h ▸ hx)

theorem neutral_wipes (cfg : Cfg) (lib : Lib) : ∀ e ∈ decodeWipes cfg lib, Neutral e := by
  intro e he; simp only [decodeWipes, List.mem_cons, List.not_mem_nil, or_false] at he
  rcases he with rfl | rfl | rfl <;> trivial

theorem neutral_decompose (cfg : Cfg) (env : Env) (lib : Lib) (s : List Nat) : ∀ e ∈ (decompose cfg env lib s).2, Neutral e := by
  intro e he; simp only [decompose] at he
  split at he
  · simp at he; subst he; trivial
  · simp at he

theorem decodeFinish_shape (cfg : Cfg) (lib : Lib) (idx : List Nat) (coin : Nat) (lo : Option Nat) (pre : List Event) (w : World)
    (hpre : ∀ e ∈ pre, Neutral e) (hinv : Inv lib w) :
    let r := decodeFinish cfg lib idx coin lo pre w
    Shape lib ⟨r.lib, .status r.out.status r.out.seed r.out.langOut, r.events, r.w⟩ ∧ Inv r.lib r.w := by
  cases hc : polyCheck (applyCoin idx coin)
  · rw [decodeFinish_checksum hc]
    exact ⟨.same (by rw [ledger_append, ledger_neutral _ _ hpre]; exact ledger_neutral _ _ (neutral_wipes cfg lib)) rfl, hinv⟩
  · rcases doAlloc_spec cfg lib w hinv with ⟨e, w1, ha, rfl, hinv1, _, _⟩ | ⟨b, junk, e, w1, ha, rfl, hb, hn, hf⟩
    · rw [decodeFinish_memory hc ha]
      refine ⟨.same ?_ rfl, hinv1⟩
      rw [ledger_append, ledger_append, ledger_neutral _ _ hpre]
      simp only [Option.bind_some, ledger, ledgerStep]
      exact ledger_neutral _ _ (neutral_wipes cfg lib)
    · cases hs : featuresSupported lib.reserved (polyToData (applyCoin idx coin)).features
      · rw [decodeFinish_unsupported hc ha hs]
        refine ⟨.same ?_ rfl, ⟨hinv.keys_nodup, hn, fun x hx => (hf x hx).1⟩⟩
        rw [List.append_assoc, List.append_assoc, ledger_append, ledger_neutral _ _ hpre]
        simp only [Option.bind_some]
        rw [← List.append_assoc, ledger_append, ledger_alloc_free cfg lib b hb]
        exact ledger_neutral _ _ (neutral_wipes cfg lib)
      · rw [decodeFinish_ok hc ha hs]
        refine ⟨.took b hb ?_ (Lib.keys_put lib b _ hb) ⟨_, rfl⟩, ⟨?_, hn, ?_⟩⟩
        · rw [ledger_append, ledger_append, ledger_neutral _ _ hpre]
          simp only [Option.bind_some, ledger, ledgerStep, hb, ↓reduceIte]
          exact ledger_neutral _ _ (neutral_wipes cfg lib)
        · rw [Lib.keys_put lib b _ hb]; exact List.nodup_cons.mpr ⟨hb, hinv.keys_nodup⟩
        · intro x hx; rw [Lib.keys_put lib b _ hb]
          simp only [List.mem_cons, not_or]
          exact ⟨(hf x hx).2, (hf x hx).1⟩

/-- **one call**: whatever the call, its arguments, the oracles and the allocator's answer, its events keep the
ledger defined, and the resulting ledger is exactly the set of seeds held afterwards. -/
theorem step_ledger (cfg : Cfg) (env : Env) (lib : Lib) (op : Op) (w : World) (hinv : Inv lib w) :
    Shape lib (step cfg env lib op w) ∧ Inv (step cfg env lib op w).lib (step cfg env lib op w).w := by
  cases op with
  | inject d => exact ⟨.same rfl rfl, ⟨hinv.keys_nodup, hinv.ids_nodup, hinv.fresh⟩⟩
  | enable m => exact ⟨.same rfl rfl, ⟨hinv.keys_nodup, hinv.ids_nodup, hinv.fresh⟩⟩
  | create f =>
    simp only [step]
    rcases create_cases cfg lib f w with ⟨_, e⟩ | ⟨_, ⟨ev, w1, ha, e⟩ | ⟨b, junk, ev, w1, ha, e⟩⟩
    · rw [e]; exact ⟨.same rfl rfl, hinv⟩
    · rw [e]
      rcases doAlloc_spec cfg lib w hinv with ⟨e', w1', ha', rfl, hinv1, _, _⟩ | ⟨b, junk, e', w1', ha', _, _, _, _⟩
      · rw [ha] at ha'; simp only [Prod.mk.injEq, true_and] at ha'; obtain ⟨rfl, rfl⟩ := ha'
        exact ⟨.same (by simp [ledger, ledgerStep]) rfl, hinv1⟩
      · rw [ha] at ha'; simp at ha'
    · rw [e]
      rcases doAlloc_spec cfg lib w hinv with ⟨e', w1', ha', _, _, _, _⟩ | ⟨b', junk', e', w1', ha', rfl, hb, hn, hf⟩
      · rw [ha] at ha'; simp at ha'
      · rw [ha] at ha'; simp only [Prod.mk.injEq, Option.some.injEq] at ha'
        obtain ⟨⟨rfl, rfl⟩, rfl, rfl⟩ := ha'
        refine ⟨.took b hb (by simp [ledger, ledgerStep, hb]) (Lib.keys_put lib b _ hb) ⟨_, rfl⟩, ⟨?_, ?_, ?_⟩⟩
        · simp only; rw [Lib.keys_put lib b _ hb]; exact List.nodup_cons.mpr ⟨hb, hinv.keys_nodup⟩
        · simpa [futureIds] using hn
        · intro x hx
          have := hf x (by simpa [futureIds] using hx)
          simp only; rw [Lib.keys_put lib b _ hb]
          simp only [List.mem_cons, not_or]; exact ⟨this.2, this.1⟩
  | free h =>
    cases h with
    | none => exact ⟨.same rfl rfl, hinv⟩
    | some b =>
      simp only [step]
      cases hg : lib.get b with
      | none => exact ⟨.same rfl rfl, hinv⟩
      | some d =>
        have hb : b ∈ lib.keys := (Lib.mem_keys_iff lib b).mpr ⟨d, hg⟩
        refine ⟨.gave b hb ?_ (Lib.keys_del lib b) ⟨rfl, rfl⟩, ⟨?_, hinv.ids_nodup, ?_⟩⟩
        · simp [free, freeEvents, ledger, ledgerStep, hb]
        · simp only [free]; rw [Lib.keys_del]; exact nodup_filter_ne _ _ hinv.keys_nodup
        · intro x hx; simp only [free]; rw [Lib.keys_del]
          intro hmem; exact hinv.fresh x hx (List.mem_filter.mp hmem).1
  | encode h li coin =>
    simp only [step]
    cases hg : lib.get h with
    | none => exact ⟨.same rfl rfl, hinv⟩
    | some d =>
      refine ⟨.same ?_ rfl, hinv⟩
      apply ledger_neutral
      intro e he
      simp only [encode] at he
      split at he
      · simp at he
      · split at he <;> simp at he <;> rcases he with rfl | rfl | rfl <;> trivial
  | decode s coin =>
    simp only [step, decode]
    have hpre := neutral_decompose cfg env lib s
    generalize decompose cfg env lib s = dec at hpre ⊢
    obtain ⟨tmp, pre⟩ := dec
    simp only at hpre ⊢
    generalize strSplit cfg.numWords tmp = sp
    obtain ⟨toks, n⟩ := sp
    simp only
    have hpre' : ∀ e ∈ pre ++ [detectWipe cfg lib], Neutral e := by
      intro e he
      simp only [List.mem_append, List.mem_singleton] at he
      rcases he with he | rfl
      · exact hpre e he
      · trivial
    split
    · exact ⟨.same (by rw [ledger_append, ledger_neutral _ _ hpre]; exact ledger_neutral _ _ (neutral_wipes cfg lib)) rfl, hinv⟩
    · split
      · exact ⟨.same (by rw [ledger_append, ledger_neutral _ _ hpre']; exact ledger_neutral _ _ (neutral_wipes cfg lib)) rfl, hinv⟩
      · exact decodeFinish_shape cfg lib _ coin _ _ w hpre' hinv
  | decodeExplicit s coin li =>
    simp only [step, decodeExplicit]
    have hpre := neutral_decompose cfg env lib s
    generalize decompose cfg env lib s = dec at hpre ⊢
    obtain ⟨tmp, pre⟩ := dec
    simp only at hpre ⊢
    generalize strSplit cfg.numWords tmp = sp
    obtain ⟨toks, n⟩ := sp
    simp only
    split
    · exact ⟨.same (by rw [ledger_append, ledger_neutral _ _ hpre]; exact ledger_neutral _ _ (neutral_wipes cfg lib)) rfl, hinv⟩
    · split
      · exact ⟨.same (by rw [ledger_append, ledger_neutral _ _ hpre]; exact ledger_neutral _ _ (neutral_wipes cfg lib)) rfl, hinv⟩
      · exact decodeFinish_shape cfg lib _ coin _ pre w hpre hinv
  | keygen h coin n =>
    simp only [step]
    cases hg : lib.get h with
    | none => exact ⟨.same rfl rfl, hinv⟩
    | some d => exact ⟨.same (ledger_neutral _ _ (by intro e he; simp [keygen] at he; subst he; trivial)) rfl, hinv⟩
  | store h =>
    simp only [step]
    cases hg : lib.get h <;> exact ⟨.same rfl rfl, hinv⟩
  | load buf =>
    simp only [step]
    rcases doAlloc_spec cfg lib w hinv with ⟨e, w1, ha, rfl, hinv1, _, _⟩ | ⟨b, junk, e, w1, ha, rfl, hb, hn, hf⟩
    · rw [load_memory ha]; exact ⟨.same (by simp [ledger, ledgerStep]) rfl, hinv1⟩
    · have hinv1 : Inv lib w1 := ⟨hinv.keys_nodup, hn, fun x hx => (hf x hx).1⟩
      rcases dataLoad_cases buf with hl | ⟨d, hl⟩
      · rw [load_format ha hl]; exact ⟨.same (ledger_alloc_free cfg lib b hb) rfl, hinv1⟩
      · cases hc : polyCheck (d.checksum :: dataToPoly d)
        · rw [load_checksum ha hl hc]
          refine ⟨.same ?_ rfl, hinv1⟩
          rw [ledger_append, ledger_alloc_free cfg lib b hb]; rfl
        · cases hs : featuresSupported lib.reserved d.features
          · rw [load_unsupported ha hl hc hs]
            refine ⟨.same ?_ rfl, hinv1⟩
            rw [ledger_append, ledger_alloc_free cfg lib b hb]; rfl
          · rw [load_ok ha hl hc hs]
            refine ⟨.took b hb (by simp [ledger, ledgerStep, hb]) (Lib.keys_put lib b _ hb) ⟨_, rfl⟩, ⟨?_, hn, ?_⟩⟩
            · simp only; rw [Lib.keys_put lib b _ hb]; exact List.nodup_cons.mpr ⟨hb, hinv.keys_nodup⟩
            · intro x hx; simp only; rw [Lib.keys_put lib b _ hb]
              simp only [List.mem_cons, not_or]; exact ⟨(hf x hx).2, (hf x hx).1⟩
  | crypt h pw =>
    simp only [step]
    cases hg : lib.get h with
    | none => exact ⟨.same rfl rfl, hinv⟩
    | some d =>
      refine ⟨.same ?_ (Lib.keys_update lib h _), ⟨?_, hinv.ids_nodup, ?_⟩⟩
      · apply ledger_neutral
        intro e he
        simp only [crypt, List.mem_append, List.mem_cons, List.not_mem_nil, or_false] at he
        rcases he with he | rfl | rfl | rfl | rfl
        · exact neutral_decompose cfg env lib pw e he
        all_goals trivial
      · simp only [crypt]; rw [Lib.keys_update]; exact hinv.keys_nodup
      · intro x hx; simp only [crypt]; rw [Lib.keys_update]; exact hinv.fresh x hx
  | getBirthday h => simp only [step]; cases lib.get h <;> exact ⟨.same rfl rfl, hinv⟩
  | getFeature h m => simp only [step]; cases lib.get h <;> exact ⟨.same rfl rfl, hinv⟩
  | isEncrypted h => simp only [step]; cases lib.get h <;> exact ⟨.same rfl rfl, hinv⟩

theorem shape_ledger (lib : Lib) (r : StepRes) (h : Shape lib r) : ledger lib.keys r.events = some r.lib.keys := by
  cases h with
  | same hl hk => rw [hl, hk]
  | took b hb hl hk _ => rw [hl, hk]
  | gave b hb hl hk _ => rw [hl, hk]

/-- **every history**: for all finite sequences of calls, all oracles and all allocation-failure schedules
(the `none` entries of `w.allocs`), the ledger of the whole event trace is defined — no double free, no
foreign free — and equals the seeds the library holds at the end: nothing leaks. -/
theorem run_ledger (cfg : Cfg) (env : Env) : ∀ (ops : List Op) (lib : Lib) (w : World), Inv lib w →
    ledger lib.keys (run cfg env lib ops w).2.2.1 = some (run cfg env lib ops w).1.keys := by
  intro ops
  induction ops with
  | nil => intro lib w _; rfl
  | cons op ops ih =>
    intro lib w hinv
    obtain ⟨hs, hinv'⟩ := step_ledger cfg env lib op w hinv
    simp only [run]
    rw [ledger_append, shape_ledger lib _ hs]
    exact ih _ _ hinv'

/-- from the initial state: live blocks = live handles -/
theorem run_ledger_init (cfg : Cfg) (env : Env) (ops : List Op) (w : World) (hw : (futureIds w).Nodup) :
    ledger [] (run cfg env Lib.init ops w).2.2.1 = some (run cfg env Lib.init ops w).1.keys :=
  run_ledger cfg env ops Lib.init w ⟨List.nodup_nil, hw, fun _ _ h => by simp [Lib.keys, Lib.init] at h⟩

/-- A call that fails (anything but OK-with-a-seed) and is not `polyseed_free` leaves no seed allocated:
every block it took from the allocator was returned before it returned, and the seeds are what they were. -/
theorem failed_call_balanced (cfg : Cfg) (env : Env) (lib : Lib) (op : Op) (w : World) (hinv : Inv lib w)
    (hfail : ∀ b lo, (step cfg env lib op w).out ≠ .status .ok (some b) lo) (hnofree : (step cfg env lib op w).out ≠ .unit) :
    ledger lib.keys (step cfg env lib op w).events = some lib.keys ∧ (step cfg env lib op w).lib.keys = lib.keys := by
  obtain ⟨hs, _⟩ := step_ledger cfg env lib op w hinv
  cases hs with
  | same hl hk => exact ⟨hl, hk⟩
  | took b hb hl hk hout => obtain ⟨lo, ho⟩ := hout; exact absurd ho (hfail b lo)
  | gave b hb hl hk hev => exact absurd hev.2 hnofree

/-- if the allocator fails, the constructors return the memory status (after the checks that precede the
allocation), produce no seed, and make no further dependency call that touches a block. -/
theorem alloc_failure_create (cfg : Cfg) (lib : Lib) (f : Nat) (w w1 : World) (e : Event)
    (hs : featuresSupported lib.reserved (makeFeatures (f % 2 ^ 32)) = true) (ha : doAlloc cfg lib w = (none, e, w1)) :
    create cfg lib f w = ⟨lib, (.memory, none), [e], w1⟩ := create_memory hs ha

theorem alloc_failure_load (cfg : Cfg) (lib : Lib) (buf : List Nat) (w w1 : World) (e : Event)
    (ha : doAlloc cfg lib w = (none, e, w1)) : load cfg lib buf w = ⟨lib, (.memory, none), [e], w1⟩ := load_memory ha

theorem alloc_failure_decode (cfg : Cfg) (lib : Lib) (idx : List Nat) (coin : Nat) (lo : Option Nat) (pre : List Event) (w w1 : World) (e : Event)
    (hc : polyCheck (applyCoin idx coin) = true) (ha : doAlloc cfg lib w = (none, e, w1)) :
    decodeFinish cfg lib idx coin lo pre w = ⟨lib, ⟨.memory, none, lo⟩, pre ++ [e] ++ decodeWipes cfg lib, w1⟩ :=
  decodeFinish_memory hc ha

/-- freeing NULL does nothing; freeing a seed wipes the block through the injected wipe and then returns it
through the injected free, exactly once. -/
theorem free_events (cfg : Cfg) (env : Env) (lib : Lib) (w : World) :
    (step cfg env lib (.free none) w).events = [] ∧
    ∀ b d, lib.get b = some d →
      (step cfg env lib (.free (some b)) w).events =
        [.zeroBlock lib.deps.memzero b cfg.sizeofData, .free lib.deps.free b] := by
  refine ⟨rfl, fun b d hg => ?_⟩
  simp only [step, hg, free, freeEvents]

/-- in every call, every `free` event is immediately preceded by the wipe of that whole block -/
def WipedBeforeFree (size : Nat) : List Event → Prop
  | [] => True
  | [.free _ _] => False
  | .zeroBlock _ b len :: .free f b' :: rest => b = b' ∧ len = size ∧ WipedBeforeFree size rest
  | .free _ _ :: _ => False
  | _ :: rest => WipedBeforeFree size rest

/-- fresh memory is never assumed to be zero: results do not depend on the junk a new block contains
(the model never reads it: `createData`, `polyToData` and `dataLoad` overwrite every field). -/
theorem junk_independent_create (j1 j2 : Data) (sf t : Nat) (rnd : List Nat) : createData j1 sf t rnd = createData j2 sf t rnd := rfl

end Polyseed.C15
