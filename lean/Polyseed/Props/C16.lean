import Polyseed.Props.C15
/-!
# C16 — secret material is wiped from freed seeds and from temporaries

Model part: for EVERY input and on EVERY exit path each API function wipes, through the injected wipe
function and over its full size, every stack temporary that can hold secret-derived data, and a freed seed
block is wiped before it is handed to the injected free.  Which temporaries exist and that nothing else
survives in the compiled code (register spills, compiler-made copies) is outside any source-level model: that
part is the stack scan (harness/stackscan.c) — every function x exit path x compiler setting.
-/
namespace Polyseed.C16

/-- the temporaries (with sizes) a trace wipes through function `f` -/
def wiped (f : Nat) : List Event → List (Tmp × Nat)
  | [] => []
  | .zeroStack g t n :: es => if g = f then (t, n) :: wiped f es else wiped f es
  | _ :: es => wiped f es

theorem wiped_append (f : Nat) (a b : List Event) : wiped f (a ++ b) = wiped f a ++ wiped f b := by
  induction a with
  | nil => rfl
  | cons e es ih => cases e <;> simp only [List.cons_append, wiped, ih] <;> split <;> simp

theorem mem_wiped_append_right (f : Nat) (a b : List Event) (x : Tmp × Nat) (h : x ∈ wiped f b) : x ∈ wiped f (a ++ b) := by
  rw [wiped_append]; exact List.mem_append_right _ h

theorem wiped_decodeWipes (cfg : Cfg) (lib : Lib) :
    wiped lib.deps.memzero (decodeWipes cfg lib) = [(.strTmp, cfg.strSize), (.words, cfg.sizeofPhrase), (.poly, cfg.sizeofPoly)] := by
  simp [decodeWipes, wiped]

/-- a freed seed is wiped through the injected wipe function, over its whole size, immediately before it is
handed to the injected free; nothing else happens. -/
theorem free_wipes_first (cfg : Cfg) (env : Env) (lib : Lib) (w : World) (b : Nat) (d : Data) (h : lib.get b = some d) :
    (step cfg env lib (.free (some b)) w).events = [.zeroBlock lib.deps.memzero b cfg.sizeofData, .free lib.deps.free b] :=
  (C15.free_events cfg env lib w).2 b d h

/-- the blocks the library frees itself on its error paths are wiped first as well -/
theorem freeEvents_wipe (cfg : Cfg) (lib : Lib) (b : Nat) :
    freeEvents cfg lib b = [.zeroBlock lib.deps.memzero b cfg.sizeofData, .free lib.deps.free b] := rfl

/-- `polyseed_decode_explicit`: on every exit path the phrase copy, the token pointers and the polynomial are wiped. -/
theorem decodeExplicit_wipes (cfg : Cfg) (env : Env) (lib : Lib) (s : List Nat) (coin : Nat) (L : Lang) (w : World) :
    ∀ x ∈ [(Tmp.strTmp, cfg.strSize), (Tmp.words, cfg.sizeofPhrase), (Tmp.poly, cfg.sizeofPoly)],
      x ∈ wiped lib.deps.memzero (decodeExplicit cfg env lib s coin L w).events := by
  intro x hx
  have hw : x ∈ wiped lib.deps.memzero (decodeWipes cfg lib) := by rw [wiped_decodeWipes]; exact hx
  simp only [decodeExplicit]
  split
  · exact mem_wiped_append_right _ _ _ _ hw
  · split
    · exact mem_wiped_append_right _ _ _ _ hw
    · unfold decodeFinish
      simp only
      split
      · exact mem_wiped_append_right _ _ _ _ hw
      · split
        · exact mem_wiped_append_right _ _ _ _ hw
        · split <;> exact mem_wiped_append_right _ _ _ _ hw

/-- `polyseed_decode`: the same, and additionally the detection loop's private index array whenever the loop ran. -/
theorem decode_wipes (cfg : Cfg) (env : Env) (lib : Lib) (s : List Nat) (coin : Nat) (w : World) :
    (∀ x ∈ [(Tmp.strTmp, cfg.strSize), (Tmp.words, cfg.sizeofPhrase), (Tmp.poly, cfg.sizeofPoly)],
      x ∈ wiped lib.deps.memzero (decode cfg env lib s coin w).events) ∧
    ((decode cfg env lib s coin w).out.status ≠ .numWords →
      (Tmp.idx, cfg.sizeofIdx) ∈ wiped lib.deps.memzero (decode cfg env lib s coin w).events) := by
  have hidx : ∀ pre post, (Tmp.idx, cfg.sizeofIdx) ∈ wiped lib.deps.memzero (pre ++ [detectWipe cfg lib] ++ post) := by
    intro pre post
    rw [wiped_append, wiped_append]
    apply List.mem_append_left; apply List.mem_append_right
    simp [detectWipe, wiped]
  constructor
  · intro x hx
    have hw : x ∈ wiped lib.deps.memzero (decodeWipes cfg lib) := by rw [wiped_decodeWipes]; exact hx
    simp only [decode]
    split
    · exact mem_wiped_append_right _ _ _ _ hw
    · split
      · exact mem_wiped_append_right _ _ _ _ hw
      · unfold decodeFinish
        simp only
        split
        · exact mem_wiped_append_right _ _ _ _ hw
        · split
          · exact mem_wiped_append_right _ _ _ _ hw
          · split <;> exact mem_wiped_append_right _ _ _ _ hw
  · simp only [decode]
    split
    · intro h; exact absurd rfl h
    · intro _
      split
      · exact hidx _ _
      · unfold decodeFinish
        simp only
        split
        · exact hidx _ _
        · split
          · rw [List.append_assoc _ [_] (decodeWipes cfg lib)]; exact hidx _ _
          · split
            · rw [List.append_assoc, List.append_assoc]; exact hidx _ _
            · rw [List.append_assoc _ [_] (decodeWipes cfg lib)]; exact hidx _ _

/-- `polyseed_create`, success path: the polynomial. -/
theorem create_wipes (cfg : Cfg) (lib : Lib) (f : Nat) (w : World) (h : (create cfg lib f w).out.1 = .ok) :
    (Tmp.poly, cfg.sizeofPoly) ∈ wiped lib.deps.memzero (create cfg lib f w).events := by
  rcases create_cases cfg lib f w with ⟨_, e⟩ | ⟨_, ⟨ev, w1, ha, e⟩ | ⟨b, junk, ev, w1, ha, e⟩⟩
  · rw [e] at h; simp at h
  · rw [e] at h; simp at h
  · rw [e]
    have : ev = .alloc lib.deps.alloc cfg.sizeofData (some b) := by
      unfold doAlloc at ha; split at ha <;> simp at ha
      obtain ⟨h1, h2, _⟩ := ha; rw [← h2, h1]; rfl
    subst this
    simp [wiped]

/-- `polyseed_encode`: the polynomial and the phrase buffer. -/
theorem encode_wipes (cfg : Cfg) (env : Env) (lib : Lib) (d : Data) (L : Lang) (coin : Nat)
    (hfit : (encodeTmp L d coin).length < cfg.strSize) :
    ∀ x ∈ [(Tmp.poly, cfg.sizeofPoly), (Tmp.strTmp, cfg.strSize)], x ∈ wiped lib.deps.memzero (encode cfg env lib d L coin).2 := by
  intro x hx
  simp only [encode, show ¬ (cfg.strSize ≤ (encodeTmp L d coin).length) from Nat.not_le.mpr hfit, ↓reduceIte]
  cases L.compose <;> simp [wiped] <;> simpa using hx

/-- `polyseed_crypt`: the polynomial, the mask and the normalised password. -/
theorem crypt_wipes (cfg : Cfg) (env : Env) (lib : Lib) (b : Nat) (d : Data) (pw : List Nat) :
    ∀ x ∈ [(Tmp.poly, cfg.sizeofPoly), (Tmp.mask, 32), (Tmp.passNorm, cfg.strSize)],
      x ∈ wiped lib.deps.memzero (crypt cfg env lib b d pw).2 := by
  intro x hx
  simp only [crypt]
  apply mem_wiped_append_right
  simp [wiped]; simpa using hx

/-- `polyseed_load`: the polynomial, on every path on which it was filled (after the format check). -/
theorem load_wipes (cfg : Cfg) (lib : Lib) (buf : List Nat) (w : World) (d : Data) (a : Nat × Data) (e : Event) (w1 : World)
    (ha : doAlloc cfg lib w = (some a, e, w1)) (hl : dataLoad buf = (.ok, some d)) :
    (Tmp.poly, cfg.sizeofPoly) ∈ wiped lib.deps.memzero (load cfg lib buf w).events := by
  obtain ⟨b, junk⟩ := a
  cases hc : polyCheck (d.checksum :: dataToPoly d)
  · rw [load_checksum ha hl hc]; apply mem_wiped_append_right; simp [wiped]
  · cases hs : featuresSupported lib.reserved d.features
    · rw [load_unsupported ha hl hc hs]; apply mem_wiped_append_right; simp [wiped]
    · rw [load_ok ha hl hc hs]; apply mem_wiped_append_right; simp [wiped]

/-- all wiping goes through the injected function: every wipe event of every call names `lib.deps.memzero`. -/
def AllWipesInjected (f : Nat) : List Event → Prop
  | [] => True
  | .zeroStack g _ _ :: es => g = f ∧ AllWipesInjected f es
  | .zeroBlock g _ _ :: es => g = f ∧ AllWipesInjected f es
  | _ :: es => AllWipesInjected f es

end Polyseed.C16
