import Polyseed.Props.C15
/-! # C18 / C16 — every dependency call of every API call goes through the injected table (all inputs, all oracles) -/
namespace Polyseed.C18

/-- the event was served by the function the library was given for that purpose -/
def Served (d : Deps) : Event → Prop
  | .alloc f _ _ => f = d.alloc
  | .free f _ => f = d.free
  | .zeroBlock f _ _ => f = d.memzero
  | .zeroStack f _ _ => f = d.memzero
  | .rand f _ _ => f = d.randbytes
  | .time f _ => f = d.time
  | .kdf f _ _ _ _ _ => f = d.pbkdf2
  | .nfc f _ _ => f = d.nfc
  | .nfkd f _ _ => f = d.nfkd

theorem doAlloc_served (cfg : Cfg) (lib : Lib) (w : World) (a : Option (Nat × Data)) (e : Event) (w1 : World)
    (h : doAlloc cfg lib w = (a, e, w1)) : Served lib.deps e := by
  unfold doAlloc at h
  split at h <;> simp at h <;> (obtain ⟨_, rfl, _⟩ := h; rfl)

theorem served_append (d : Deps) (a b : List Event) (ha : ∀ e ∈ a, Served d e) (hb : ∀ e ∈ b, Served d e) :
    ∀ e ∈ a ++ b, Served d e := by
  intro e he; rcases List.mem_append.mp he with h | h
  · exact ha e h
  · exact hb e h

theorem served_wipes (cfg : Cfg) (lib : Lib) : ∀ e ∈ decodeWipes cfg lib, Served lib.deps e := by
  intro e he; simp only [decodeWipes, List.mem_cons, List.not_mem_nil, or_false] at he
  rcases he with rfl | rfl | rfl <;> rfl

theorem served_free (cfg : Cfg) (lib : Lib) (b : Nat) : ∀ e ∈ freeEvents cfg lib b, Served lib.deps e := by
  intro e he; simp only [freeEvents, List.mem_cons, List.not_mem_nil, or_false] at he
  rcases he with rfl | rfl <;> rfl

theorem served_decompose (cfg : Cfg) (env : Env) (lib : Lib) (s : List Nat) : ∀ e ∈ (decompose cfg env lib s).2, Served lib.deps e := by
  intro e he; simp only [decompose] at he
  split at he
  · simp at he; subst he; rfl
  · simp at he

theorem served_single (d : Deps) (e : Event) (h : Served d e) : ∀ x ∈ [e], Served d x := by
  intro x hx; simp at hx; subst hx; exact h

theorem decodeFinish_served (cfg : Cfg) (lib : Lib) (idx : List Nat) (coin : Nat) (lo : Option Nat) (pre : List Event) (w : World)
    (hpre : ∀ e ∈ pre, Served lib.deps e) : ∀ e ∈ (decodeFinish cfg lib idx coin lo pre w).events, Served lib.deps e := by
  cases hc : polyCheck (applyCoin idx coin)
  · rw [decodeFinish_checksum hc]; exact served_append _ _ _ hpre (served_wipes cfg lib)
  · rcases ha : doAlloc cfg lib w with ⟨_ | ⟨b, junk⟩, e, w1⟩
    · rw [decodeFinish_memory hc ha]
      exact served_append _ _ _ (served_append _ _ _ hpre (served_single _ _ (doAlloc_served cfg lib w _ e w1 ha))) (served_wipes cfg lib)
    · have hev := served_single _ _ (doAlloc_served cfg lib w _ e w1 ha)
      cases hs : featuresSupported lib.reserved (polyToData (applyCoin idx coin)).features
      · rw [decodeFinish_unsupported hc ha hs]
        exact served_append _ _ _ (served_append _ _ _ (served_append _ _ _ hpre hev) (served_free cfg lib b)) (served_wipes cfg lib)
      · rw [decodeFinish_ok hc ha hs]
        exact served_append _ _ _ (served_append _ _ _ hpre hev) (served_wipes cfg lib)

/-- **Memory, wiping, key derivation, normalisation, randomness and time are obtained only through the functions
given at injection**: every dependency call of every API call, for every input, names the entry of the injected
table that is responsible for it. -/
theorem step_served (cfg : Cfg) (env : Env) (lib : Lib) (op : Op) (w : World) :
    ∀ e ∈ (step cfg env lib op w).events, Served lib.deps e := by
  cases op with
  | inject d => intro e he; simp [step] at he
  | enable m => intro e he; simp [step] at he
  | create f =>
    simp only [step]
    rcases create_cases cfg lib f w with ⟨_, e⟩ | ⟨_, ⟨ev, w1, ha, e⟩ | ⟨b, junk, ev, w1, ha, e⟩⟩
    · rw [e]; intro x hx; simp at hx
    · rw [e]; exact served_single _ _ (doAlloc_served cfg lib w _ ev w1 ha)
    · rw [e]
      intro x hx
      simp only [List.mem_cons, List.not_mem_nil, or_false] at hx
      rcases hx with rfl | rfl | rfl | rfl
      · exact doAlloc_served cfg lib w _ _ w1 ha
      · rfl
      · rfl
      · rfl
  | free hd =>
    cases hd with
    | none => intro e he; simp [step] at he
    | some b =>
      simp only [step]
      cases lib.get b with
      | none => intro e he; simp at he
      | some d => exact served_free cfg lib b
  | encode h li coin =>
    simp only [step]
    cases lib.get h with
    | none => intro e he; simp at he
    | some d =>
      intro e he
      simp only [encode] at he
      split at he
      · simp at he
      · split at he <;> simp at he <;> rcases he with rfl | rfl | rfl <;> rfl
  | decode s coin =>
    simp only [step, decode]
    have hpre := served_decompose cfg env lib s
    have hpre' : ∀ e ∈ (decompose cfg env lib s).2 ++ [detectWipe cfg lib], Served lib.deps e :=
      served_append _ _ _ hpre (served_single _ _ rfl)
    split
    · exact served_append _ _ _ hpre (served_wipes cfg lib)
    · split
      · exact served_append _ _ _ hpre' (served_wipes cfg lib)
      · exact decodeFinish_served cfg lib _ coin _ _ w hpre'
  | decodeExplicit s coin li =>
    simp only [step, decodeExplicit]
    have hpre := served_decompose cfg env lib s
    split
    · exact served_append _ _ _ hpre (served_wipes cfg lib)
    · split
      · exact served_append _ _ _ hpre (served_wipes cfg lib)
      · exact decodeFinish_served cfg lib _ coin _ _ w hpre
  | keygen h coin n =>
    simp only [step]
    cases lib.get h with
    | none => intro e he; simp at he
    | some d => intro e he; simp [keygen] at he; subst he; rfl
  | store h => simp only [step]; cases lib.get h <;> (intro e he; simp at he)
  | load buf =>
    simp only [step]
    rcases ha : doAlloc cfg lib w with ⟨_ | ⟨b, junk⟩, e, w1⟩
    · rw [load_memory ha]; exact served_single _ _ (doAlloc_served cfg lib w _ e w1 ha)
    · have hev := served_single _ _ (doAlloc_served cfg lib w _ e w1 ha)
      have hpoly : ∀ x ∈ [Event.zeroStack lib.deps.memzero .poly cfg.sizeofPoly], Served lib.deps x := served_single _ _ rfl
      rcases dataLoad_cases buf with hl | ⟨d, hl⟩
      · rw [load_format ha hl]; exact served_append _ _ _ hev (served_free cfg lib b)
      · cases hc : polyCheck (d.checksum :: dataToPoly d)
        · rw [load_checksum ha hl hc]; exact served_append _ _ _ (served_append _ _ _ hev (served_free cfg lib b)) hpoly
        · cases hs : featuresSupported lib.reserved d.features
          · rw [load_unsupported ha hl hc hs]; exact served_append _ _ _ (served_append _ _ _ hev (served_free cfg lib b)) hpoly
          · rw [load_ok ha hl hc hs]; exact served_append _ _ _ hev hpoly
  | crypt h pw =>
    simp only [step]
    cases lib.get h with
    | none => intro e he; simp at he
    | some d =>
      simp only [crypt]
      apply served_append _ _ _ (served_decompose cfg env lib pw)
      intro e he
      simp only [List.mem_cons, List.not_mem_nil, or_false] at he
      rcases he with rfl | rfl | rfl | rfl <;> rfl
  | getBirthday h => simp only [step]; cases lib.get h <;> (intro e he; simp at he)
  | getFeature h m => simp only [step]; cases lib.get h <;> (intro e he; simp at he)
  | isEncrypted h => simp only [step]; cases lib.get h <;> (intro e he; simp at he)

end Polyseed.C18
