import Polyseed.Lemmas.Api
import Polyseed.Lemmas.Storage
import Polyseed.Lemmas.Gf
/-!
# C06 — serialized seeds are lossless, canonical and strictly validated

`dataStore`/`dataLoad` model `storage.c`, `store`/`load` model the API functions
(tied to the code by suites S-store and S-api).  The acceptance theorem is for
EVERY list of 32 bytes.
-/
namespace Polyseed.C06

/-- The bytes are exactly 'POLYSEED' ‖ LE16(features<<10 | birthday) ‖ 19 secret bytes ‖ FF ‖ LE16(0x7000 | check value). -/
theorem store_bytes (d : Data) (h : d.WF) :
    store d = [80, 79, 76, 89, 83, 69, 69, 68]
      ++ [(d.features * 1024 + d.birthday) % 256, (d.features * 1024 + d.birthday) / 256]
      ++ d.secret.take 19
      ++ [255]
      ++ [(0x7000 + d.checksum) % 256, (0x7000 + d.checksum) / 256] := by
  have hb := h.birthday_lt
  have hf := h.features_lt
  have hc := h.checksum_lt
  unfold store
  rw [dataStore_eq, shl10_or _ _ hb, footer_or _ hc]
  simp only [store16, STORAGE_HEADER, EXTRA_BYTE, SECRET_SIZE, Nat.shiftRight_eq_div_pow, List.append_assoc]
  have e1 : (d.features * 1024 + d.birthday) % 65536 = d.features * 1024 + d.birthday := Nat.mod_eq_of_lt (by omega)
  have e2 : (28672 + d.checksum) % 65536 = 28672 + d.checksum := Nat.mod_eq_of_lt (by omega)
  have e3 : (d.features * 1024 + d.birthday) / 2 ^ 8 % 256 = (d.features * 1024 + d.birthday) / 256 := by omega
  have e4 : (28672 + d.checksum) / 2 ^ 8 % 256 = (28672 + d.checksum) / 256 := by omega
  rw [e1, e2, e3, e4]

theorem store_length (d : Data) (h : d.WF) : (store d).length = 32 := by
  rw [store_bytes d h]
  simp [h.secret_len, SECRET_BUFFER_SIZE]

/-- Storing a canonical, supported seed and loading the bytes yields the identical seed (whenever memory is available). -/
theorem load_store (cfg : Cfg) (lib : Lib) (d : Data) (w w1 : World) (e : Event) (b : Nat) (junk : Data)
    (hd : d.Canon) (hs : featuresSupported lib.reserved d.features = true)
    (ha : doAlloc cfg lib w = (some (b, junk), e, w1)) :
    (load cfg lib (store d) w).out = (.ok, some b) ∧ (load cfg lib (store d) w).lib.get b = some d := by
  have hl := dataLoad_dataStore d hd.toWF
  have hc : polyCheck (d.checksum :: dataToPoly d) = true := (polyCheck_cons_iff _ _).mpr hd.checksum_ok
  unfold store
  rw [load_ok ha hl hc hs]
  exact ⟨rfl, by simp [Lib.get, Lib.put]⟩

/-- Acceptance: `load` returns OK for a 32-byte buffer exactly when the buffer is byte-for-byte the
serialization of a canonical seed with supported features — and that seed is what it hands out. -/
theorem load_ok_iff (cfg : Cfg) (lib : Lib) (buf : List Nat) (w w1 : World) (e : Event) (b : Nat) (junk : Data)
    (hlen : buf.length = 32) (hbytes : BytesLt buf) (ha : doAlloc cfg lib w = (some (b, junk), e, w1)) :
    (load cfg lib buf w).out.1 = .ok ↔
      ∃ d, d.Canon ∧ featuresSupported lib.reserved d.features = true ∧ store d = buf ∧
        (load cfg lib buf w).lib.get b = some d := by
  constructor
  · intro h
    rcases dataLoad_cases buf with hl | ⟨d, hl⟩
    · rw [load_format ha hl] at h; simp at h
    · cases hc : polyCheck (d.checksum :: dataToPoly d)
      · rw [load_checksum ha hl hc] at h; simp at h
      · cases hs : featuresSupported lib.reserved d.features
        · rw [load_unsupported ha hl hc hs] at h; simp at h
        · obtain ⟨hwf, hst⟩ := dataLoad_ok buf d hlen hbytes hl
          refine ⟨d, ⟨hwf, (polyCheck_cons_iff _ _).mp hc⟩, hs, hst, ?_⟩
          rw [load_ok ha hl hc hs]; simp [Lib.get, Lib.put]
  · rintro ⟨d, hd, hs, hst, _⟩
    rw [← hst]
    exact congrArg Prod.fst (load_store cfg lib d w w1 e b junk hd hs ha).1

/-- Consequently: acceptance implies that storing the loaded seed reproduces the buffer. -/
theorem store_of_loaded (cfg : Cfg) (lib : Lib) (buf : List Nat) (w w1 : World) (e : Event) (b : Nat) (junk : Data)
    (hlen : buf.length = 32) (hbytes : BytesLt buf) (ha : doAlloc cfg lib w = (some (b, junk), e, w1))
    (h : (load cfg lib buf w).out.1 = .ok) :
    ∃ d, (load cfg lib buf w).lib.get b = some d ∧ store d = buf := by
  obtain ⟨d, _, _, hst, hg⟩ := (load_ok_iff cfg lib buf w w1 e b junk hlen hbytes ha).mp h
  exact ⟨d, hg, hst⟩

/-- well-formedness of a 32-byte image, field by field (independent of the code's expression of it) -/
def WellFormedImage (buf : List Nat) : Prop :=
  buf.take 8 = [80, 79, 76, 89, 83, 69, 69, 68] ∧ buf.getD 9 0 < 128 ∧ buf.getD 28 0 < 64 ∧
    buf.getD 29 0 = 255 ∧ buf.getD 31 0 / 8 = 14

/-- Status precedence for every buffer: memory, then format, then checksum, then unsupported; no seed unless OK. -/
theorem load_status (cfg : Cfg) (lib : Lib) (buf : List Nat) (w : World) :
    let r := load cfg lib buf w
    (∀ e w1, doAlloc cfg lib w = (none, e, w1) → r.out = (.memory, none)) ∧
    (∀ a e w1, doAlloc cfg lib w = (some a, e, w1) →
      (dataLoad buf = (.format, none) → r.out = (.format, none) ∧ r.lib = lib) ∧
      (∀ d, dataLoad buf = (.ok, some d) →
        (polyCheck (d.checksum :: dataToPoly d) = false → r.out = (.checksum, none) ∧ r.lib = lib) ∧
        (polyCheck (d.checksum :: dataToPoly d) = true → featuresSupported lib.reserved d.features = false →
          r.out = (.unsupported, none) ∧ r.lib = lib))) := by
  refine ⟨fun e w1 ha => by rw [load_memory ha], fun ⟨b, junk⟩ e w1 ha => ⟨fun hl => ?_, fun d hl => ⟨fun hc => ?_, fun hc hs => ?_⟩⟩⟩
  · rw [load_format ha hl]; exact ⟨rfl, rfl⟩
  · rw [load_checksum ha hl hc]; exact ⟨rfl, rfl⟩
  · rw [load_unsupported ha hl hc hs]; exact ⟨rfl, rfl⟩

/-- the format status is returned exactly for images that are not well-formed (all byte lists of length 32). -/
theorem dataLoad_format_iff (buf : List Nat) (hlen : buf.length = 32) (hbytes : BytesLt buf) :
    dataLoad buf = (.format, none) ↔ ¬ WellFormedImage buf := by
  have hx := getD_lt buf hbytes
  have h8 := hx 8; have h9 := hx 9; have h28 := hx 28; have h30 := hx 30; have h31 := hx 31
  have hv1 := load16_eq (buf.getD 8 0) (buf.getD 9 0) h8
  have hv2 := load16_eq (buf.getD 30 0) (buf.getD 31 0) h30
  have k3 : (buf.getD 28 0 / 64) &&& 3 = buf.getD 28 0 / 64 := by
    rw [Nat.and_two_pow_sub_one_eq_mod _ 2]; omega
  have k5 : (load16 (buf.getD 30 0) (buf.getD 31 0) / 2048) &&& 31 = load16 (buf.getD 30 0) (buf.getD 31 0) / 2048 := by
    rw [and_31]; omega
  unfold WellFormedImage dataLoad
  simp only [show STORAGE_HEADER = [80, 79, 76, 89, 83, 69, 69, 68] from rfl, show DATE_BITS = 10 from rfl,
    show FEATURE_MASK = 31 from rfl, show 255 - CLEAR_MASK = 192 from rfl, show EXTRA_BYTE = 255 from rfl,
    show 65535 - GF_MASK = 63488 from rfl, show STORAGE_FOOTER = 28672 from rfl, Nat.shiftRight_eq_div_pow,
    and_192, and_63488, k3, k5]
  split
  · rename_i c; simp [c]
  · rename_i c1
    simp only [Decidable.not_not] at c1
    split
    · rename_i c; simp only [true_iff]; intro ⟨_, h, _⟩; omega
    · rename_i c2
      split
      · rename_i c; simp only [true_iff]; intro ⟨_, _, h, _⟩; omega
      · rename_i c3
        split
        · rename_i c; simp only [true_iff]; intro ⟨_, _, _, h, _⟩; exact c h
        · rename_i c4
          split
          · rename_i c; simp only [true_iff]; intro ⟨_, _, _, _, h⟩; omega
          · rename_i c5
            simp only [Decidable.not_not] at c3 c4 c5
            simp only [Prod.mk.injEq, reduceCtorEq, false_and, false_iff, Decidable.not_not]
            exact ⟨c1, by omega, by omega, c4, by omega⟩

/-- non-vacuity: the first published storage vector is the image of a canonical seed. -/
def seed1 : Data :=
  { birthday := 1, features := 0, checksum := 1427,
    secret := [0xdd, 0x76, 0xe7, 0x35, 0x9a, 0x0d, 0xed, 0x37, 0xcd, 0x0f, 0xf0, 0xf3, 0xc8, 0x29, 0xa5, 0xae, 0x01, 0x67, 0x33,
               0, 0, 0, 0, 0, 0, 0, 0, 0, 0, 0, 0, 0] }

example : seed1.Canon :=
  { birthday_lt := by decide, features_lt := by decide, checksum_lt := by decide, secret_len := by decide,
    secret_bytes := by decide, secret_top := by decide, secret_pad := by decide, checksum_ok := by decide +kernel }

example : store seed1 = [0x50, 0x4f, 0x4c, 0x59, 0x53, 0x45, 0x45, 0x44, 0x01, 0x00, 0xdd, 0x76, 0xe7, 0x35, 0x9a, 0x0d, 0xed, 0x37,
    0xcd, 0x0f, 0xf0, 0xf3, 0xc8, 0x29, 0xa5, 0xae, 0x01, 0x67, 0x33, 0xff, 0x93, 0x75] := by decide +kernel

end Polyseed.C06
