import Polyseed.Props.C08
import Polyseed.Props.C02Phrase
/-!
# C08 lifted to phrases: a phrase altered only in the permitted ways decodes to the same seed

`find_iff_rule` speaks about one token.  Here: ANY 16 tokens that the rule accepts, position by position, for the 16
words of a phrase (abbreviated to four or more letters, accents dropped or typed, in any mixture) are decoded by
`polyseed_decode_explicit` to exactly the outcome of the unaltered phrase - same status, same seed, same library state.
-/
namespace Polyseed.C08

/-- token `tok` is accepted by the rule for the word with index `i` of `L` -/
def Accepts (L : Lang) (tok : List Nat) (i : Nat) : Prop :=
  BytesOK tok ∧ ∃ hi : i < L.words.size, Rule L tok L.words[i]

/-- tokens and word indices, position by position -/
inductive AllAccept (L : Lang) : List (List Nat) → List Nat → Prop
  | nil : AllAccept L [] []
  | cons {t : List Nat} {i : Nat} {ts : List (List Nat)} {is : List Nat} :
      Accepts L t i → AllAccept L ts is → AllAccept L (t :: ts) (i :: is)

theorem AllAccept.length_eq {L : Lang} {toks : List (List Nat)} {idx : List Nat} (h : AllAccept L toks idx) :
    toks.length = idx.length := by
  induction h with
  | nil => rfl
  | cons _ _ ih => simp [ih]

/-- the lookup loop over a whole phrase: tokens accepted by the rule yield exactly the indices they stand for. -/
theorem findAll_of_accepts (L : Lang) (hL : L ∈ Gen.registry) (toks : List (List Nat)) (idx : List Nat)
    (h : AllAccept L toks idx) : findAll L toks = some idx := by
  induction h with
  | nil => rfl
  | cons hd _ ih =>
    obtain ⟨hb, hi, hr⟩ := hd
    simp only [findAll, (find_iff_rule L hL _ hb _ hi).mpr hr, ih]

/-- the result of the common tail of the decoders does not depend on the events that preceded it -/
theorem decodeFinish_pre (cfg : Cfg) (lib : Lib) (idx : List Nat) (coin : Nat) (lo : Option Nat) (pre pre' : List Event) (w : World) :
    (decodeFinish cfg lib idx coin lo pre w).out = (decodeFinish cfg lib idx coin lo pre' w).out ∧
    (decodeFinish cfg lib idx coin lo pre w).lib = (decodeFinish cfg lib idx coin lo pre' w).lib ∧
    (decodeFinish cfg lib idx coin lo pre w).w = (decodeFinish cfg lib idx coin lo pre' w).w := by
  unfold decodeFinish
  simp only
  split
  · exact ⟨rfl, rfl, rfl⟩
  · split
    · exact ⟨rfl, rfl, rfl⟩
    · split <;> exact ⟨rfl, rfl, rfl⟩

/-- explicit decoding of ANY string that normalises to 16 space-free tokens accepted by the rule for the words
`idx` is `decodeFinish` on those indices. -/
theorem decodeExplicit_of_tokens (cfg : Cfg) (env : Env) (lib : Lib) (L : Lang) (hL : L ∈ Gen.registry)
    (toks : List (List Nat)) (idx : List Nat) (hacc : AllAccept L toks idx)
    (hlen : toks.length = 16) (htok : ∀ t ∈ toks, t ≠ [] ∧ ∀ b ∈ t, b ≠ 32)
    (s : List Nat) (coin : Nat) (w : World) (hnw : cfg.numWords = 16)
    (hs : (decompose cfg env lib s).1 = joinWords [32] toks) :
    decodeExplicit cfg env lib s coin L w = decodeFinish cfg lib idx coin none (decompose cfg env lib s).2 w := by
  have hsplit := strSplit_joinWords toks htok 16 (by omega)
  rw [hlen] at hsplit
  have hfind := findAll_of_accepts L hL toks idx hacc
  simp only [decodeExplicit]
  generalize hdec : decompose cfg env lib s = dec at hs ⊢
  obtain ⟨tmp, pre⟩ := dec
  simp only at hs
  subst hs
  simp only [hnw, hsplit, phraseDecodeExplicit, hfind, ne_eq, not_true_eq_false, ↓reduceIte]

/-- **A valid phrase altered only in the permitted ways decodes to the same seed**: `s0` normalises to the 16 full
words with indices `idx`, `s` to 16 tokens each accepted by the rule for the corresponding word (abbreviations of at
least four letters, accents present or not - whatever `Rule` admits in that language).  Then explicit decoding of `s`
gives exactly the status, seed and library state that decoding `s0` gives, for every coin and allocation outcome. -/
theorem variant_decodes_same (cfg : Cfg) (env : Env) (lib : Lib) (L : Lang) (hL : L ∈ Gen.registry)
    (toks : List (List Nat)) (idx : List Nat) (hacc : AllAccept L toks idx)
    (hlen : idx.length = 16) (hidx : ∀ i ∈ idx, i < 2048) (htok : ∀ t ∈ toks, t ≠ [] ∧ ∀ b ∈ t, b ≠ 32)
    (s s0 : List Nat) (coin : Nat) (w : World) (hnw : cfg.numWords = 16)
    (hs : (decompose cfg env lib s).1 = joinWords [32] toks)
    (hs0 : (decompose cfg env lib s0).1 = joinWords [32] (idx.map (fun i => L.words.getD i []))) :
    (decodeExplicit cfg env lib s coin L w).out = (decodeExplicit cfg env lib s0 coin L w).out ∧
    (decodeExplicit cfg env lib s coin L w).lib = (decodeExplicit cfg env lib s0 coin L w).lib := by
  have hl : toks.length = 16 := by rw [hacc.length_eq, hlen]
  rw [decodeExplicit_of_tokens cfg env lib L hL toks idx hacc hl htok s coin w hnw hs,
    C02.decodeExplicit_of_words cfg env lib L (C07.tables_ok L hL) idx hlen hidx s0 coin w hnw hs0]
  have := decodeFinish_pre cfg lib idx coin none (decompose cfg env lib s).2 (decompose cfg env lib s0).2 w
  exact ⟨this.1, this.2.1⟩

/-- the full word itself is accepted (so `variant_decodes_same` is not vacuous: take `toks` = the words) -/
theorem accepts_self (L : Lang) (hL : L ∈ Gen.registry) (i : Nat) (hi : i < L.words.size) : Accepts L L.words[i] i := by
  have hT := C07.tables_ok L hL
  refine ⟨fun b hb => ?_, hi, ?_⟩
  · obtain ⟨_, h2⟩ := hT.bytes L.words[i] (by simp)
    exact ⟨(h2 b hb).1, (h2 b hb).2.1⟩
  · unfold Rule
    simp only
    split <;> simp

end Polyseed.C08

namespace Polyseed.C08

/-- the premises are met by real abbreviations: "aban" for English word 0 ("abandon") -/
example : Accepts Gen.L0.lang [97, 98, 97, 110] 0 := by
  refine ⟨fun b hb => by simp at hb; omega, by decide +kernel, ?_⟩
  unfold Rule
  decide +kernel

/-- and not by a three-letter prefix -/
example : ¬ Rule Gen.L0.lang [97, 98, 97] [97, 98, 97, 110, 100, 111, 110] := by
  unfold Rule
  decide +kernel

end Polyseed.C08
