import Polyseed.Lemmas.Api
import Polyseed.Lemmas.Bits
/-!
# C10 — reserved feature bits are refused at every entry point; enabled ones work
-/
namespace Polyseed.C10

/-- number of user bits set in `m` (bits 0..2) -/
def userBits (m : Nat) : Nat := m % 2 + m / 2 % 2 + m / 4 % 2

theorem and_bit (m i : Nat) : m &&& (1 <<< i) = (m / 2 ^ i % 2) * 2 ^ i := by
  rw [Nat.one_shiftLeft, show (2:Nat) ^ i = 1 * 2 ^ i by omega, and_mul_two_pow, Nat.one_mul, and_1]

/-- `polyseed_enable_features(m)`: the reserved set becomes "everything but the encryption bit and the
user bits of `m`" (as a number: `15 - m % 8`), the return value is the number of user bits set in `m`;
for every 32-bit argument, higher bits are ignored. -/
theorem enable_spec (m : Nat) : enableFeatures m = (15 - m % 8, userBits m) := by
  unfold enableFeatures enableLoop enableLoop enableLoop enableLoop USER_FEATURES reservedInit FEATURE_MASK ENCRYPTED_MASK userBits
  simp only [and_bit]
  have h0 : m / 2 ^ 0 % 2 = 0 ∨ m / 2 ^ 0 % 2 = 1 := by omega
  have h1 : m / 2 ^ (0 + 1) % 2 = 0 ∨ m / 2 ^ (0 + 1) % 2 = 1 := by omega
  have h2 : m / 2 ^ (0 + 1 + 1) % 2 = 0 ∨ m / 2 ^ (0 + 1 + 1) % 2 = 1 := by omega
  have e0 : m / 2 ^ 0 = m := by simp
  have e1 : m / 2 ^ (0 + 1) = m / 2 := by simp
  have e2 : m / 2 ^ (0 + 1 + 1) = m / 4 := by simp
  rcases h0 with h0 | h0 <;> rcases h1 with h1 | h1 <;> rcases h2 with h2 | h2 <;>
    simp only [h0, h1, h2] <;> rw [e0] at h0 <;> rw [e1] at h1 <;> rw [e2] at h2 <;> simp <;> omega

/-- the most recent enabling call wins: the state after a call depends on that call's argument only. -/
theorem enable_last_wins (lib : Lib) (m1 m2 : Nat) :
    (enable (enable lib m1).1 m2).1.reserved = (enable lib m2).1.reserved := rfl

theorem enable_reserved (lib : Lib) (m : Nat) : (enable lib m).1.reserved = 15 - m % 8 ∧ (enable lib m).2 = userBits (m % 2 ^ 32) := by
  unfold enable
  rw [enable_spec]
  constructor
  · show 15 - m % 2 ^ 32 % 8 = 15 - m % 8
    omega
  · rfl

/-- the rule, written without reference to the code: every set bit of the 5-bit feature value is the
encryption bit (4) or a user bit (0..2) that is enabled in `mask`. -/
def SupportedSpec (mask f : Nat) : Prop :=
  ∀ i, i < 5 → f.testBit i = true → (i = 4 ∨ (i < 3 ∧ mask.testBit i = true))

instance (mask f : Nat) : Decidable (SupportedSpec mask f) := by unfold SupportedSpec; infer_instance

theorem supported_iff_all :
    (List.range 8).all (fun mask => (List.range 32).all (fun f =>
      featuresSupported (15 - mask) f == decide (SupportedSpec mask f))) = true := by
  decide +kernel

/-- with user mask `mask` enabled, a 5-bit feature value is supported iff it has no bit outside `mask` and the encryption bit. -/
theorem supported_iff (mask f : Nat) (hm : mask < 8) (hf : f < 32) :
    featuresSupported (15 - mask) f = true ↔ SupportedSpec mask f := by
  have := List.all_eq_true.mp (List.all_eq_true.mp supported_iff_all mask (List.mem_range.mpr hm)) f (List.mem_range.mpr hf)
  simp only [beq_iff_eq] at this
  rw [this]; simp

/-- none enabled by default. -/
theorem default_mask : Lib.init.reserved = 15 - 0 % 8 := rfl

/-- `polyseed_create`: refused with the unsupported status exactly when the requested user bits are not all enabled
(before anything is allocated or any dependency is called); otherwise the stored feature bits are exactly the three low bits requested. -/
theorem create_unsupported_iff (cfg : Cfg) (lib : Lib) (f : Nat) (w : World) :
    (create cfg lib f w).out.1 = .unsupported ↔ featuresSupported lib.reserved (f % 2 ^ 32 &&& 7) = false := by
  rcases create_cases cfg lib f w with ⟨h, e⟩ | ⟨h, ⟨_, _, _, e⟩ | ⟨_, _, _, _, _, e⟩⟩ <;>
    simp [e, show f % 2 ^ 32 &&& 7 = makeFeatures (f % 2 ^ 32) from rfl, h]

theorem create_unsupported_no_events (cfg : Cfg) (lib : Lib) (f : Nat) (w : World)
    (h : (create cfg lib f w).out.1 = .unsupported) :
    (create cfg lib f w).events = [] ∧ (create cfg lib f w).lib = lib := by
  rw [create_unsupported_iff] at h
  rw [create_unsupported h]; exact ⟨rfl, rfl⟩

theorem create_features (cfg : Cfg) (lib : Lib) (f : Nat) (w : World) (b : Nat) (d : Data)
    (h : (create cfg lib f w).out = (.ok, some b)) (hd : (create cfg lib f w).lib.get b = some d) :
    d.features = f % 2 ^ 32 &&& 7 := by
  rcases create_cases cfg lib f w with ⟨_, e⟩ | ⟨_, ⟨_, _, _, e⟩ | ⟨b', _, _, _, _, e⟩⟩
  · rw [e] at h; simp at h
  · rw [e] at h; simp at h
  · rw [e] at h hd
    simp only [Prod.mk.injEq, Option.some.injEq, true_and] at h
    subst h
    simp only [Lib.get, Lib.put, List.lookup_cons_self, Option.some.injEq] at hd
    rw [← hd]; rfl

/-- feature queries return exactly the stored user bits selected by the mask. -/
theorem getFeature_spec (d : Data) (mask : Nat) : getFeature d mask = d.features &&& (mask % 2 ^ 32 &&& 7) := rfl

/-- the tail shared by both decoders: once the checksum passed and memory was obtained, the
unsupported status is returned exactly when the decoded feature bits are not supported. -/
theorem decodeFinish_unsupported_iff (cfg : Cfg) (lib : Lib) (idx : List Nat) (coin : Nat) (lo : Option Nat)
    (pre : List Event) (w : World) :
    (decodeFinish cfg lib idx coin lo pre w).out.status = .unsupported ↔
      polyCheck (applyCoin idx coin) = true ∧ (∃ a e w1, doAlloc cfg lib w = (some a, e, w1)) ∧
        featuresSupported lib.reserved (polyToData (applyCoin idx coin)).features = false := by
  cases hc : polyCheck (applyCoin idx coin)
  · rw [decodeFinish_checksum hc]; simp
  · rcases ha : doAlloc cfg lib w with ⟨_ | ⟨b, junk⟩, e, w1⟩
    · rw [decodeFinish_memory hc ha]; simp
    · cases hs : featuresSupported lib.reserved (polyToData (applyCoin idx coin)).features
      · rw [decodeFinish_unsupported hc ha hs]; simp
      · rw [decodeFinish_ok hc ha hs]; simp

/-- ... and then no seed is handed out and the block that was taken is wiped and returned. -/
theorem decodeFinish_unsupported_frees (cfg : Cfg) (lib : Lib) (idx : List Nat) (coin : Nat) (lo : Option Nat)
    (pre : List Event) (w : World) (h : (decodeFinish cfg lib idx coin lo pre w).out.status = .unsupported) :
    (decodeFinish cfg lib idx coin lo pre w).out.seed = none ∧ (decodeFinish cfg lib idx coin lo pre w).lib = lib := by
  obtain ⟨hc, ⟨⟨b, junk⟩, e, w1, ha⟩, hs⟩ := (decodeFinish_unsupported_iff ..).mp h
  rw [decodeFinish_unsupported hc ha hs]; exact ⟨rfl, rfl⟩

/-- `polyseed_load`: after allocation, format and checksum passed, unsupported iff the stored bits are not supported. -/
theorem load_unsupported_iff (cfg : Cfg) (lib : Lib) (buf : List Nat) (w : World) :
    (load cfg lib buf w).out.1 = .unsupported ↔
      (∃ a e w1, doAlloc cfg lib w = (some a, e, w1)) ∧
      ∃ d, dataLoad buf = (.ok, some d) ∧ polyCheck (d.checksum :: dataToPoly d) = true ∧
        featuresSupported lib.reserved d.features = false := by
  rcases ha : doAlloc cfg lib w with ⟨_ | ⟨b, junk⟩, e, w1⟩
  · rw [load_memory ha]; simp
  · rcases dataLoad_cases buf with hl | ⟨d, hl⟩
    · rw [load_format ha hl]; simp [hl]
    · cases hc : polyCheck (d.checksum :: dataToPoly d)
      · rw [load_checksum ha hl hc]; simp [hl, hc]
      · cases hs : featuresSupported lib.reserved d.features
        · rw [load_unsupported ha hl hc hs]; simp [hl, hc, hs]
        · rw [load_ok ha hl hc hs]; simp [hl, hc, hs]

/-- crypt, store and encode keep the user bits. -/
theorem crypt_user_bits (d : Data) (mask : List Nat) (hf : d.features < 32) :
    (cryptData d mask).features &&& 7 = d.features &&& 7 := by
  show (d.features ^^^ ENCRYPTED_MASK) &&& 7 = d.features &&& 7
  rw [Nat.and_xor_distrib_right]; simp [ENCRYPTED_MASK]

/-- non-vacuity: mask 5 accepts feature value 21 (= 16 + 4 + 1) and refuses 2. -/
example : SupportedSpec 5 21 ∧ ¬ SupportedSpec 5 2 ∧ featuresSupported (15 - 5) 21 = true ∧ featuresSupported (15 - 5) 2 = false := by
  decide

end Polyseed.C10
