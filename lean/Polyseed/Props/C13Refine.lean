import Polyseed.Model.Abstract
import Polyseed.Props.C13
import Polyseed.Props.C06
import Polyseed.Props.C10
import Polyseed.Props.C03
/-!
# C13 as a refinement: the concrete model produces exactly the outputs of the abstract seed model

`Model/Abstract.lean` is the abstract model of the property statement: a seed is (secret, birthday, features), the
library state is the enabled-feature mask, the injected functions and the live handles; every output is written with
the published format.  Here: the abstraction map `absLib`, one-step refinement `step_refines` (every operation, every
argument, every oracle answer: same output, same remaining oracle answers, and the abstraction of the new concrete
state is the new abstract state) and its lift to every finite history `run_refines`.
-/
namespace Polyseed.C13R
open Polyseed.Spec Polyseed.C13

def toAbs (d : Data) : Abs.Seed := ⟨secretNat d.secret, d.birthday, d.features⟩

/-- the abstraction map -/
def absLib (lib : Lib) : Abs.State := ⟨lib.deps, 15 - lib.reserved, lib.heap.map (fun p => (p.1, toAbs p.2))⟩

/-- `reserved_features` always has the form "all user bits and the reserved bit, minus the enabled ones" -/
def ReservedOK (lib : Lib) : Prop := 8 ≤ lib.reserved ∧ lib.reserved ≤ 15

/-! ## the handle map -/

theorem lookup_map (h : List (Nat × Data)) (x : Nat) :
    (h.map (fun p => (p.1, toAbs p.2))).lookup x = (h.lookup x).map toAbs := by
  induction h with
  | nil => rfl
  | cons p ps ih =>
    obtain ⟨k, v⟩ := p
    simp only [List.map_cons, List.lookup]
    cases hk : x == k <;> simp [ih]

theorem abs_get (lib : Lib) (h : Nat) : (absLib lib).get h = (lib.get h).map toAbs := by
  simp only [Abs.State.get, absLib, Lib.get, lookup_map]

theorem abs_put (lib : Lib) (b : Nat) (d : Data) : absLib (lib.put b d) = (absLib lib).put b (toAbs d) := by
  simp only [absLib, Lib.put, Abs.State.put, List.map_cons, List.filter_map]
  rfl

theorem abs_del (lib : Lib) (b : Nat) : absLib (lib.del b) = (absLib lib).del b := by
  simp only [absLib, Lib.del, Abs.State.del, List.filter_map]
  rfl

theorem abs_update (lib : Lib) (b : Nat) (d : Data) : absLib (lib.update b d) = (absLib lib).set b (toAbs d) := by
  simp only [absLib, Lib.update, Abs.State.set, List.map_map]
  congr 1
  apply List.map_congr_left
  intro p _
  simp only [Function.comp]
  split <;> rfl

/-! ## features, birthday -/

theorem supported_all : (List.range 8).all (fun m => (List.range 32).all (fun F =>
    Abs.supported m F == featuresSupported (15 - m) F)) = true := by decide +kernel

theorem supported_eq (m F : Nat) (hm : m < 8) (hF : F < 32) : Abs.supported m F = featuresSupported (15 - m) F := by
  have := List.all_eq_true.mp (List.all_eq_true.mp supported_all m (List.mem_range.mpr hm)) F (List.mem_range.mpr hF)
  simpa using this

theorem supported_abs (lib : Lib) (hr : ReservedOK lib) (F : Nat) (hF : F < 32) :
    Abs.supported (absLib lib).mask F = featuresSupported lib.reserved F := by
  obtain ⟨h1, h2⟩ := hr
  have := supported_eq (15 - lib.reserved) F (by omega) hF
  rw [show 15 - (15 - lib.reserved) = lib.reserved by omega] at this
  exact this

theorem month_eq (t : Nat) : Abs.month t = birthdayEncode t := by
  unfold Abs.month birthdayEncode EPOCH TIME_STEP DATE_MASK
  split
  · rfl
  · rw [show (1023 : Nat) = 2 ^ 10 - 1 from rfl, Nat.and_two_pow_sub_one_eq_mod]

/-! ## the data of a seed, field by field -/

theorem secretNat_congr (a b : List Nat) (h1 : a.take 18 = b.take 18) (h2 : a.getD 18 0 % 64 = b.getD 18 0 % 64) :
    secretNat a = secretNat b := by
  unfold secretNat; rw [h1, h2]

/-- `polyseed_create`: the secret is the 19 random bytes, top two bits of the last dropped -/
theorem toAbs_createData (junk : Data) (sf t : Nat) (rnd : List Nat) :
    toAbs (createData junk sf t rnd) =
      ⟨secretNat (rnd.take 19 ++ List.replicate (19 - rnd.length) 0), Abs.month t, sf⟩ := by
  unfold toAbs
  simp only [createData, month_eq, SECRET_SIZE, SECRET_BUFFER_SIZE, CLEAR_MASK, Nat.reduceSub]
  congr 1
  generalize hb : rnd.take 19 ++ List.replicate (19 - rnd.length) 0 = bytes
  have hl : bytes.length = 19 := by
    rw [← hb]; simp only [List.length_append, List.length_take, List.length_replicate]; omega
  apply secretNat_congr
  · rw [List.take_append_of_le_length (by simp [hl]), List.take_set_of_le (by omega)]
  · rw [Polyseed.getD_append_left' _ _ _ _ (by simp [hl])]
    simp only [List.getD, List.getElem?_set_self (show 18 < bytes.length by omega), Option.getD_some]
    rw [show (63 : Nat) = 2 ^ 6 - 1 from rfl, Nat.and_two_pow_sub_one_eq_mod]
    omega

/-- the stored secret of a canonical seed is the 19 bytes of its abstract secret, zero-padded -/
theorem secret_eq (d : Data) (h : d.Canon) : d.secret = Abs.keyPassword (toAbs d) := by
  have := congrArg Data.secret (concr_abs d h)
  simp only [concr, absSeed] at this
  exact this.symm

theorem store32_eq (x : Nat) : store32 (x % 2 ^ 32) = Abs.le32 x := by
  unfold store32 Abs.le32
  simp only [Nat.shiftRight_eq_div_pow]
  congr 1
  · omega
  · congr 1
    · omega
    · congr 1
      · omega
      · congr 1; omega

theorem keygenSalt_eq (d : Data) (coin : Nat) : keygenSalt d coin = Abs.keySalt (toAbs d) coin := by
  unfold keygenSalt Abs.keySalt toAbs
  simp only [store32_eq, List.append_assoc]
  rfl

theorem check_eq (d : Data) (h : d.WF) : Abs.check (toAbs d) = checkValue d := by
  unfold Abs.check toAbs
  rw [checkValue_eq_checkWord d h]

/-- the serialization of a canonical seed is the published image of its abstract value -/
theorem store_eq (d : Data) (h : d.Canon) : store d = Abs.storage (toAbs d) := by
  rw [C06.store_bytes d h.toWF]
  unfold Abs.storage Abs.le16
  have hb := h.birthday_lt
  have hf := h.features_lt
  have hc := h.checksum_lt
  have hs : d.secret.take 19 = secretBytes (secretNat d.secret) :=
    (secretBytes_secretNat d.secret (by rw [h.secret_len]; decide) h.secret_bytes h.secret_top).symm
  rw [check_eq d h.toWF, ← h.checksum_ok, hs]
  simp only [toAbs]
  have e1 : (d.features * 1024 + d.birthday) / 256 % 256 = (d.features * 1024 + d.birthday) / 256 := by omega
  have e2 : (28672 + d.checksum) / 256 % 256 = (28672 + d.checksum) / 256 := by omega
  rw [e1, e2]

/-! ## 16 word indices -/

theorem checkWord_eq (cs : List Nat) (h : Coeffs cs) : checkWord cs = polyEval (0 :: cs) := by
  have hp : Coeffs (0 :: cs) := by
    intro c hc
    simp only [List.mem_cons] at hc
    rcases hc with rfl | hc
    · omega
    · exact h c hc
  rw [C03.polyEval_eq_evalX _ hp]
  rfl

/-- the seed that 16 word indices stand for: the abstract reading agrees with `gf_poly_check` + `polyseed_poly_to_data` -/
theorem ofWords_eq (idx : List Nat) (coin : Nat) (hlen : idx.length = 16) (hidx : Coeffs idx) (hcoin : coin < 2048) :
    (polyCheck (applyCoin idx coin) = true → Abs.ofWords idx coin = some (toAbs (polyToData (applyCoin idx coin)))) ∧
    (polyCheck (applyCoin idx coin) = false → Abs.ofWords idx coin = none) := by
  match idx, hlen with
  | c0 :: c1 :: rest, hlen =>
    have hrest : rest.length = 14 := by simpa using hlen
    have hcs : Coeffs ((c1 ^^^ coin) :: rest) := by
      intro c hc
      simp only [List.mem_cons] at hc
      rcases hc with rfl | hc
      · exact Nat.xor_lt_two_pow (n := 11) (hidx c1 (by simp)) hcoin
      · exact hidx c (by simp [hc])
    have hl : ((c1 ^^^ coin) :: rest).length = 15 := by simp [hrest]
    simp only [Abs.ofWords, applyCoin]
    rw [checkWord_eq _ hcs]
    constructor
    · intro hc
      have := (polyCheck_cons_iff c0 _).mp hc
      rw [if_pos this.symm, polyToData_eq_spec c0 _ hl hcs]
      simp only [toAbs]
      rw [secretNat_secretBytes _ (unpack_bounds _ hl hcs).1]
    · intro hc
      have hne : ¬ polyEval (0 :: (c1 ^^^ coin) :: rest) = c0 := by
        intro e
        have := (polyCheck_cons_iff c0 _).mpr e.symm
        rw [hc] at this; exact Bool.noConfusion this
      rw [if_neg hne]

/-! ## allocation and the common tail of the constructors -/

theorem allocate_eq (cfg : Cfg) (lib : Lib) (w : World) :
    Abs.allocate w = ((doAlloc cfg lib w).1.map (·.1), (doAlloc cfg lib w).2.2) := by
  unfold Abs.allocate doAlloc
  cases w.allocs <;> rfl

theorem applyCoin_wf (idx : List Nat) (coin : Nat) (hlen : idx.length = 16) (hidx : Coeffs idx) (hcoin : coin < 2048) :
    (polyToData (applyCoin idx coin)).WF := by
  match idx, hlen with
  | c0 :: c1 :: rest, hlen =>
    have hrest : rest.length = 14 := by simpa using hlen
    simp only [applyCoin]
    apply polyToData_wf _ _ (hidx c0 (by simp)) (by simp [hrest])
    intro c hc
    simp only [List.mem_cons] at hc
    rcases hc with rfl | hc
    · exact Nat.xor_lt_two_pow (n := 11) (hidx c1 (by simp)) hcoin
    · exact hidx c (by simp [hc])

/-- the common tail of both decoders -/
theorem finish_refines (cfg : Cfg) (lib : Lib) (hr : ReservedOK lib) (idx : List Nat) (coin : Nat) (lo : Option Nat)
    (pre : List Event) (w : World) (hlen : idx.length = 16) (hidx : Coeffs idx) (hcoin : coin < 2048) :
    (match Abs.ofWords idx coin with
     | none => (absLib lib, Out.status .checksum none lo, w)
     | some x => Abs.finish (absLib lib) x lo w) =
    (absLib (decodeFinish cfg lib idx coin lo pre w).lib,
     Out.status (decodeFinish cfg lib idx coin lo pre w).out.status (decodeFinish cfg lib idx coin lo pre w).out.seed
       (decodeFinish cfg lib idx coin lo pre w).out.langOut,
     (decodeFinish cfg lib idx coin lo pre w).w) := by
  obtain ⟨hok, hbad⟩ := ofWords_eq idx coin hlen hidx hcoin
  cases hc : polyCheck (applyCoin idx coin) with
  | false => rw [hbad hc, decodeFinish_checksum hc]
  | true =>
    rw [hok hc]
    simp only [Abs.finish, allocate_eq cfg lib w]
    have hF := (applyCoin_wf idx coin hlen hidx hcoin).features_lt
    rcases hd : doAlloc cfg lib w with ⟨a, e, w1⟩
    cases a with
    | none => rw [decodeFinish_memory hc hd]; rfl
    | some bj =>
      obtain ⟨b, junk⟩ := bj
      simp only [Option.map_some]
      rw [show (toAbs (polyToData (applyCoin idx coin))).F = (polyToData (applyCoin idx coin)).features from rfl,
        supported_abs lib hr _ hF]
      cases hs : featuresSupported lib.reserved (polyToData (applyCoin idx coin)).features with
      | false => rw [decodeFinish_unsupported hc hd hs]; rfl
      | true => rw [decodeFinish_ok hc hd hs, abs_put]; rfl

/-! ## serialized images -/

theorem imageShape_iff (buf : List Nat) : Abs.imageShape buf = true ↔ C06.WellFormedImage buf := by
  simp only [Abs.imageShape, C06.WellFormedImage, Bool.and_eq_true, beq_iff_eq, decide_eq_true_eq, and_assoc]

/-- reading the image of a well-formed seed gives back its abstract value and its check value -/
theorem ofImage_store (d : Data) (h : d.WF) : Abs.ofImage (store d) = (toAbs d, d.checksum) := by
  rw [C06.store_bytes d h]
  have hb := h.birthday_lt
  have hf := h.features_lt
  have hc := h.checksum_lt
  obtain ⟨b0, b1, b2, b3, b4, b5, b6, b7, b8, b9, b10, b11, b12, b13, b14, b15, b16, b17, b18, rest, hs⟩ :=
    exists19 d.secret (by rw [h.secret_len]; decide)
  unfold Abs.ofImage toAbs
  rw [hs]
  simp only [List.take, List.cons_append, List.nil_append, List.getD_cons_succ, List.getD_cons_zero, List.drop_succ_cons, List.drop_zero,
    secretNat]
  refine Prod.ext ?_ ?_
  · simp only
    congr 1
    · omega
    · omega
  · simp only
    omega

/-- `polyseed_load` -/
theorem load_refines (cfg : Cfg) (env : Env) (lib : Lib) (hr : ReservedOK lib) (buf : List Nat) (w : World)
    (hlen : buf.length = 32) (hb : BytesLt buf) :
    Abs.step cfg env (absLib lib) (.load buf) w =
      (absLib (load cfg lib buf w).lib, Out.status (load cfg lib buf w).out.1 (load cfg lib buf w).out.2 none, (load cfg lib buf w).w) := by
  simp only [Abs.step, allocate_eq cfg lib w]
  rcases hd : doAlloc cfg lib w with ⟨a, e, w1⟩
  cases a with
  | none => rw [load_memory hd]; rfl
  | some bj =>
    obtain ⟨b, junk⟩ := bj
    simp only [Option.map_some]
    by_cases hwf : C06.WellFormedImage buf
    · rw [(imageShape_iff buf).mpr hwf]
      simp only [Bool.not_true, Bool.false_eq_true, ↓reduceIte]
      rcases dataLoad_cases buf with hf | ⟨d, hl⟩
      · exact absurd hwf ((C06.dataLoad_format_iff buf hlen hb).mp hf)
      · obtain ⟨hdw, hst⟩ := dataLoad_ok buf d hlen hb hl
        have himg : Abs.ofImage buf = (toAbs d, d.checksum) := by rw [← hst]; exact ofImage_store d hdw
        rw [himg]
        simp only
        rw [check_eq d hdw, show (toAbs d).F = d.features from rfl, supported_abs lib hr _ hdw.features_lt]
        cases hc : polyCheck (d.checksum :: dataToPoly d) with
        | false =>
          have hne : checkValue d ≠ d.checksum := by
            intro e'
            have := (polyCheck_cons_iff d.checksum (dataToPoly d)).mpr e'.symm
            rw [hc] at this; exact Bool.noConfusion this
          rw [if_pos hne, load_checksum hd hl hc]
        | true =>
          have he : checkValue d = d.checksum := ((polyCheck_cons_iff d.checksum (dataToPoly d)).mp hc).symm
          rw [if_neg (by simpa using he)]
          cases hs : featuresSupported lib.reserved d.features with
          | false => rw [load_unsupported hd hl hc hs]; rfl
          | true => rw [load_ok hd hl hc hs, abs_put]; rfl
    · have hsh : Abs.imageShape buf = false := by
        cases h : Abs.imageShape buf with
        | false => rfl
        | true => exact absurd ((imageShape_iff buf).mp h) hwf
      rw [hsh]
      simp only [Bool.not_false, ↓reduceIte]
      rw [load_format hd ((C06.dataLoad_format_iff buf hlen hb).mpr hwf)]

/-! ## the password operation: XOR of byte strings is XOR of the numbers they spell -/

theorem xor_mul_add (k A B x y : Nat) (hx : x < 2 ^ k) (hy : y < 2 ^ k) :
    (A * 2 ^ k + x) ^^^ (B * 2 ^ k + y) = (A ^^^ B) * 2 ^ k + (x ^^^ y) := by
  have hp : 0 < 2 ^ k := Nat.two_pow_pos k
  have h := Nat.div_add_mod ((A * 2 ^ k + x) ^^^ (B * 2 ^ k + y)) (2 ^ k)
  rw [Nat.xor_div_two_pow, Nat.xor_mod_two_pow] at h
  have e1 : (A * 2 ^ k + x) / 2 ^ k = A := by
    rw [Nat.mul_comm, Nat.mul_add_div hp, Nat.div_eq_of_lt hx, Nat.add_zero]
  have e2 : (B * 2 ^ k + y) / 2 ^ k = B := by
    rw [Nat.mul_comm, Nat.mul_add_div hp, Nat.div_eq_of_lt hy, Nat.add_zero]
  have e3 : (A * 2 ^ k + x) % 2 ^ k = x := by
    rw [Nat.mul_comm, Nat.mul_add_mod, Nat.mod_eq_of_lt hx]
  have e4 : (B * 2 ^ k + y) % 2 ^ k = y := by
    rw [Nat.mul_comm, Nat.mul_add_mod, Nat.mod_eq_of_lt hy]
  rw [e1, e2, e3, e4] at h
  rw [← h, Nat.mul_comm]

theorem join_xor : ∀ (as bs : List Nat), as.length = bs.length → (∀ a ∈ as, a < 256) → (∀ b ∈ bs, b < 256) →
    join 256 (List.zipWith (· ^^^ ·) as bs) = join 256 as ^^^ join 256 bs := by
  intro as
  induction as with
  | nil => intro bs h _ _; cases bs <;> simp_all [join]
  | cons a as ih =>
    intro bs h ha hb
    cases bs with
    | nil => simp at h
    | cons b bs =>
      have hl : as.length = bs.length := by simpa using h
      have ha' : ∀ x ∈ as, x < 256 := fun x hx => ha x (by simp [hx])
      have hb' : ∀ x ∈ bs, x < 256 := fun x hx => hb x (by simp [hx])
      simp only [List.zipWith_cons_cons, join, List.length_zipWith, hl, Nat.min_self]
      rw [ih bs hl ha' hb']
      have e : (256 : Nat) ^ bs.length = 2 ^ (8 * bs.length) := by
        rw [show (256 : Nat) = 2 ^ 8 from rfl, ← Nat.pow_mul]
      have l1 := join_lt 256 (by omega) as ha'
      have l2 := join_lt 256 (by omega) bs hb'
      rw [hl] at l1
      rw [e] at l1 l2 ⊢
      exact (xor_mul_add _ a b _ _ l1 l2).symm

/-- the new secret is the old one XOR the first 150 bits of the KDF output -/
theorem secretNat_crypt (s m : List Nat) (hs : 19 ≤ s.length) (hm : 19 ≤ m.length)
    (hsb : ∀ b ∈ s, b < 256) (hmb : ∀ b ∈ m, b < 256) :
    secretNat (C12.cryptSecret s m) = secretNat s ^^^ secretNat m := by
  obtain ⟨a0, a1, a2, a3, a4, a5, a6, a7, a8, a9, a10, a11, a12, a13, a14, a15, a16, a17, a18, sr, rfl⟩ := exists19 s hs
  obtain ⟨m0, m1, m2, m3, m4, m5, m6, m7, m8, m9, m10, m11, m12, m13, m14, m15, m16, m17, m18, mr, rfl⟩ := exists19 m hm
  have hz : (C12.cryptSecret (a0 :: a1 :: a2 :: a3 :: a4 :: a5 :: a6 :: a7 :: a8 :: a9 :: a10 :: a11 :: a12 :: a13 :: a14 :: a15 :: a16 :: a17 :: a18 :: sr)
      (m0 :: m1 :: m2 :: m3 :: m4 :: m5 :: m6 :: m7 :: m8 :: m9 :: m10 :: m11 :: m12 :: m13 :: m14 :: m15 :: m16 :: m17 :: m18 :: mr)) =
      List.zipWith (· ^^^ ·) [a0, a1, a2, a3, a4, a5, a6, a7, a8, a9, a10, a11, a12, a13, a14, a15, a16, a17]
        [m0, m1, m2, m3, m4, m5, m6, m7, m8, m9, m10, m11, m12, m13, m14, m15, m16, m17] ++ (((a18 ^^^ m18) &&& 63) :: sr) := by
    simp [C12.cryptSecret, xorPrefix, SECRET_SIZE, CLEAR_MASK, List.set, List.getD]
  rw [hz]
  unfold secretNat
  have t1 : (List.zipWith (· ^^^ ·) [a0, a1, a2, a3, a4, a5, a6, a7, a8, a9, a10, a11, a12, a13, a14, a15, a16, a17]
      [m0, m1, m2, m3, m4, m5, m6, m7, m8, m9, m10, m11, m12, m13, m14, m15, m16, m17] ++ (((a18 ^^^ m18) &&& 63) :: sr)).take 18 =
      List.zipWith (· ^^^ ·) [a0, a1, a2, a3, a4, a5, a6, a7, a8, a9, a10, a11, a12, a13, a14, a15, a16, a17]
        [m0, m1, m2, m3, m4, m5, m6, m7, m8, m9, m10, m11, m12, m13, m14, m15, m16, m17] := by simp
  have t2 : (List.zipWith (· ^^^ ·) [a0, a1, a2, a3, a4, a5, a6, a7, a8, a9, a10, a11, a12, a13, a14, a15, a16, a17]
      [m0, m1, m2, m3, m4, m5, m6, m7, m8, m9, m10, m11, m12, m13, m14, m15, m16, m17] ++ (((a18 ^^^ m18) &&& 63) :: sr)).getD 18 0 =
      (a18 ^^^ m18) &&& 63 := by simp [List.getD]
  have hA : ∀ a ∈ [a0, a1, a2, a3, a4, a5, a6, a7, a8, a9, a10, a11, a12, a13, a14, a15, a16, a17], a < 256 :=
    fun a ha => hsb a (List.mem_of_mem_take (l := a0 :: a1 :: a2 :: a3 :: a4 :: a5 :: a6 :: a7 :: a8 :: a9 :: a10 :: a11 :: a12 :: a13 :: a14 :: a15 :: a16 :: a17 :: a18 :: sr) (i := 18) ha)
  have hM : ∀ b ∈ [m0, m1, m2, m3, m4, m5, m6, m7, m8, m9, m10, m11, m12, m13, m14, m15, m16, m17], b < 256 :=
    fun b hb => hmb b (List.mem_of_mem_take (l := m0 :: m1 :: m2 :: m3 :: m4 :: m5 :: m6 :: m7 :: m8 :: m9 :: m10 :: m11 :: m12 :: m13 :: m14 :: m15 :: m16 :: m17 :: m18 :: mr) (i := 18) hb)
  rw [t1, t2, join_xor [a0, a1, a2, a3, a4, a5, a6, a7, a8, a9, a10, a11, a12, a13, a14, a15, a16, a17] [m0, m1, m2, m3, m4, m5, m6, m7, m8, m9, m10, m11, m12, m13, m14, m15, m16, m17] rfl hA hM]
  simp only [List.take, List.getD_cons_succ, List.getD_cons_zero]
  rw [show (63 : Nat) = 2 ^ 6 - 1 from rfl, Nat.and_two_pow_sub_one_eq_mod, Nat.mod_mod, Nat.xor_mod_two_pow,
    show (64 : Nat) = 2 ^ 6 from rfl]
  exact (xor_mul_add 6 _ _ _ _ (Nat.mod_lt _ (by omega)) (Nat.mod_lt _ (by omega))).symm

/-! ## one step -/

/-- the KDF fills the key buffer it is given: `n` bytes -/
def KdfLen (env : Env) : Prop := ∀ f pw salt it n, (env.kdf f pw salt it n).length = n

theorem decompose_deps (cfg : Cfg) (env : Env) (lib : Lib) (s : List Nat) :
    (decompose cfg env ⟨(absLib lib).deps, 0, []⟩ s).1 = (decompose cfg env lib s).1 := rfl

theorem makeFeatures_eq (f : Nat) : makeFeatures (f % 2 ^ 32) = f % 8 := by
  unfold makeFeatures USER_FEATURES_MASK
  rw [show (7 : Nat) = 2 ^ 3 - 1 from rfl, Nat.and_two_pow_sub_one_eq_mod]
  omega

theorem encode_refines (cfg : Cfg) (env : Env) (lib : Lib) (d : Data) (h : d.Canon) (L : Lang) (coin : Nat) :
    Abs.phrase cfg env (absLib lib).deps L (toAbs d) coin = (encode cfg env lib d L coin).1 := by
  unfold Abs.phrase encode toAbs
  simp only [C03.encodeTmp_eq_spec L d h coin]
  split
  · rfl
  · split <;> rfl

theorem toAbs_crypt (d : Data) (m : List Nat) (h : d.Canon) (hm : ∀ b ∈ m, b < 256) (hl : m.length = 32) :
    toAbs (cryptData d m) = ⟨secretNat d.secret ^^^ secretNat m, d.birthday, d.features ^^^ 16⟩ := by
  unfold toAbs
  rw [C12.cryptData_secret, C12.cryptData_features, C12.cryptData_birthday,
    secretNat_crypt d.secret m (by rw [h.secret_len]; decide) (by omega) h.secret_bytes hm]

/-- **Every operation, on every state the library can be in, with every argument and every answer of the injected
functions, gives exactly the output of the abstract model, consumes the same oracle answers, and leaves a state whose
abstraction is the abstract model's new state.** -/
theorem step_refines (cfg : Cfg) (env : Env) (lib : Lib) (op : Op) (w : World) (hcfg : CfgOK cfg) (hor : OraclesOK env w)
    (hk : KdfLen env) (hop : OpOK op) (hinv : AllCanon lib) (hr : ReservedOK lib) :
    Abs.step cfg env (absLib lib) op w =
      (absLib (step cfg env lib op w).lib, (step cfg env lib op w).out, (step cfg env lib op w).w) := by
  cases op with
  | inject d => rfl
  | enable m =>
    simp only [Abs.step, step]
    have := C10.enable_reserved lib m
    refine Prod.ext ?_ (Prod.ext ?_ rfl)
    · simp only [absLib]
      rw [this.1]
      simp only [enable]
      congr 1
      omega
    · simp only [this.2, C10.userBits]
      congr 1
      omega
  | create f =>
    simp only [Abs.step, step]
    have hF : f % 8 < 32 := by omega
    rw [supported_abs lib hr _ hF, ← makeFeatures_eq f]
    rcases create_cases cfg lib f w with ⟨hs, e⟩ | ⟨hs, ⟨ev, w1, ha, e⟩ | ⟨b, junk, ev, w1, ha, e⟩⟩
    · rw [e, hs]; rfl
    · rw [e, hs]
      simp only [Bool.not_true, Bool.false_eq_true, ↓reduceIte, allocate_eq cfg lib w, ha, Option.map_none]
    · rw [e, hs]
      simp only [Bool.not_true, Bool.false_eq_true, ↓reduceIte, allocate_eq cfg lib w, ha, Option.map_some, abs_put, toAbs_createData]
  | free hd =>
    cases hd with
    | none => rfl
    | some b =>
      simp only [Abs.step, step, abs_get]
      cases lib.get b with
      | none => rfl
      | some d => simp only [Option.map_some, free, abs_del]
  | encode hh li coin =>
    simp only [Abs.step, step, abs_get]
    cases hg : lib.get hh with
    | none => rfl
    | some d => simp only [Option.map_some, encode_refines cfg env lib d (hinv hh d hg)]
  | decode s coin =>
    rcases hdec : decompose cfg env lib s with ⟨tmp, pre⟩
    rcases hsp : strSplit cfg.numWords tmp with ⟨toks, n⟩
    simp only [Abs.step, step, decode, decompose_deps, hdec, hsp]
    split
    · rfl
    · rename_i hn
      have hn' : n = cfg.numWords := by simpa using hn
      split
      · rfl
      · rename_i hst
        have hst' : (phraseDecode cfg.langs toks).status = .ok := by simpa using hst
        obtain ⟨L, hL, hf⟩ := phraseDecode_ok_sound cfg.langs toks hst'
        obtain ⟨hl, hlt⟩ := findAll_sound L toks _ hf
        have htl : toks.length = 16 := by
          have := strSplit_len cfg.numWords tmp (by rw [hsp]; exact hn')
          rw [hsp] at this; simpa [hcfg.numWords] using this
        exact finish_refines cfg lib hr _ coin _ _ w (by rw [hl, htl])
          (fun x hx => Nat.lt_of_lt_of_le (hlt x hx) (hcfg.sizes' L hL)) hop
  | decodeExplicit s coin li =>
    rcases hdec : decompose cfg env lib s with ⟨tmp, pre⟩
    rcases hsp : strSplit cfg.numWords tmp with ⟨toks, n⟩
    simp only [Abs.step, step, decodeExplicit, decompose_deps, hdec, hsp]
    split
    · rfl
    · rename_i hn
      have hn' : n = cfg.numWords := by simpa using hn
      rcases hf : findAll (langAt cfg li) toks with _ | idx
      · have : phraseDecodeExplicit (langAt cfg li) toks = (.lang, []) := by simp [phraseDecodeExplicit, hf]
        rw [this]; rfl
      · have : phraseDecodeExplicit (langAt cfg li) toks = (.ok, idx) := by simp [phraseDecodeExplicit, hf]
        rw [this]
        obtain ⟨hl, hlt⟩ := findAll_sound _ toks _ hf
        have htl : toks.length = 16 := by
          have := strSplit_len cfg.numWords tmp (by rw [hsp]; exact hn')
          rw [hsp] at this; simpa [hcfg.numWords] using this
        simp only [ne_eq, not_true_eq_false, ↓reduceIte]
        exact finish_refines cfg lib hr idx coin none pre w (by rw [hl, htl])
          (fun x hx => Nat.lt_of_lt_of_le (hlt x hx) (hcfg.sizes li)) hop
  | keygen hh coin n =>
    simp only [Abs.step, step, abs_get]
    cases hg : lib.get hh with
    | none => rfl
    | some d =>
      simp only [Option.map_some, keygen, KDF_NUM_ITERATIONS, ← secret_eq d (hinv hh d hg), ← keygenSalt_eq]
      rfl
  | store hh =>
    simp only [Abs.step, step, abs_get]
    cases hg : lib.get hh with
    | none => rfl
    | some d => simp only [Option.map_some, store_eq d (hinv hh d hg)]
  | load buf => exact load_refines cfg env lib hr buf w hop.1 hop.2
  | crypt hh pw =>
    simp only [Abs.step, step, abs_get]
    cases hg : lib.get hh with
    | none => rfl
    | some d =>
      simp only [Option.map_some, crypt, decompose_deps, abs_update, KDF_NUM_ITERATIONS]
      rw [toAbs_crypt d _ (hinv hh d hg) (hor.kdf_bytes _ _ _ _ _) (hk _ _ _ _ _)]
      rfl
  | getBirthday hh =>
    simp only [Abs.step, step, abs_get]
    cases hg : lib.get hh with
    | none => rfl
    | some d =>
      simp only [Option.map_some, getBirthday]
      rw [(C11.birthday_form d.birthday (hinv hh d hg).birthday_lt).1]
      rfl
  | getFeature hh m =>
    simp only [Abs.step, step, abs_get]
    cases hg : lib.get hh with
    | none => rfl
    | some d =>
      have e : m % 2 ^ 32 &&& 7 = m % 8 := by
        rw [show (7 : Nat) = 2 ^ 3 - 1 from rfl, Nat.and_two_pow_sub_one_eq_mod]
        omega
      simp only [Option.map_some, getFeature, getFeatures, USER_FEATURES_MASK, toAbs, e]
  | isEncrypted hh =>
    simp only [Abs.step, step, abs_get]
    cases hg : lib.get hh with
    | none => rfl
    | some d =>
      simp only [Option.map_some, isEncryptedSeed, isEncrypted, ENCRYPTED_MASK, toAbs]
      have hf := (hinv hh d hg).features_lt
      have := C10.and_bit d.features 4
      rw [show (1 <<< 4 : Nat) = 16 from rfl, show (2 : Nat) ^ 4 = 16 from rfl] at this
      rcases Nat.lt_or_ge d.features 16 with h16 | h16
      · have h0 : d.features / 16 % 2 = 0 := by omega
        simp [this, h0]
      · have h1 : d.features / 16 % 2 = 1 := by omega
        simp [this, h1]

/-! ## every history -/

theorem reserved_step (cfg : Cfg) (env : Env) (lib : Lib) (op : Op) (w : World) (hr : ReservedOK lib) :
    ReservedOK (step cfg env lib op w).lib := by
  have keep : ∀ l : Lib, l.reserved = lib.reserved → ReservedOK l := fun l e => by unfold ReservedOK; rw [e]; exact hr
  cases op with
  | inject d => exact keep _ rfl
  | enable m =>
    simp only [step]
    have := (C10.enable_reserved lib m).1
    unfold ReservedOK; rw [this]; omega
  | create f =>
    simp only [step]
    rcases create_cases cfg lib f w with ⟨_, e⟩ | ⟨_, ⟨ev, w1, ha, e⟩ | ⟨b, junk, ev, w1, ha, e⟩⟩ <;> rw [e] <;> exact keep _ rfl
  | free hd =>
    cases hd with
    | none => exact hr
    | some b => simp only [step]; cases lib.get b <;> exact keep _ rfl
  | encode hh li coin => simp only [step]; cases lib.get hh <;> exact hr
  | decode s coin =>
    simp only [step, decode]
    split
    · exact hr
    · split
      · exact hr
      · apply keep
        simp only [decodeFinish]
        split
        · rfl
        · split
          · rfl
          · split <;> rfl
  | decodeExplicit s coin li =>
    simp only [step, decodeExplicit]
    split
    · exact hr
    · split
      · exact hr
      · apply keep
        simp only [decodeFinish]
        split
        · rfl
        · split
          · rfl
          · split <;> rfl
  | keygen hh coin n => simp only [step]; cases lib.get hh <;> exact hr
  | store hh => simp only [step]; cases lib.get hh <;> exact hr
  | load buf =>
    simp only [step]
    apply keep
    simp only [load]
    split
    · rfl
    · split
      · rfl
      · split
        · rfl
        · split <;> rfl
  | crypt hh pw => simp only [step]; cases lib.get hh <;> exact keep _ rfl
  | getBirthday hh => simp only [step]; cases lib.get hh <;> exact hr
  | getFeature hh m => simp only [step]; cases lib.get hh <;> exact hr
  | isEncrypted hh => simp only [step]; cases lib.get hh <;> exact hr

theorem reserved_init : ReservedOK Lib.init := by
  unfold ReservedOK Lib.init
  decide

/-- **Any finite sequence of API calls behaves like the abstract seed model**: from any state the library can be in
(all seeds canonical - in particular the initial state), for every history, every argument and every answer of the
injected random source, clock, allocator, KDF and normalisers, the list of outputs is exactly that of the abstract
model started in the abstraction of that state, and the final states correspond. -/
theorem run_refines (cfg : Cfg) (env : Env) (hcfg : CfgOK cfg) (hk : KdfLen env) : ∀ (ops : List Op) (lib : Lib) (w : World),
    OraclesOK env w → (∀ op ∈ ops, OpOK op) → AllCanon lib → ReservedOK lib →
    Abs.run cfg env (absLib lib) ops w =
      (absLib (run cfg env lib ops w).1, (run cfg env lib ops w).2.1, (run cfg env lib ops w).2.2.2) := by
  intro ops
  induction ops with
  | nil => intro lib w _ _ _ _; rfl
  | cons op ops ih =>
    intro lib w hor hops hinv hr
    have hop := hops op (by simp)
    simp only [Abs.run, run, step_refines cfg env lib op w hcfg hor hk hop hinv hr]
    rw [ih (step cfg env lib op w).lib (step cfg env lib op w).w
      ⟨hor.kdf_bytes, fun r hr' => hor.rand_ok r (step_rands cfg env lib op w r hr')⟩
      (fun o ho => hops o (by simp [ho]))
      (inv_step cfg env lib op w hcfg hor hop hinv)
      (reserved_step cfg env lib op w hr)]

theorem run_refines_init (cfg : Cfg) (env : Env) (hcfg : CfgOK cfg) (hk : KdfLen env) (ops : List Op) (w : World)
    (hor : OraclesOK env w) (hops : ∀ op ∈ ops, OpOK op) :
    (Abs.run cfg env Abs.State.init ops w).2.1 = (run cfg env Lib.init ops w).2.1 := by
  have := run_refines cfg env hcfg hk ops Lib.init w hor hops inv_init reserved_init
  rw [show absLib Lib.init = Abs.State.init from rfl] at this
  rw [this]

/-! ## the premises are met, and both models compute: a small history evaluated by the kernel -/

def cfg0 : Cfg := { strSize := 544, sizeofData := 48, sizeofPoly := 128, sizeofPhrase := 128, sizeofIdx := 128, numWords := 16, langs := [] }
def env0 : Env := { kdf := fun _ _ _ _ n => List.replicate n 7, nfc := fun _ s => s, nfkd := fun _ s => s }
def w0 : World :=
  { rands := [[1, 2, 3, 4, 5, 6, 7, 8, 9, 10, 11, 12, 13, 14, 15, 16, 17, 18, 255]], times := [1700000000], allocs := [some (5, default)] }
def ops0 : List Op := [.enable 1, .create 1, .store 5, .getBirthday 5, .crypt 5 [112], .isEncrypted 5, .keygen 5 0 4]

example : CfgOK cfg0 :=
  ⟨rfl, fun li => by simp [langAt, cfg0]; exact Nat.zero_le _, fun L hL => by simp [cfg0] at hL⟩
example : KdfLen env0 := fun _ _ _ _ n => by simp [env0]
example : OraclesOK env0 w0 :=
  ⟨fun _ _ _ _ n b hb => by simp [env0] at hb; omega, fun r hr b hb => by simp [w0] at hr; subst hr; simp at hb; omega⟩
example : ∀ op ∈ ops0, OpOK op := by
  intro op h
  simp only [ops0, List.mem_cons, List.not_mem_nil, or_false] at h
  rcases h with rfl | rfl | rfl | rfl | rfl | rfl | rfl <;> trivial

/-- created at 1700000000 with feature 1 from random bytes 1..18,255: the image, the birthday, the flag after the
password operation - computed by the ABSTRACT model -/
example : (Abs.run cfg0 env0 Abs.State.init ops0 w0).2.1 =
    [.num 1, .status .ok (some 5) none,
     .bytes [80, 79, 76, 89, 83, 69, 69, 68, 24, 4, 1, 2, 3, 4, 5, 6, 7, 8, 9, 10, 11, 12, 13, 14, 15, 16, 17, 18, 63, 255, 99, 117],
     .num 1698881904, .unit, .num 1, .bytes [7, 7, 7, 7]] := by rfl

end Polyseed.C13R
