import Polyseed.Lemmas.Api
import Polyseed.Lemmas.Bits
/-!
# C18 — injected dependencies are honoured; new seeds carry the full CSPRNG output
-/
namespace Polyseed.C18

/-- `polyseed_inject` replaces every entry, independent of what was injected before; NULL `time`, `alloc`,
`free` become the libc functions. -/
theorem inject_replaces (lib : Lib) (d : Deps) :
    (inject lib d).deps = { d with time := if d.time = 0 then LIBC_TIME else d.time,
                                   alloc := if d.alloc = 0 then LIBC_MALLOC else d.alloc,
                                   free := if d.free = 0 then LIBC_FREE else d.free } := rfl

theorem inject_last_wins (lib : Lib) (d1 d2 : Deps) : (inject (inject lib d1) d2).deps = (inject lib d2).deps := rfl

/-- libc functions are used exactly when the corresponding optional entry is NULL. -/
theorem inject_optional (lib : Lib) (d : Deps) :
    ((inject lib d).deps.time = LIBC_TIME ↔ d.time = 0 ∨ d.time = LIBC_TIME) ∧
    ((inject lib d).deps.alloc = LIBC_MALLOC ↔ d.alloc = 0 ∨ d.alloc = LIBC_MALLOC) ∧
    ((inject lib d).deps.free = LIBC_FREE ↔ d.free = 0 ∨ d.free = LIBC_FREE) := by
  simp only [inject, fillDefaults]
  refine ⟨?_, ?_, ?_⟩ <;> (split <;> simp_all)

/-- the other five entries are taken as given. -/
theorem inject_mandatory (lib : Lib) (d : Deps) :
    (inject lib d).deps.randbytes = d.randbytes ∧ (inject lib d).deps.pbkdf2 = d.pbkdf2 ∧
    (inject lib d).deps.memzero = d.memzero ∧ (inject lib d).deps.nfc = d.nfc ∧ (inject lib d).deps.nfkd = d.nfkd :=
  ⟨rfl, rfl, rfl, rfl, rfl⟩

/-- injection touches neither the feature mask nor any seed. -/
theorem inject_frame (lib : Lib) (d : Deps) : (inject lib d).reserved = lib.reserved ∧ (inject lib d).heap = lib.heap := ⟨rfl, rfl⟩

/-- A successful `polyseed_create` calls exactly: the injected allocator, the injected clock, the injected
random source for 19 bytes, the injected wipe (for its polynomial) — in this order, nothing else. -/
theorem create_events (cfg : Cfg) (lib : Lib) (f : Nat) (w : World) (b : Nat)
    (h : (create cfg lib f w).out = (.ok, some b)) :
    ∃ junk e w1, doAlloc cfg lib w = (some (b, junk), e, w1) ∧
      e = .alloc lib.deps.alloc cfg.sizeofData (some b) ∧
      (create cfg lib f w).events =
        [e, .time lib.deps.time (w1.times.headD 0), .rand lib.deps.randbytes 19 (w1.rands.headD []),
         .zeroStack lib.deps.memzero .poly cfg.sizeofPoly] ∧
      (create cfg lib f w).lib.get b =
        some (createData junk (makeFeatures (f % 2 ^ 32)) (w1.times.headD 0) (w1.rands.headD [])) := by
  rcases create_cases cfg lib f w with ⟨_, e⟩ | ⟨_, ⟨_, _, _, e⟩ | ⟨b', junk, ev, w1, ha, e⟩⟩
  · rw [e] at h; simp at h
  · rw [e] at h; simp at h
  · rw [e] at h ⊢
    simp only [Prod.mk.injEq, Option.some.injEq, true_and] at h
    subst h
    refine ⟨junk, ev, w1, ha, ?_, rfl, by simp [Lib.get, Lib.put]⟩
    unfold doAlloc at ha
    split at ha
    · simp at ha
    · rename_i a rest hw
      simp only [Prod.mk.injEq] at ha
      obtain ⟨h1, h2, _⟩ := ha
      subst h1; rw [← h2]; rfl

/-- the 150 secret bits are exactly the 19 random bytes with the top two bits of the last byte dropped;
bytes 19..31 are zero; nothing of the previous contents of the block (junk) survives. -/
theorem create_secret (junk : Data) (sf t : Nat) (rnd : List Nat) (hlen : rnd.length = 19) :
    (createData junk sf t rnd).secret = rnd.set 18 (rnd.getD 18 0 &&& 63) ++ List.replicate 13 0 ∧
    (createData junk sf t rnd).birthday = birthdayEncode t ∧
    (createData junk sf t rnd).features = sf := by
  refine ⟨?_, rfl, rfl⟩
  simp only [createData, SECRET_SIZE, SECRET_BUFFER_SIZE, CLEAR_MASK, hlen, Nat.sub_self, List.replicate_zero, List.append_nil]
  rw [List.take_of_length_le (by omega)]

/-- the map from the 150 bits delivered by the random source to the secret is injective:
two outputs that differ in any of the 150 bits give different secrets. -/
theorem create_secret_inj (r1 r2 : List Nat) (h1 : r1.length = 19) (h2 : r2.length = 19)
    (h : r1.set 18 (r1.getD 18 0 &&& 63) = r2.set 18 (r2.getD 18 0 &&& 63)) :
    r1.take 18 = r2.take 18 ∧ r1.getD 18 0 % 64 = r2.getD 18 0 % 64 := by
  constructor
  · have := congrArg (List.take 18) h
    simpa [List.take_set_of_le] using this
  · have := congrArg (fun l => l.getD 18 0) h
    simp only [List.getD, List.getElem?_set_self (show 18 < r1.length by omega), List.getElem?_set_self (show 18 < r2.length by omega), Option.getD_some] at this
    rw [and_63, and_63] at this
    simpa [List.getD] using this

/-- the result does not depend on what the fresh block contained. -/
theorem create_junk_independent (j1 j2 : Data) (sf t : Nat) (rnd : List Nat) :
    createData j1 sf t rnd = createData j2 sf t rnd := rfl

/-- non-vacuity: 19 bytes of all-ones give the all-ones 150-bit secret. -/
example : (createData default 0 0 (List.replicate 19 255)).secret = List.replicate 18 255 ++ [63] ++ List.replicate 13 0 := by
  decide +kernel

end Polyseed.C18
