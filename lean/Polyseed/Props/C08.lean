import Polyseed.Lemmas.Search
import Polyseed.Lemmas.Rule
import Polyseed.Props.C07
/-!
# C08 — abbreviated and unaccented words are accepted by one exact rule, and only by it

`Rule L tok w` is written without reference to the code.  `find_iff_rule` says that for EVERY token (NUL-free
byte string, as the tokeniser delivers it after NFKD) and every index the library's lookup returns that index
exactly when the rule accepts the token for that word — in all ten languages.

For Spanish and French the comparison form is `strip`: the string without its bytes >= 0x80.  On NFKD text of
the Latin script these bytes are exactly the combining accents, which is what the property asks for; bytes
>= 0x80 that are NOT accents are dropped as well (open finding D6), so with `strip` read as "drop accents" the
statement is the property's, and read literally it states precisely what the code accepts.
-/
namespace Polyseed.C08

/-- the rule: exact word; or, where abbreviation is allowed, a prefix of at least four letters; compared on the
accent-stripped forms where accents are ignored. -/
def Rule (L : Lang) (tok w : List Nat) : Prop :=
  let t := if L.hasAccents then strip tok else tok
  let e := if L.hasAccents then strip w else w
  if L.hasPrefix then t = e ∨ (4 ≤ t.length ∧ t <+: e) else t = e

theorem comparer_zero_iff (L : Lang) (tok w : List Nat) (ht : BytesOK tok) (hw : BytesOK w) :
    getComparer L tok w = 0 ↔ Rule L tok w := by
  unfold getComparer Rule NUM_CHARS_PREFIX
  cases hp : L.hasPrefix <;> cases ha : L.hasAccents <;> simp only [↓reduceIte, Bool.false_eq_true]
  · exact cmpStr_eq_zero tok w ht hw
  · rw [cmpStrNoaccent_eq]; exact cmpStr_eq_zero _ _ (strip_bytesOK tok ht) (strip_bytesOK w hw)
  · rw [cmpPrefix_eq_zero 4 tok w 1 ht hw]
    constructor
    · rintro (h | ⟨_, h2, h3⟩)
      · exact Or.inl h
      · exact Or.inr ⟨by omega, h3⟩
    · rintro (h | ⟨h2, h3⟩)
      · exact Or.inl h
      · exact Or.inr ⟨by intro h; rw [h] at h2; simp at h2, by omega, h3⟩
  · rw [cmpPrefixNoaccent_eq, cmpPrefix_eq_zero 4 _ _ 1 (strip_bytesOK tok ht) (strip_bytesOK w hw)]
    constructor
    · rintro (h | ⟨_, h2, h3⟩)
      · exact Or.inl h
      · exact Or.inr ⟨by omega, h3⟩
    · rintro (h | ⟨h2, h3⟩)
      · exact Or.inl h
      · exact Or.inr ⟨by intro h; rw [h] at h2; simp at h2, by omega, h3⟩

/-- **only by the rule**: whatever index the lookup returns, the rule accepts the token for that word
(every language, every token). -/
theorem find_only_by_rule (L : Lang) (hL : L ∈ Gen.registry) (tok : List Nat) (htok : BytesOK tok) (i : Nat)
    (h : findWord L tok = some i) : ∃ hi : i < L.words.size, Rule L tok L.words[i] := by
  obtain ⟨hi, hz⟩ := findWord_sound L tok i h
  have hT := C07.tables_ok L hL
  have hw : BytesOK L.words[i] := fun b hb =>
    let ⟨_, h2⟩ := hT.bytes L.words[i] (by simp); ⟨(h2 b hb).1, (h2 b hb).2.1⟩
  exact ⟨hi, (comparer_zero_iff L tok _ htok hw).mp hz⟩

theorem mem_prefixes4 (e t : List Nat) (h4 : 4 ≤ t.length) (hp : t <+: e) (hne : t ≠ e) : t ∈ prefixes4 e := by
  unfold prefixes4
  simp only [List.mem_filterMap, List.mem_range]
  have hle := hp.length_le
  have hlt : t.length < e.length := by
    rcases Nat.lt_or_ge t.length e.length with h | h
    · exact h
    · exact absurd (List.IsPrefix.eq_of_length_le hp h) hne
  exact ⟨t.length, hlt, by simp only [h4, ↓reduceIte, Option.some.injEq]; exact (List.prefix_iff_eq_take.mp hp).symm⟩

/-- the abbreviating languages are searched with `bsearch` -/
theorem prefix_sorted : ∀ L ∈ Gen.registry, L.hasPrefix = true → L.isSorted = true := by
  intro L hL
  simp only [Gen.registry, List.mem_cons, List.not_mem_nil, or_false] at hL
  rcases hL with rfl | rfl | rfl | rfl | rfl | rfl | rfl | rfl | rfl | rfl <;> decide +kernel

/-- the lookup depends on the token only through its comparison form -/
theorem findWord_strip (L : Lang) (hp : L.hasPrefix = true) (ha : L.hasAccents = true) (tok : List Nat) :
    findWord L tok = findWord L (strip tok) := by
  have : getComparer L tok = getComparer L (strip tok) := by
    funext elm
    simp only [getComparer, hp, ha, ↓reduceIte, cmpPrefixNoaccent_eq, strip_idem]
  unfold findWord langSearch
  rw [this]

/-- **the rule accepts ⇒ the lookup finds**, and with `find_only_by_rule`:
a token is accepted for word `i` IF AND ONLY IF the rule accepts it for that word. -/
theorem find_iff_rule (L : Lang) (hL : L ∈ Gen.registry) (tok : List Nat) (htok : BytesOK tok) (i : Nat) (hi : i < L.words.size) :
    findWord L tok = some i ↔ Rule L tok L.words[i] := by
  constructor
  · intro h; exact (find_only_by_rule L hL tok htok i h).2
  · intro h
    have hT := C07.tables_ok L hL
    unfold Rule at h
    cases hp : L.hasPrefix
    · -- exact languages
      simp only [hp, Bool.false_eq_true, ↓reduceIte] at h
      cases ha : L.hasAccents
      · simp only [ha, Bool.false_eq_true, ↓reduceIte] at h; rw [h]; exact hT.finds i hi
      · -- no shipped language has accents without abbreviation
        exfalso
        simp only [Gen.registry, List.mem_cons, List.not_mem_nil, or_false] at hL
        rcases hL with rfl | rfl | rfl | rfl | rfl | rfl | rfl | rfl | rfl | rfl <;> simp_all (config := { decide := true })
    · have hs := prefix_sorted L hL hp
      simp only [hp, ↓reduceIte] at h
      cases ha : L.hasAccents
      · simp only [ha, Bool.false_eq_true, ↓reduceIte] at h
        rcases h with h | ⟨h4, hpre⟩
        · rw [h]; exact hT.finds i hi
        · by_cases heq : tok = L.words[i]
          · rw [heq]; exact hT.finds i hi
          · apply hT.findsKeys hs i hi
            simp only [keysOf, hp, ha, ↓reduceIte, Bool.false_eq_true, List.mem_cons]
            right; right; exact mem_prefixes4 _ _ h4 hpre heq
      · simp only [ha, ↓reduceIte] at h
        rw [findWord_strip L hp ha tok]
        rcases h with h | ⟨h4, hpre⟩
        · apply hT.findsKeys hs i hi
          simp only [keysOf, hp, ha, ↓reduceIte, List.mem_cons]
          right; left; exact h
        · by_cases heq : strip tok = strip L.words[i]
          · apply hT.findsKeys hs i hi
            simp only [keysOf, hp, ha, ↓reduceIte, List.mem_cons]
            right; left; exact heq
          · apply hT.findsKeys hs i hi
            simp only [keysOf, hp, ha, ↓reduceIte, List.mem_cons]
            right; right; exact mem_prefixes4 _ _ h4 hpre heq

/-- In Japanese, Korean and Chinese only the exact word is accepted. -/
theorem find_exact_iff (L : Lang) (hL : L ∈ Gen.registry) (hp : L.hasPrefix = false) (ha : L.hasAccents = false)
    (tok : List Nat) (htok : BytesOK tok) (i : Nat) (hi : i < L.words.size) :
    findWord L tok = some i ↔ tok = L.words[i] := by
  rw [find_iff_rule L hL tok htok i hi]
  simp [Rule, hp, ha]

/-- a token that is too short is never mapped to a longer word -/
theorem too_short (L : Lang) (hL : L ∈ Gen.registry) (tok : List Nat) (htok : BytesOK tok) (i : Nat) (hi : i < L.words.size)
    (hshort : (if L.hasAccents then strip tok else tok).length < 4)
    (hne : (if L.hasAccents then strip tok else tok) ≠ (if L.hasAccents then strip L.words[i] else L.words[i])) :
    findWord L tok ≠ some i := by
  rw [Ne, find_iff_rule L hL tok htok i hi]
  unfold Rule
  simp only
  split
  · rintro (h | ⟨h4, _⟩)
    · exact hne h
    · omega
  · exact hne

/-- a token that continues with characters the word does not have is never mapped to that word -/
theorem continues_otherwise (L : Lang) (hL : L ∈ Gen.registry) (tok : List Nat) (htok : BytesOK tok) (i : Nat) (hi : i < L.words.size)
    (hnp : ¬ ((if L.hasAccents then strip tok else tok) <+: (if L.hasAccents then strip L.words[i] else L.words[i]))) :
    findWord L tok ≠ some i := by
  rw [Ne, find_iff_rule L hL tok htok i hi]
  unfold Rule
  simp only
  split
  · rintro (h | ⟨_, h⟩)
    · exact hnp (h ▸ List.prefix_refl _)
    · exact hnp h
  · intro h; exact hnp (h ▸ List.prefix_refl _)

/-- which languages abbreviate / fold accents -/
theorem exact_languages : Gen.registry.map (fun L => (L.hasPrefix, L.hasAccents)) =
    [(true, false), (false, false), (false, false), (true, true), (true, true), (true, false), (true, false), (true, false), (false, false), (false, false)] := by
  decide +kernel

/-- D6 in one line: stripping removes EVERY byte >= 0x80, so "ahogo" followed by U+65E5 has the comparison form of "ahogo" -/
example : strip [97, 104, 111, 103, 111, 0xE6, 0x97, 0xA5] = [97, 104, 111, 103, 111] := by decide

end Polyseed.C08
