import Polyseed.Lemmas.Search
import Polyseed.Props.C07
/-!
# C08 — abbreviated and unaccented words are accepted by one exact rule, and only by it
-/
namespace Polyseed.C08

/-- In Japanese, Korean and Chinese (no abbreviation, no accent folding) a token is accepted for a word
if and only if it is exactly that word — for EVERY token (NUL-free byte string). -/
theorem find_exact_iff (L : Lang) (hL : L ∈ Gen.registry) (hp : L.hasPrefix = false) (ha : L.hasAccents = false)
    (tok : List Nat) (htok : BytesOK tok) (i : Nat) (hi : i < L.words.size) :
    findWord L tok = some i ↔ tok = L.words[i] := by
  have hT := C07.tables_ok L hL
  constructor
  · intro h
    obtain ⟨hi', hz⟩ := findWord_sound L tok i h
    have hcmp : getComparer L = cmpStr := by simp [getComparer, hp, ha]
    rw [hcmp] at hz
    have hw : BytesOK L.words[i] := fun b hb =>
      let ⟨_, h2⟩ := hT.bytes L.words[i] (by simp); ⟨(h2 b hb).1, (h2 b hb).2.1⟩
    exact (cmpStr_eq_zero tok _ htok hw).mp hz
  · rintro rfl
    exact hT.finds i hi

/-- the four exact languages -/
theorem exact_languages : Gen.registry.map (fun L => (L.hasPrefix, L.hasAccents)) =
    [(true, false), (false, false), (false, false), (true, true), (true, true), (true, false), (true, false), (true, false), (false, false), (false, false)] := by
  decide +kernel

end Polyseed.C08
