import Polyseed.Props.C01
/-!
# C02 lifted to phrases: a substituted or swapped word makes explicit decoding report the checksum status

`decodeExplicit_of_words` is the general bridge: decoding ANY string that normalises to 16 table words joined by
single spaces is `decodeFinish` on their indices.
-/
namespace Polyseed.C02

theorem decodeExplicit_of_words (cfg : Cfg) (env : Env) (lib : Lib) (L : Lang) (hT : TableOK L) (idx : List Nat)
    (hlen : idx.length = 16) (hidx : ∀ i ∈ idx, i < 2048) (s : List Nat) (coin : Nat) (w : World) (hnw : cfg.numWords = 16)
    (hs : (decompose cfg env lib s).1 = joinWords [32] (idx.map (fun i => L.words.getD i []))) :
    decodeExplicit cfg env lib s coin L w = decodeFinish cfg lib idx coin none (decompose cfg env lib s).2 w := by
  have hok : ∀ t ∈ idx.map (fun i => L.words.getD i []), t ≠ [] ∧ ∀ b ∈ t, b ≠ 32 := by
    intro t ht
    simp only [List.mem_map] at ht
    obtain ⟨c, hc, rfl⟩ := ht
    have hlt : c < L.words.size := by rw [hT.size]; exact hidx c hc
    have : L.words.getD c [] = L.words[c] := by simp [Array.getD, hlt]
    rw [this]
    obtain ⟨h1, h2⟩ := hT.bytes L.words[c] (by simp)
    exact ⟨h1, fun b hb => (h2 b hb).2.2⟩
  have hsplit := strSplit_joinWords _ hok 16 (by simp [hlen])
  simp only [List.length_map, hlen] at hsplit
  have hfind := findAll_words L hT idx hidx
  simp only [decodeExplicit]
  generalize hdec : decompose cfg env lib s = dec at hs ⊢
  obtain ⟨tmp, pre⟩ := dec
  simp only at hs
  subst hs
  simp only [hnw, hsplit, phraseDecodeExplicit, hfind, ne_eq, not_true_eq_false, ↓reduceIte]

theorem applyCoin_set (p : List Nat) (coin i v : Nat) (hp : 2 ≤ p.length) :
    applyCoin (p.set i v) coin = (applyCoin p coin).set i (if i = 1 then v ^^^ coin else v) := by
  match p, hp with
  | c0 :: c1 :: cs, _ =>
    match i with
    | 0 => simp [applyCoin]
    | 1 => simp [applyCoin]
    | i + 2 => simp [applyCoin]

theorem applyCoin_getD (p : List Nat) (coin i : Nat) (hp : 2 ≤ p.length) :
    (applyCoin p coin).getD i 0 = if i = 1 then p.getD 1 0 ^^^ coin else p.getD i 0 := by
  match p, hp with
  | c0 :: c1 :: cs, _ =>
    match i with
    | 0 => simp [applyCoin]
    | 1 => simp [applyCoin]
    | i + 2 => simp [applyCoin]

/-- **Replacing any one word of a valid phrase by any other word of the same list makes explicit decoding
report the checksum status** — never success.  `e` are the 16 word indices of the valid phrase (valid for
`coin`), `s'` any string that normalises to the phrase with word `i` replaced by word `v`. -/
theorem decodeExplicit_substituted (cfg : Cfg) (env : Env) (lib : Lib) (L : Lang) (hT : TableOK L)
    (e : List Nat) (hlen : e.length = 16) (he : ∀ x ∈ e, x < 2048) (coin : Nat) (hcoin : coin < 2048)
    (hvalid : polyCheck (applyCoin e coin) = true)
    (i v : Nat) (hi : i < 16) (hv : v < 2048) (hne : v ≠ e.getD i 0)
    (s' : List Nat) (w : World) (hnw : cfg.numWords = 16)
    (hs : (decompose cfg env lib s').1 = joinWords [32] ((e.set i v).map (fun i => L.words.getD i []))) :
    (decodeExplicit cfg env lib s' coin L w).out.status = .checksum := by
  have hidx' : ∀ x ∈ e.set i v, x < 2048 := by
    intro x hx
    rcases List.mem_or_eq_of_mem_set hx with h | h
    · exact he x h
    · rw [h]; exact hv
  rw [decodeExplicit_of_words cfg env lib L hT (e.set i v) (by simp [hlen]) hidx' s' coin w hnw hs]
  have hp : Coeffs (applyCoin e coin) := by
    intro x hx
    unfold applyCoin at hx
    split at hx
    · rename_i c0 c1 cs
      simp only [List.mem_cons] at hx
      rcases hx with rfl | rfl | hx
      · exact he _ (by simp)
      · exact Nat.xor_lt_two_pow (n := 11) (he c1 (by simp)) hcoin
      · exact he x (by simp [hx])
    · exact he x hx
  have hl : (applyCoin e coin).length = 16 := by rw [C05.applyCoin_length, hlen]
  have hchk : polyCheck (applyCoin (e.set i v) coin) = false := by
    rw [applyCoin_set e coin i v (by omega)]
    have hiL : i < (applyCoin e coin).length := by omega
    apply single_error _ hp hvalid i hiL
    · split
      · exact Nat.xor_lt_two_pow (n := 11) hv hcoin
      · exact hv
    · have hg : (applyCoin e coin)[i] = (applyCoin e coin).getD i 0 := by simp [List.getD, hiL]
      rw [hg, applyCoin_getD e coin i (by omega)]
      split
      · rename_i h1
        subst h1
        intro h
        have h' : v ^^^ coin ^^^ coin = e.getD 1 0 ^^^ coin ^^^ coin := by rw [h]
        rw [Nat.xor_assoc, Nat.xor_self, Nat.xor_zero, Nat.xor_assoc, Nat.xor_self, Nat.xor_zero] at h'
        exact hne h'
      · exact hne
  rw [decodeFinish_checksum hchk]

/-- exchanging two displayed words, whatever the coin: the coin cancels in the difference -/
theorem swap_error_coin (e : List Nat) (hlen : e.length = 16) (he : ∀ x ∈ e, x < 2048) (coin : Nat) (hcoin : coin < 2048)
    (hvalid : polyCheck (applyCoin e coin) = true) (i j : Nat) (hij : i < j) (hj : j < 16) (hne : e.getD i 0 ≠ e.getD j 0) :
    polyCheck (applyCoin (swap e i j) coin) = false := by
  have hi : i < 16 := by omega
  have hp : Coeffs (applyCoin e coin) := by
    intro x hx
    unfold applyCoin at hx
    split at hx
    · rename_i c0 c1 cs
      simp only [List.mem_cons] at hx
      rcases hx with rfl | rfl | hx
      · exact he _ (by simp)
      · exact Nat.xor_lt_two_pow (n := 11) (he c1 (by simp)) hcoin
      · exact he x (by simp [hx])
    · exact he x hx
  have hl : (applyCoin e coin).length = 16 := by rw [C05.applyCoin_length, hlen]
  have gi : e.getD i 0 < 2048 := by
    have : e.getD i 0 = e[i] := by simp [List.getD, show i < e.length by omega]
    rw [this]; exact he _ (List.getElem_mem _)
  have gj : e.getD j 0 < 2048 := by
    have : e.getD j 0 = e[j] := by simp [List.getD, show j < e.length by omega]
    rw [this]; exact he _ (List.getElem_mem _)
  -- the swapped display, as two substitutions on the polynomial
  unfold swap
  rw [applyCoin_set _ coin j _ (by simp; omega), applyCoin_set e coin i _ (by omega)]
  generalize hA : (if i = 1 then e.getD j 0 ^^^ coin else e.getD j 0) = A
  generalize hB : (if j = 1 then e.getD i 0 ^^^ coin else e.getD i 0) = B
  have hA' : A < 2048 := by rw [← hA]; split; exact Nat.xor_lt_two_pow (n := 11) gj hcoin; exact gj
  have hB' : B < 2048 := by rw [← hB]; split; exact Nat.xor_lt_two_pow (n := 11) gi hcoin; exact gi
  have hpi : (applyCoin e coin).getD i 0 ^^^ A = e.getD i 0 ^^^ e.getD j 0 := by
    rw [applyCoin_getD e coin i (by omega), ← hA]
    split
    · rename_i h1; subst h1
      rw [Nat.xor_assoc, Nat.xor_comm coin, Nat.xor_assoc, Nat.xor_self, Nat.xor_zero]
    · rfl
  have hpj : (applyCoin e coin).getD j 0 ^^^ B = e.getD j 0 ^^^ e.getD i 0 := by
    rw [applyCoin_getD e coin j (by omega), ← hB]
    split
    · rename_i h1; subst h1
      rw [Nat.xor_assoc, Nat.xor_comm coin, Nat.xor_assoc, Nat.xor_self, Nat.xor_zero]
    · rfl
  set_option maxRecDepth 4000 in
  unfold polyCheck at *
  have h0 : polyEval (applyCoin e coin) = 0 := by simpa using hvalid
  have hiL : i < (applyCoin e coin).length := by omega
  have hjL : j < ((applyCoin e coin).set i A).length := by simp; omega
  have hp1 : Coeffs ((applyCoin e coin).set i A) := by
    intro c hc
    rcases List.mem_or_eq_of_mem_set hc with h | h
    · exact hp c h
    · rw [h]; exact hA'
  rw [polyEval_set _ hp1 j hjL B hB', polyEval_set _ hp i hiL A hA', h0, Nat.zero_xor]
  have e1 : ((applyCoin e coin).set i A)[j] = (applyCoin e coin).getD j 0 := by
    rw [List.getElem_set_ne (by omega)]; simp [List.getD, show j < (applyCoin e coin).length by omega]
  have e2 : (applyCoin e coin)[i] = (applyCoin e coin).getD i 0 := by simp [List.getD, hiL]
  rw [e1, e2, Nat.xor_comm A, hpi, Nat.xor_comm B, hpj, Nat.xor_comm (e.getD j 0)]
  generalize hδ : e.getD i 0 ^^^ e.getD j 0 = δ
  have hd : δ < 2048 := by rw [← hδ]; exact Nat.xor_lt_two_pow (n := 11) gi gj
  have hnz : δ ≠ 0 := by rw [← hδ]; exact fun h' => hne (xor_eq_zero h')
  apply Bool.eq_false_iff.mpr
  intro h
  have hz := xor_eq_zero (by simpa using h : mul2Iter i δ ^^^ mul2Iter j δ = 0)
  have hjk : j = i + (j - i) := by omega
  rw [hjk, mul2Iter_add] at hz
  have := mul2Iter_inj i _ _ hd (mul2Iter_lt _ _ hd) hz
  exact mul2_no_short_cycle _ hd hnz (j - i) (by omega) (by omega) this.symm

/-- **Exchanging any two unequal words of a valid phrase makes explicit decoding report the checksum status.** -/
theorem decodeExplicit_swapped (cfg : Cfg) (env : Env) (lib : Lib) (L : Lang) (hT : TableOK L)
    (e : List Nat) (hlen : e.length = 16) (he : ∀ x ∈ e, x < 2048) (coin : Nat) (hcoin : coin < 2048)
    (hvalid : polyCheck (applyCoin e coin) = true)
    (i j : Nat) (hij : i < j) (hj : j < 16) (hne : e.getD i 0 ≠ e.getD j 0)
    (s' : List Nat) (w : World) (hnw : cfg.numWords = 16)
    (hs : (decompose cfg env lib s').1 = joinWords [32] ((swap e i j).map (fun i => L.words.getD i []))) :
    (decodeExplicit cfg env lib s' coin L w).out.status = .checksum := by
  have hidx' : ∀ x ∈ swap e i j, x < 2048 := by
    intro x hx
    unfold swap at hx
    rcases List.mem_or_eq_of_mem_set hx with h | h
    · rcases List.mem_or_eq_of_mem_set h with h2 | h2
      · exact he x h2
      · rw [h2]
        have : e.getD j 0 = e[j] := by simp [List.getD, show j < e.length by omega]
        rw [this]; exact he _ (List.getElem_mem _)
    · rw [h]
      have : e.getD i 0 = e[i] := by simp [List.getD, show i < e.length by omega]
      rw [this]; exact he _ (List.getElem_mem _)
  rw [decodeExplicit_of_words cfg env lib L hT (swap e i j) (by simp [swap, hlen]) hidx' s' coin w hnw hs]
  rw [decodeFinish_checksum (swap_error_coin e hlen he coin hcoin hvalid i j hij hj hne)]

/-- non-vacuity: the hypotheses are met by the first test vector with word 16 replaced -/
example : polyCheck (applyCoin [1427, 1770, 1756, 922, 820, 110, 1446, 998, 542, 1926, 1656, 1044, 842, 1392, 44, 999] 0) = true := by
  decide

end Polyseed.C02
