import Polyseed.Lemmas.PackSpec
import Polyseed.Lemmas.Api
import Polyseed.Gen.Registry
import Polyseed.Tables.M0
import Polyseed.Tables.M1
import Polyseed.Tables.M2
import Polyseed.Tables.M3
import Polyseed.Tables.M4
import Polyseed.Tables.M5
import Polyseed.Tables.M6
import Polyseed.Tables.M7
import Polyseed.Tables.M8
import Polyseed.Tables.M9
/-!
# C17 — the public phrase-buffer size bounds every phrase the library can produce

The bound is the property's own decision procedure: per position the longest admissible word (the coin
makes every index admissible at word 2, the secret at the others), i.e. `16 * maxWordLen + 15 * |separator|`,
evaluated by the kernel on the regenerated tables and compared with the `POLYSEED_STR_SIZE` the C
compiler sees in the current tree.
-/
namespace Polyseed.C17

theorem joinWords_length_le (sep : List Nat) (m : Nat) : ∀ (ws : List (List Nat)), (∀ w ∈ ws, w.length ≤ m) →
    (joinWords sep ws).length ≤ ws.length * m + (ws.length - 1) * sep.length := by
  intro ws
  induction ws with
  | nil => intro _; simp [joinWords]
  | cons w ws ih =>
    intro h
    have hw := h w (by simp)
    cases ws with
    | nil => simp [joinWords]; omega
    | cons w2 ws =>
      have := ih (fun x hx => h x (by simp [hx]))
      simp only [joinWords, List.length_append, List.length_cons, Nat.add_sub_cancel] at this ⊢
      rw [Nat.succ_mul (ws.length + 1) m, Nat.succ_mul ws.length sep.length]
      omega

/-- every assembled phrase of 16 words is at most `maxPhrase L` bytes long — all seeds, all coins. -/
theorem encodeTmp_length_le (L : Lang) (d : Data) (coin : Nat) (h : (encodeCoeffs d coin).length = 16) :
    (encodeTmp L d coin).length ≤ maxPhrase L := by
  unfold encodeTmp maxPhrase
  have := joinWords_length_le L.sep (maxWordLen L) ((encodeCoeffs d coin).map (fun c => L.words.getD c []))
    (by intro w hw; simp only [List.mem_map] at hw; obtain ⟨c, _, rfl⟩ := hw; exact word_length_le L c)
  simp only [List.length_map, h] at this
  omega

theorem encodeCoeffs_length (d : Data) (h : d.WF) (coin : Nat) : (encodeCoeffs d coin).length = 16 := by
  unfold encodeCoeffs
  have := dataToPoly_length d h
  split <;> rename_i heq
  · rw [heq] at this; simp at this
  · rw [heq] at this; simp at this ⊢; omega

/-- the kernel-evaluated bound, for every registered language of the current tree -/
theorem maxPhrase_lt_all : ∀ L ∈ Gen.registry, maxPhrase L < Gen.STR_SIZE := by
  intro L hL
  simp only [Gen.registry, List.mem_cons, List.not_mem_nil, or_false] at hL
  rcases hL with rfl | rfl | rfl | rfl | rfl | rfl | rfl | rfl | rfl | rfl
  · exact Tables.M0.maxPhrase_lt
  · exact Tables.M1.maxPhrase_lt
  · exact Tables.M2.maxPhrase_lt
  · exact Tables.M3.maxPhrase_lt
  · exact Tables.M4.maxPhrase_lt
  · exact Tables.M5.maxPhrase_lt
  · exact Tables.M6.maxPhrase_lt
  · exact Tables.M7.maxPhrase_lt
  · exact Tables.M8.maxPhrase_lt
  · exact Tables.M9.maxPhrase_lt

/-- the decomposed phrase the library builds internally is strictly shorter than the buffer: `polyseed_encode`
never overruns `str_tmp` (the model's `overflow` outcome is unreachable). -/
theorem encode_no_overflow (cfg : Cfg) (hcfg : cfg.strSize = Gen.STR_SIZE) (env : Env) (lib : Lib)
    (L : Lang) (hL : L ∈ Gen.registry) (d : Data) (h : d.WF) (coin : Nat) :
    ∃ str, (encode cfg env lib d L coin).1 = .ok str str.length ∧
      str = (if L.compose then env.nfc lib.deps.nfc (encodeTmp L d coin) else encodeTmp L d coin) := by
  have hlen := encodeTmp_length_le L d coin (encodeCoeffs_length d h coin)
  have hlt := maxPhrase_lt_all L hL
  unfold encode
  simp only [show ¬ (cfg.strSize ≤ (encodeTmp L d coin).length) by omega, ↓reduceIte]
  cases L.compose <;> simp

/-- the composed output also fits the caller's buffer, and the returned size is the length of the output,
provided the injected NFC does not lengthen the phrase (composition never does). -/
theorem encode_output_fits (cfg : Cfg) (hcfg : cfg.strSize = Gen.STR_SIZE) (env : Env) (lib : Lib)
    (L : Lang) (hL : L ∈ Gen.registry) (d : Data) (h : d.WF) (coin : Nat)
    (hnfc : (env.nfc lib.deps.nfc (encodeTmp L d coin)).length ≤ (encodeTmp L d coin).length) :
    ∃ str, (encode cfg env lib d L coin).1 = .ok str str.length ∧ str.length < Gen.STR_SIZE := by
  obtain ⟨str, h1, h2⟩ := encode_no_overflow cfg hcfg env lib L hL d h coin
  refine ⟨str, h1, ?_⟩
  have hlen := encodeTmp_length_le L d coin (encodeCoeffs_length d h coin)
  have hlt := maxPhrase_lt_all L hL
  rw [h2]; split <;> omega

/-- every produced phrase can be fed back without truncation: the lazy NFKD copy keeps an ASCII phrase whole. -/
theorem lazyNfkd_no_truncation (strSize : Nat) (nfkd : List Nat → List Nat) (s : List Nat)
    (hlen : s.length < strSize) (hascii : s.any (isNeg) = false) :
    lazyNfkd strSize nfkd s = (s, false) := by
  unfold lazyNfkd
  have : s.take (strSize - 1) = s := List.take_of_length_le (by omega)
  simp only [this, hascii, Bool.false_eq_true, ↓reduceIte]

end Polyseed.C17
