import Polyseed.Lemmas.Tables
import Polyseed.Gen.Registry
import Polyseed.Pinned.Registry
import Polyseed.Tables.T0
import Polyseed.Tables.T1
import Polyseed.Tables.T2
import Polyseed.Tables.T3
import Polyseed.Tables.T4
import Polyseed.Tables.T5
import Polyseed.Tables.T6
import Polyseed.Tables.T7
import Polyseed.Tables.T8
import Polyseed.Tables.T9
/-!
# C07 — word lists are frozen, distinct and every word decodes to its own index

Everything here is about `Gen.*`, the tables the translator regenerates from the CURRENT tree on every
run; `Pinned.*` is the committed copy of the lists as published at the pinned release.
-/
namespace Polyseed.C07

/-- ten languages -/
theorem registry_length : Gen.registry.length = 10 := rfl

/-- each of the ten published languages is present with exactly the published name, flags, separator and
2048 words (registry order included) -/
theorem frozen : Gen.registry = Pinned.registry := by
  simp only [Gen.registry, Pinned.registry, Tables.T0.frozen, Tables.T1.frozen, Tables.T2.frozen, Tables.T3.frozen,
    Tables.T4.frozen, Tables.T5.frozen, Tables.T6.frozen, Tables.T7.frozen, Tables.T8.frozen, Tables.T9.frozen]

/-- every table passed the kernel-evaluated check -/
theorem tables_ok : ∀ L ∈ Gen.registry, TableOK L := by
  intro L hL
  simp only [Gen.registry, List.mem_cons, List.not_mem_nil, or_false] at hL
  rcases hL with rfl | rfl | rfl | rfl | rfl | rfl | rfl | rfl | rfl | rfl
  · exact Tables.T0.ok
  · exact Tables.T1.ok
  · exact Tables.T2.ok
  · exact Tables.T3.ok
  · exact Tables.T4.ok
  · exact Tables.T5.ok
  · exact Tables.T6.ok
  · exact Tables.T7.ok
  · exact Tables.T8.ok
  · exact Tables.T9.ok

/-- 2048 words per language -/
theorem word_count : ∀ L ∈ Gen.registry, L.words.size = 2048 := fun L hL => (tables_ok L hL).size

/-- Every word, typed in full, is recognised as its own index (and, `findWord` being a function, no other) —
through the library's own search: glibc `bsearch` with the language's comparator for the eight sorted
lists, the linear first-match loop for the two Chinese lists. -/
theorem find_full_word : ∀ L ∈ Gen.registry, ∀ i (hi : i < L.words.size), findWord L L.words[i] = some i :=
  fun L hL => (tables_ok L hL).finds

/-- the 2048 words of a language are pairwise distinct -/
theorem words_distinct : ∀ L ∈ Gen.registry, ∀ i j (hi : i < L.words.size) (hj : j < L.words.size),
    L.words[i] = L.words[j] → i = j := by
  intro L hL i j hi hj h
  have h1 := find_full_word L hL i hi
  have h2 := find_full_word L hL j hj
  rw [h] at h1
  rw [h1] at h2
  exact Option.some.inj h2

/-- words are non-empty and contain neither NUL nor a space (so tokens survive splitting) -/
theorem word_bytes : ∀ L ∈ Gen.registry, ∀ w ∈ L.words.toList, w ≠ [] ∧ ∀ b ∈ w, 0 < b ∧ b < 256 ∧ b ≠ 32 :=
  fun L hL => (tables_ok L hL).bytes

theorem prefix_checks : ∀ L ∈ Gen.registry, prefixCheck L = true := by
  intro L hL
  simp only [Gen.registry, List.mem_cons, List.not_mem_nil, or_false] at hL
  rcases hL with rfl | rfl | rfl | rfl | rfl | rfl | rfl | rfl | rfl | rfl
  · exact Tables.T0.prefixOk
  · exact Tables.T1.prefixOk
  · exact Tables.T2.prefixOk
  · exact Tables.T3.prefixOk
  · exact Tables.T4.prefixOk
  · exact Tables.T5.prefixOk
  · exact Tables.T6.prefixOk
  · exact Tables.T7.prefixOk
  · exact Tables.T8.prefixOk
  · exact Tables.T9.prefixOk

/-- In the six languages that allow abbreviation no two words share their first four accent-stripped letters. -/
theorem prefix4_distinct : ∀ L ∈ Gen.registry, L.hasPrefix = true → ∀ i j (hi : i < L.words.size) (hj : j < L.words.size),
    i < j → ∃ ci cj, prefixCode L.words[i] = some ci ∧ prefixCode L.words[j] = some cj ∧ ci ≠ cj :=
  fun L hL hp i j hi hj hij => prefix_distinct L hp (prefix_checks L hL) i j hi hj hij

/-- exactly six languages allow abbreviation: English, Spanish, French, Italian, Czech, Portuguese -/
theorem prefix_languages : Gen.registry.map (·.hasPrefix) = [true, false, false, true, true, true, true, true, false, false] := by
  decide +kernel

/-- accent-insensitive languages are composed on output (the third assertion of `polyseed_lang_check`) -/
theorem accents_imply_compose : ∀ L ∈ Gen.registry, L.hasAccents = true → L.compose = true := by
  intro L hL
  simp only [Gen.registry, List.mem_cons, List.not_mem_nil, or_false] at hL
  rcases hL with rfl | rfl | rfl | rfl | rfl | rfl | rfl | rfl | rfl | rfl <;> decide +kernel

/-- an empty token is recognised by no language -/
theorem empty_token : ∀ L ∈ Gen.registry, findWord L [] = none := by
  intro L hL
  simp only [Gen.registry, List.mem_cons, List.not_mem_nil, or_false] at hL
  rcases hL with rfl | rfl | rfl | rfl | rfl | rfl | rfl | rfl | rfl | rfl
  · exact Tables.T0.emptyTok
  · exact Tables.T1.emptyTok
  · exact Tables.T2.emptyTok
  · exact Tables.T3.emptyTok
  · exact Tables.T4.emptyTok
  · exact Tables.T5.emptyTok
  · exact Tables.T6.emptyTok
  · exact Tables.T7.emptyTok
  · exact Tables.T8.emptyTok
  · exact Tables.T9.emptyTok

/-- the literal clause "no word is a prefix of another" is FALSE for the published lists: witnesses
(three-letter words, which the matching rule compares exactly, so no token is ambiguous). -/
theorem prefix_word_witness_en : Gen.L0.lang.words.getD 19 [] = [97, 99, 116] ∧ Gen.L0.lang.words.getD 20 [] = [97, 99, 116, 105, 111, 110] := by
  decide +kernel

end Polyseed.C07
