import Polyseed.Lemmas.Tables
import Polyseed.Gen.L6
import Polyseed.Pinned.L6
/-! Kernel-evaluated facts about language 6 of the registry AS THE CURRENT TREE HAS IT (Gen is regenerated on every run). -/
namespace Polyseed.Tables.T6
set_option maxRecDepth 100000

/-- the list is exactly the list published at the pinned release (name, flags, separator, all 2048 words) -/
theorem frozen : Gen.L6.lang = Pinned.L6.lang := rfl

/-- 2048 NUL-free, space-free, non-empty words; each found at its own index by the library's search -/
theorem check : tableCheck Gen.L6.lang = true := by decide +kernel

/-- no two words share their first four accent-stripped letters (languages that allow abbreviation) -/
theorem prefixOk : prefixCheck Gen.L6.lang = true := by decide +kernel

/-- an empty token is not recognised -/
theorem emptyTok : findWord Gen.L6.lang [] = none := by decide +kernel

/-- an all-ASCII, non-composing language with a plain space as separator -/
theorem asciiOk : asciiCheck Gen.L6.lang = true := by decide +kernel

theorem ok : TableOK Gen.L6.lang := tableOK_of_check _ check

end Polyseed.Tables.T6
