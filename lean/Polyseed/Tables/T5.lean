import Polyseed.Lemmas.Tables
import Polyseed.Gen.L5
import Polyseed.Pinned.L5
/-! Kernel-evaluated facts about language 5 of the registry AS THE CURRENT TREE HAS IT (Gen is regenerated on every run). -/
namespace Polyseed.Tables.T5
set_option maxRecDepth 100000

/-- the list is exactly the list published at the pinned release (name, flags, separator, all 2048 words) -/
theorem frozen : Gen.L5.lang = Pinned.L5.lang := rfl

/-- 2048 NUL-free, space-free, non-empty words; each found at its own index by the library's search -/
theorem check : tableCheck Gen.L5.lang = true := by decide +kernel

/-- no two words share their first four accent-stripped letters (languages that allow abbreviation) -/
theorem prefixOk : prefixCheck Gen.L5.lang = true := by decide +kernel

/-- an empty token is not recognised -/
theorem emptyTok : findWord Gen.L5.lang [] = none := by decide +kernel

/-- an all-ASCII, non-composing language with a plain space as separator -/
theorem asciiOk : asciiCheck Gen.L5.lang = true := by decide +kernel

theorem ok : TableOK Gen.L5.lang := tableOK_of_check _ check

end Polyseed.Tables.T5
