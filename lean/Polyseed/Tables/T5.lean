import Polyseed.Lemmas.Tables
import Polyseed.Gen.L5
import Polyseed.Pinned.L5
/-! Kernel-evaluated facts about language 5 of the registry AS THE CURRENT TREE HAS IT (Gen is regenerated on every run). -/
namespace Polyseed.Tables.T5
set_option maxRecDepth 100000

/-- the list is exactly the list published at the pinned release (name, flags, separator, all 2048 words) -/
theorem frozen : Gen.L5.lang = Pinned.L5.lang := rfl

/-- 2048 NUL-free, space-free, non-empty words; each found at its own index by the library's search -/
theorem check : tableCheck true Gen.L5.lang = true := by decide +kernel

theorem ok : TableOK true Gen.L5.lang := tableOK_of_check _ _ check

end Polyseed.Tables.T5
