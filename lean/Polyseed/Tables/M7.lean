import Polyseed.Lemmas.Tables
import Polyseed.Gen.L7
import Polyseed.Gen.Consts
/-! C17 for language 7: kernel-evaluated against the tables and the POLYSEED_STR_SIZE of the current tree. -/
namespace Polyseed.Tables.M7
set_option maxRecDepth 100000

/-- every phrase of this language (16 longest words + 15 separators) is shorter than the phrase buffer -/
theorem maxPhrase_lt : maxPhrase Gen.L7.lang < Gen.STR_SIZE := by decide +kernel

end Polyseed.Tables.M7
