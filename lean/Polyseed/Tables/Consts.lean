import Polyseed.Gen.Consts
import Polyseed.Model.Step
/-!
# The published constants of the CURRENT tree are the ones the model uses

`Gen/Consts.lean` is regenerated on every run by the translator: the C preprocessor and compiler of the current tree
evaluate the macros of `birthday.h`, `features.h`, `gf.h`, `storage.h`, `polyseed.h` and the multiplication-by-x
function for all 2048 field elements.  The model uses literals on purpose (the published format); these theorems are
the obligations that tie the two - a changed constant in the tree breaks one of them before any test is run.
-/
namespace Polyseed.Tables.Consts

/-- `polyseed_status` numbering -/
theorem statuses :
    [Gen.ST_OK, Gen.ST_NUM_WORDS, Gen.ST_LANG, Gen.ST_CHECKSUM, Gen.ST_UNSUPPORTED, Gen.ST_FORMAT, Gen.ST_MEMORY, Gen.ST_MULT_LANG] =
    [Status.ok, .numWords, .lang, .checksum, .unsupported, .format, .memory, .multLang].map Status.toNat := by decide

/-- `birthday.h` -/
theorem birthday :
    Gen.EPOCH = EPOCH ∧ Gen.TIME_STEP = TIME_STEP ∧ Gen.DATE_BITS = DATE_BITS ∧ Gen.DATE_MASK = DATE_MASK := by decide

/-- `features.h` -/
theorem features :
    Gen.FEATURE_BITS = FEATURE_BITS ∧ Gen.FEATURE_MASK = FEATURE_MASK ∧ Gen.USER_FEATURES = USER_FEATURES ∧
    Gen.USER_FEATURES_MASK = USER_FEATURES_MASK ∧ Gen.ENCRYPTED_MASK = ENCRYPTED_MASK := by decide

/-- `gf.h`: an 11-bit field, one check digit -/
theorem field : Gen.GF_BITS = 11 ∧ Gen.GF_SIZE = 2048 ∧ Gen.GF_MASK = GF_MASK ∧ Gen.POLY_NUM_CHECK_DIGITS = 1 := by decide

/-- `gf_elem_mul2` of the current tree, on all 2048 elements, is the model's multiplication by x (the list is empty when
the translator cannot reach the function under its name: then only the correspondence suites tie it) -/
theorem mul2_table : Gen.MUL2 = [] ∨ Gen.MUL2 = (List.range 2048).map mul2 := by decide +kernel

/-- `storage.h`, `polyseed.h` -/
theorem sizes :
    Gen.SECRET_BITS = 150 ∧ Gen.SECRET_SIZE = SECRET_SIZE ∧ Gen.SECRET_BUFFER_SIZE = SECRET_BUFFER_SIZE ∧ Gen.CLEAR_MASK = CLEAR_MASK ∧
    Gen.STORAGE_SIZE = 32 ∧ Gen.NUM_WORDS = 16 ∧ Gen.LANG_SIZE = 2048 ∧ Gen.NUM_LANGS = 10 := by decide

/-- the published coin values -/
theorem coins : Gen.COIN_MONERO = 0 ∧ Gen.COIN_AEON = 1 ∧ Gen.COIN_WOWNERO = 2 := by decide

end Polyseed.Tables.Consts
