import Polyseed.Gen.Funcs
import Polyseed.Model.Step
/-!
# The functions of the CURRENT tree are the model's functions, for all inputs

`Gen/Funcs.lean` is regenerated on every run by `gen/ctrans.py` from the typed clang AST of the current source: each C
function becomes a Lean definition over `Nat` in which the wrap-around of every C operation is spelled out.  The
theorems below say that, on every value of the C parameter types, the translated function IS the hand-written model
function the property theorems talk about.  A change to `birthday.h`, `features.h`, `features.c` or `gf.h` that changes
the function on any input breaks the theorem (not a sampled comparison); a rewrite inside linear arithmetic with
constant divisors is re-proved by `omega`.  When the translator cannot express a function (`_ok = false`) the theorem is
vacuous and the tie falls back to the correspondence suites; the evidence lists which functions were translated.
-/
namespace Polyseed.Tables.Funcs

theorem dec_beq (a b : Nat) : decide (a = b) = (a == b) := by by_cases h : a = b <;> simp [h]

theorem and_lc (a b c : Nat) : a &&& (b &&& c) = b &&& (a &&& c) := by
  rw [← Nat.and_assoc, Nat.and_comm a b, Nat.and_assoc]

theorem and_1023 (x : Nat) : x &&& 1023 = x % 1024 := Nat.and_two_pow_sub_one_eq_mod x 10

/-- `birthday_encode` for every `uint64_t` clock value -/
theorem birthday_encode_tied (hok : Gen.Fn.birthday_encode_ok = true) (t : Nat) (ht : t < 2 ^ 64) :
    Gen.Fn.birthday_encode t = birthdayEncode t := by
  first
  | exact absurd hok (by decide)
  | (simp only [Gen.Fn.birthday_encode, birthdayEncode, EPOCH, TIME_STEP, DATE_MASK, and_1023]
     (repeat' split) <;> omega)

/-- `birthday_decode` for every `unsigned` argument -/
theorem birthday_decode_tied (hok : Gen.Fn.birthday_decode_ok = true) (b : Nat) (hb : b < 2 ^ 32) :
    Gen.Fn.birthday_decode b = birthdayDecode b := by
  first
  | exact absurd hok (by decide)
  | (simp only [Gen.Fn.birthday_decode, birthdayDecode, EPOCH, TIME_STEP]; (repeat' split) <;> omega)

/-- `make_features` -/
theorem make_features_tied (hok : Gen.Fn.make_features_ok = true) (u : Nat) (_hu : u < 2 ^ 32) :
    Gen.Fn.make_features u = makeFeatures u := by
  first
  | exact absurd hok (by decide)
  | rfl
  | simp [Gen.Fn.make_features, makeFeatures, USER_FEATURES_MASK, Nat.and_assoc, Nat.and_comm, and_lc]

/-- `get_features` -/
theorem get_features_tied (hok : Gen.Fn.get_features_ok = true) (f m : Nat) (_hf : f < 2 ^ 32) (_hm : m < 2 ^ 32) :
    Gen.Fn.get_features f m = getFeatures f m := by
  first
  | exact absurd hok (by decide)
  | rfl
  | simp [Gen.Fn.get_features, getFeatures, USER_FEATURES_MASK, Nat.and_assoc, Nat.and_comm, and_lc]

/-- `is_encrypted` on every 5-bit feature field (the only values a seed can hold: `Data.Canon`, C13.inv_run); evaluated by
the kernel, so any rewrite of the C expression is re-checked without a hand-written proof -/
theorem is_encrypted_tied_all :
    Gen.Fn.is_encrypted_ok = false ∨ (List.range 32).all (fun f => Gen.Fn.is_encrypted f == isEncrypted f) = true := by
  decide +kernel

theorem is_encrypted_tied (hok : Gen.Fn.is_encrypted_ok = true) (f : Nat) (hf : f < 32) :
    Gen.Fn.is_encrypted f = isEncrypted f := by
  rcases is_encrypted_tied_all with h | h
  · rw [hok] at h; exact absurd h (by decide)
  · exact eq_of_beq (List.all_eq_true.mp h f (List.mem_range.mpr hf))

/-- `polyseed_features_supported` for every 5-bit value of the static `reserved_features` (first argument) and every
5-bit feature field -/
theorem features_supported_tied_all :
    Gen.Fn.polyseed_features_supported_ok = false ∨
    (List.range 32).all (fun r => (List.range 32).all (fun f => Gen.Fn.polyseed_features_supported r f == featuresSupported r f)) = true := by
  decide +kernel

theorem features_supported_tied (hok : Gen.Fn.polyseed_features_supported_ok = true) (r f : Nat) (hr : r < 32) (hf : f < 32) :
    Gen.Fn.polyseed_features_supported r f = featuresSupported r f := by
  rcases features_supported_tied_all with h | h
  · rw [hok] at h; exact absurd h (by decide)
  · exact eq_of_beq (List.all_eq_true.mp (List.all_eq_true.mp h r (List.mem_range.mpr hr)) f (List.mem_range.mpr hf))

/-- `gf_elem_mul2` on every field element (closed form of the source, not the executed table of `Consts.mul2_table`) -/
theorem mul2_tied_all : Gen.Fn.gf_elem_mul2_ok = false ∨ (List.range 2048).all (fun x => Nat.beq (Gen.Fn.gf_elem_mul2 x) (mul2 x)) = true := by
  decide +kernel

theorem mul2_tied (hok : Gen.Fn.gf_elem_mul2_ok = true) (x : Nat) (hx : x < 2048) : Gen.Fn.gf_elem_mul2 x = mul2 x := by
  rcases mul2_tied_all with h | h
  · rw [hok] at h; exact absurd h (by decide)
  · have := List.all_eq_true.mp h x (List.mem_range.mpr hx)
    exact Nat.eq_of_beq_eq_true this

/-- non-vacuity on the pinned tree: all seven functions are translated -/
example : birthdayEncode 1638446400 = 1 ∧ birthdayDecode 1 = 1638397746 ∧ mul2 1024 = 5 := by decide

end Polyseed.Tables.Funcs
