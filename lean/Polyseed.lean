-- This module serves as the root of the `Polyseed` library.
-- Import modules here that should be built as part of the library.
import Polyseed.Basic
