#!/usr/bin/env python3
"""One entry point for every property check.

  python3 check.py <ID> [--tier quick|thorough] [--replay FILE]
  python3 check.py --setup

Pipeline (DESIGN.md section 5): regenerate Gen/ from /repo's working tree ->
lake build the property's theorem modules -> audit (forbidden constructs,
#print axioms) -> correspondence suites of the property's cone (real code vs
the model's executable definitions) + property oracles on the real code ->
VIOLATION / KNOWN-FINDING lines, replay files, evidence/<ID>.json.
"""
import json
import os
import random
import sys
import time

sys.path.insert(0, os.path.dirname(os.path.abspath(__file__)))
from vlib import core, props  # noqa: E402
from vlib.core import log  # noqa: E402


class Ctx:
    def __init__(self, tier, seed):
        self.tier = tier
        self.thorough = tier == 'thorough'
        self.seed = seed
        self.tree = None
        self.langs = None

    def rnd(self, name):
        return random.Random('%d/%s' % (self.seed, name))


def setup():
    """MANIFEST.setup_cmd: build everything the checks need, offline."""
    t0 = time.time()
    with core.Lock():
        tree = core.Tree()
        err = tree.translate()
        if err:
            log('setup: translator: ' + err)
            return 1
        ok, out = core.lake_build(['Polyseed', 'driver'])
        if not ok:
            log(out[-6000:])
            log('setup: lake build failed')
            return 1
        for v in ('asan',):
            _, err = tree.harness(v)
            if err:
                log(err)
                return 1
    log('setup ok in %.0fs' % (time.time() - t0))
    return 0


def main():
    args = sys.argv[1:]
    if '--setup' in args:
        sys.exit(setup())
    tier = os.environ.get('VERIF_TIER', 'quick')
    replay = None
    pid = None
    i = 0
    while i < len(args):
        if args[i] == '--tier':
            tier = args[i + 1]; i += 2
        elif args[i] == '--replay':
            replay = args[i + 1]; i += 2
        else:
            pid = args[i]; i += 1
    if tier not in ('quick', 'thorough'):
        tier = 'quick'
    try:
        seed = int(os.environ.get('VERIF_SEED', '1'))
    except ValueError:
        seed = 1
    if replay:
        sys.exit(props.replay(replay))
    if pid not in props.PROPS:
        log('unknown property %r; known: %s' % (pid, ' '.join(sorted(props.PROPS))))
        sys.exit(2)
    ctx = Ctx(tier, seed)
    sys.exit(props.check(ctx, pid))


if __name__ == '__main__':
    main()
