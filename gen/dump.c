/* Translator, part 1: compiled against /repo's CURRENT headers and sources, so
 * the C compiler itself evaluates every initialiser and macro we extract.
 * Output: one record per line, `key value...`; strings as hex. */
#include "polyseed.h"
#include "lang.h"
#include "gf.h"
#include "storage.h"
#include "birthday.h"
#include "features.h"
#include <stdio.h>
#include <string.h>

static void hex(const char* s) {
    if (*s == 0) { printf("-"); return; }
    for (; *s; ++s) printf("%02x", (unsigned char)*s);
}

int main(void) {
    printf("const STR_SIZE %u\n", (unsigned)POLYSEED_STR_SIZE);
    printf("const NUM_WORDS %u\n", (unsigned)POLYSEED_NUM_WORDS);
    printf("const STORAGE_SIZE %u\n", (unsigned)POLYSEED_SIZE);
    printf("const LANG_SIZE %u\n", (unsigned)POLYSEED_LANG_SIZE);
    printf("const SIZEOF_DATA %u\n", (unsigned)sizeof(polyseed_data));
    printf("const SIZEOF_POLY %u\n", (unsigned)sizeof(gf_poly));
    printf("const SIZEOF_PHRASE %u\n", (unsigned)sizeof(polyseed_phrase));
    printf("const SIZEOF_STR %u\n", (unsigned)sizeof(polyseed_str));
    printf("const SIZEOF_IDX %u\n", (unsigned)(sizeof(uint_fast16_t) * POLYSEED_NUM_WORDS));
    printf("const SECRET_BUFFER_SIZE %u\n", (unsigned)SECRET_BUFFER_SIZE);
    printf("const ST_OK %d\n", (int)POLYSEED_OK);
    printf("const ST_NUM_WORDS %d\n", (int)POLYSEED_ERR_NUM_WORDS);
    printf("const ST_LANG %d\n", (int)POLYSEED_ERR_LANG);
    printf("const ST_CHECKSUM %d\n", (int)POLYSEED_ERR_CHECKSUM);
    printf("const ST_UNSUPPORTED %d\n", (int)POLYSEED_ERR_UNSUPPORTED);
    printf("const ST_FORMAT %d\n", (int)POLYSEED_ERR_FORMAT);
    printf("const ST_MEMORY %d\n", (int)POLYSEED_ERR_MEMORY);
    printf("const ST_MULT_LANG %d\n", (int)POLYSEED_ERR_MULT_LANG);
    int n = polyseed_get_num_langs();
    printf("const NUM_LANGS %d\n", n);
    for (int i = 0; i < n; ++i) {
        const polyseed_lang* l = polyseed_get_lang(i);
        printf("lang %d name ", i); hex(polyseed_get_lang_name(l)); printf("\n");
        printf("lang %d name_en ", i); hex(polyseed_get_lang_name_en(l)); printf("\n");
        printf("lang %d separator ", i); hex(l->separator); printf("\n");
        printf("lang %d flags %d %d %d %d\n", i, l->is_sorted, l->has_prefix, l->has_accents, l->compose);
        for (int j = 0; j < POLYSEED_LANG_SIZE; ++j) {
            printf("word %d %d ", i, j); hex(l->words[j]); printf("\n");
        }
    }
    return 0;
}
