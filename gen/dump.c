/* Translator, part 1: compiled against /repo's CURRENT headers and sources, so
 * the C compiler itself evaluates every initialiser and macro we extract.
 * Output: one record per line, `key value...`; strings as hex. */
#include "polyseed.h"
#include "lang.h"
#include "gf.h"
#include "storage.h"
#include "birthday.h"
#include "features.h"
#include <stdio.h>
#include <string.h>

static void hex(const char* s) {
    if (*s == 0) { printf("-"); return; }
    for (; *s; ++s) printf("%02x", (unsigned char)*s);
}

int main(void) {
    printf("const STR_SIZE %u\n", (unsigned)POLYSEED_STR_SIZE);
    printf("const NUM_WORDS %u\n", (unsigned)POLYSEED_NUM_WORDS);
    printf("const STORAGE_SIZE %u\n", (unsigned)POLYSEED_SIZE);
    printf("const LANG_SIZE %u\n", (unsigned)POLYSEED_LANG_SIZE);
    printf("const SIZEOF_DATA %u\n", (unsigned)sizeof(polyseed_data));
    printf("const SIZEOF_POLY %u\n", (unsigned)sizeof(gf_poly));
    printf("const SIZEOF_PHRASE %u\n", (unsigned)sizeof(polyseed_phrase));
    printf("const SIZEOF_STR %u\n", (unsigned)sizeof(polyseed_str));
    /* the private index array of polyseed_phrase_decode has the element type of gf_poly.coeff (it is copied into it) */
    printf("const SIZEOF_IDX %u\n", (unsigned)(sizeof(((gf_poly*)0)->coeff[0]) * POLYSEED_NUM_WORDS));
    printf("const SECRET_BUFFER_SIZE %u\n", (unsigned)SECRET_BUFFER_SIZE);
    printf("const ST_OK %d\n", (int)POLYSEED_OK);
    printf("const ST_NUM_WORDS %d\n", (int)POLYSEED_ERR_NUM_WORDS);
    printf("const ST_LANG %d\n", (int)POLYSEED_ERR_LANG);
    printf("const ST_CHECKSUM %d\n", (int)POLYSEED_ERR_CHECKSUM);
    printf("const ST_UNSUPPORTED %d\n", (int)POLYSEED_ERR_UNSUPPORTED);
    printf("const ST_FORMAT %d\n", (int)POLYSEED_ERR_FORMAT);
    printf("const ST_MEMORY %d\n", (int)POLYSEED_ERR_MEMORY);
    printf("const ST_MULT_LANG %d\n", (int)POLYSEED_ERR_MULT_LANG);
    /* the published constants, as the preprocessor and the compiler evaluate them in the current tree */
    printf("const EPOCH %llu\n", (unsigned long long)EPOCH);
    printf("const TIME_STEP %llu\n", (unsigned long long)TIME_STEP);
    printf("const DATE_BITS %u\n", (unsigned)DATE_BITS);
    printf("const DATE_MASK %u\n", (unsigned)DATE_MASK);
    printf("const FEATURE_BITS %u\n", (unsigned)FEATURE_BITS);
    printf("const FEATURE_MASK %u\n", (unsigned)FEATURE_MASK);
    printf("const USER_FEATURES %u\n", (unsigned)USER_FEATURES);
    printf("const USER_FEATURES_MASK %u\n", (unsigned)USER_FEATURES_MASK);
    printf("const ENCRYPTED_MASK %u\n", (unsigned)ENCRYPTED_MASK);
    printf("const GF_BITS %u\n", (unsigned)GF_BITS);
    printf("const GF_SIZE %u\n", (unsigned)GF_SIZE);
    printf("const GF_MASK %u\n", (unsigned)GF_MASK);
    printf("const POLY_NUM_CHECK_DIGITS %u\n", (unsigned)POLY_NUM_CHECK_DIGITS);
    printf("const SECRET_BITS %u\n", (unsigned)SECRET_BITS);
    printf("const SECRET_SIZE %u\n", (unsigned)(SECRET_SIZE));
    printf("const CLEAR_MASK %u\n", (unsigned)(uint8_t)(CLEAR_MASK));
    printf("const COIN_MONERO %u\n", (unsigned)POLYSEED_MONERO);
    printf("const COIN_AEON %u\n", (unsigned)POLYSEED_AEON);
    printf("const COIN_WOWNERO %u\n", (unsigned)POLYSEED_WOWNERO);
    /* multiplication by x in GF(2048), all 2048 elements, through the function the library itself uses */
    printf("list MUL2");
#ifndef DRV_NO_GF
    for (unsigned x = 0; x < GF_SIZE; ++x) printf(" %u", (unsigned)gf_elem_mul2((gf_elem)x));
#endif
    printf("\n");   /* empty when the function is not reachable under its name in the current tree */
    int n = polyseed_get_num_langs();
    printf("const NUM_LANGS %d\n", n);
    for (int i = 0; i < n; ++i) {
        const polyseed_lang* l = polyseed_get_lang(i);
        printf("lang %d name ", i); hex(polyseed_get_lang_name(l)); printf("\n");
        printf("lang %d name_en ", i); hex(polyseed_get_lang_name_en(l)); printf("\n");
        printf("lang %d separator ", i); hex(l->separator); printf("\n");
        printf("lang %d flags %d %d %d %d\n", i, l->is_sorted, l->has_prefix, l->has_accents, l->compose);
        for (int j = 0; j < POLYSEED_LANG_SIZE; ++j) {
            printf("word %d %d ", i, j); hex(l->words[j]); printf("\n");
        }
    }
    return 0;
}
