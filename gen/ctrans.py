#!/usr/bin/env python3
"""Function translator: C source of the CURRENT tree -> Lean definitions (lean/Polyseed/Gen/Funcs.lean).

usage: ctrans.py <repo> <lean-dir>

The typed AST of every src/*.c translation unit is taken from clang (-ast-dump=json); the functions named in TARGETS
are translated when their bodies lie inside the supported subset:

  * statements: compound, if/else, return, declarations of initialised unsigned locals that are never assigned again
    (substituted), calls of other functions of the subset (inlined); no loops, no assignments;
  * expressions of UNSIGNED integer type over parameters, literals, global scalars (become leading parameters `g_<name>`),
    global arrays with constant initialisers (`[..].getD i 0`); + - * / % & | ^ << >> ~ with the wrap-around of the C type
    spelled out (`% 2^w`); comparisons, && || !, ?:; integral casts (narrowing = `% 2^w`); constant subexpressions of any
    integer type are folded with C semantics (a signed overflow makes the function untranslatable);
  * `_Bool` results become `Bool`.

Anything else makes the function UNTRANSLATABLE in this tree: `<fn>_ok := false` is emitted with a dummy body, the tying
theorem in Tables/Funcs.lean holds vacuously and the function is tied by the correspondence suites only (the evidence
lists which functions were translated).  A translated function's tying theorem is an obligation about what the code
says NOW, for all inputs of the C parameter types.
"""
import glob
import json
import os
import subprocess
import sys

TARGETS = ['birthday_encode', 'birthday_decode', 'make_features', 'get_features', 'is_encrypted',
           'polyseed_features_supported', 'gf_elem_mul2']
# arity (globals + parameters) and result kind each tying theorem is written for
SHAPE = {'birthday_encode': (1, 'Nat'), 'birthday_decode': (1, 'Nat'), 'make_features': (1, 'Nat'), 'get_features': (2, 'Nat'),
         'is_encrypted': (1, 'Bool'), 'polyseed_features_supported': (2, 'Bool'), 'gf_elem_mul2': (1, 'Nat')}

# the statics each tying theorem takes as leading arguments (a representation change of the state is not a function change)
GLOBALS_OF = {'polyseed_features_supported': ['reserved_features']}

UNSIGNED = {'unsigned char': 8, 'unsigned short': 16, 'unsigned int': 32, 'unsigned long': 64, 'unsigned long long': 64}
SIGNED = {'signed char': 8, 'short': 16, 'int': 32, 'long': 64, 'long long': 64}


ALLF = {}


class Bail(Exception):
    pass


def ctype(n):
    t = n.get('type') or {}
    q = t.get('desugaredQualType') or t.get('qualType') or ''
    q = q.replace('const ', '').replace('volatile ', '').strip()
    return q


def kind(q):
    if q in UNSIGNED:
        return ('u', UNSIGNED[q])
    if q in SIGNED:
        return ('s', SIGNED[q])
    if q == '_Bool':
        return ('b', 1)
    if q == 'char':
        return ('s', 8)
    raise Bail('type ' + q)


def wrap(v, k):
    if v is None:
        return None
    if k[0] == 'u':
        return v % (1 << k[1])
    if k[0] == 'b':
        return 1 if v else 0
    if -(1 << (k[1] - 1)) <= v < (1 << (k[1] - 1)):
        return v
    raise Bail('signed overflow in a constant')


class Fn:
    def __init__(self, node, globs, funcs=None, depth=0):
        self.node = node
        self.globs = globs
        self.funcs = funcs or {}
        self.depth = depth
        self.params = []
        self.gparams = []
        self.env = {}          # C name of a parameter or single-assignment local -> Lean term

    # ---- constants
    def const(self, e):
        """value of a constant integer expression with C semantics, or None"""
        k = e.get('kind')
        if k == 'IntegerLiteral':
            return wrap(int(e['value']), kind(ctype(e)))
        if k == 'CharacterLiteral':
            return int(e['value'])
        if k in ('ParenExpr', 'ConstantExpr'):
            return self.const(e['inner'][0])
        if k in ('ImplicitCastExpr', 'CStyleCastExpr'):
            if e.get('castKind') in ('IntegralCast', 'NoOp'):
                v = self.const(e['inner'][0])
                return None if v is None else wrap(v, kind(ctype(e)))
            if e.get('castKind') == 'IntegralToBoolean':
                v = self.const(e['inner'][0])
                return None if v is None else (1 if v else 0)
            return None
        if k == 'UnaryOperator':
            v = self.const(e['inner'][0])
            if v is None:
                return None
            op = e['opcode']
            r = {'-': -v, '+': v, '~': ~v, '!': 0 if v else 1}.get(op)
            return None if r is None else wrap(r, kind(ctype(e)))
        if k == 'BinaryOperator':
            a, b = self.const(e['inner'][0]), self.const(e['inner'][1])
            if a is None or b is None:
                return None
            op = e['opcode']
            if op in ('/', '%') and b == 0:
                raise Bail('constant division by zero')
            if op in ('<<', '>>') and not 0 <= b < kind(ctype(e))[1]:
                raise Bail('constant shift out of range')
            if op == '/':
                r = abs(a) // abs(b) * (1 if (a < 0) == (b < 0) else -1)
            elif op == '%':
                r = a - (abs(a) // abs(b) * (1 if (a < 0) == (b < 0) else -1)) * b
            else:
                r = {'+': lambda: a + b, '-': lambda: a - b, '*': lambda: a * b, '&': lambda: a & b, '|': lambda: a | b, '^': lambda: a ^ b,
                     '<<': lambda: a << b, '>>': lambda: a >> b, '==': lambda: int(a == b), '!=': lambda: int(a != b), '<': lambda: int(a < b),
                     '>': lambda: int(a > b), '<=': lambda: int(a <= b), '>=': lambda: int(a >= b), '&&': lambda: int(bool(a) and bool(b)),
                     '||': lambda: int(bool(a) or bool(b))}.get(op, lambda: None)()
            return None if r is None else wrap(r, kind(ctype(e)))
        return None

    # ---- values (Nat-valued Lean terms for unsigned C expressions)
    def val(self, e):
        c = self.const(e)
        if c is not None:
            if c < 0:
                raise Bail('negative constant in a value position')
            return str(c)
        k = e.get('kind')
        if k in ('ParenExpr', 'ConstantExpr'):
            return self.val(e['inner'][0])
        if k == 'DeclRefExpr':
            d = e['referencedDecl']
            if d['kind'] == 'ParmVarDecl' or (d['kind'] == 'VarDecl' and d['name'] in self.env):
                if kind(ctype(e))[0] not in ('u', 'b'):
                    raise Bail('signed variable ' + d['name'])
                if d['name'] not in self.env:
                    raise Bail('unbound ' + d['name'])
                return self.env[d['name']]
            if d['kind'] == 'VarDecl' and d['name'] in self.globs and self.globs[d['name']][0] == 'scalar':
                if kind(ctype(e))[0] != 'u':
                    raise Bail('signed global')
                if d['name'] not in self.gparams:
                    self.gparams.append(d['name'])
                return 'g_' + d['name']
            raise Bail('reference to ' + d.get('name', '?'))
        if k in ('ImplicitCastExpr', 'CStyleCastExpr'):
            ck = e.get('castKind')
            s = e['inner'][0]
            if ck in ('LValueToRValue', 'NoOp'):
                return self.val(s)
            if ck == 'IntegralCast':
                ks, kt = kind(ctype(s)), kind(ctype(e))
                if kt[0] != 'u':
                    raise Bail('cast of a variable value to a signed type')
                if ks[0] == 'u':
                    return self.val(s) if kt[1] >= ks[1] else '(%s %% %d)' % (self.val(s), 1 << kt[1])
                if ks[0] == 'b' or (ks[0] == 's' and s.get('kind') in ('BinaryOperator', 'UnaryOperator', 'ParenExpr') and self.is_cond(s)):
                    return '(if %s then 1 else 0)' % self.cond(s)
                raise Bail('cast from a signed variable value')
            if ck == 'IntegralToBoolean':
                return '(if %s then 1 else 0)' % self.cond(e)
            raise Bail('cast ' + str(ck))
        if k == 'ArraySubscriptExpr':
            base, idx = e['inner']
            while base.get('kind') in ('ImplicitCastExpr', 'ParenExpr'):
                base = base['inner'][0]
            if base.get('kind') == 'DeclRefExpr' and base['referencedDecl']['name'] in self.globs:
                g = self.globs[base['referencedDecl']['name']]
                if g[0] == 'array':
                    return '([%s].getD %s 0)' % (', '.join(str(x) for x in g[1]), self.val(idx))
            raise Bail('subscript')
        if k == 'CallExpr':
            callee = e['inner'][0]
            while callee.get('kind') in ('ImplicitCastExpr', 'ParenExpr'):
                callee = callee['inner'][0]
            name = (callee.get('referencedDecl') or {}).get('name')
            if callee.get('kind') != 'DeclRefExpr' or name not in self.funcs or self.depth > 4:
                raise Bail('call of ' + str(name))
            sub = Fn(self.funcs[name], self.globs, self.funcs, self.depth + 1)
            sub.gparams = self.gparams
            pnames = [c for c in self.funcs[name].get('inner', []) if c['kind'] == 'ParmVarDecl']
            args = e['inner'][1:]
            if len(pnames) != len(args):
                raise Bail('call arity')
            for pn, a in zip(pnames, args):
                if kind(ctype(pn))[0] != 'u':
                    raise Bail('signed parameter in a call')
                sub.env[pn['name']] = self.val(a)
            body = [c for c in self.funcs[name].get('inner', []) if c['kind'] == 'CompoundStmt']
            if not body:
                raise Bail('call of a function without body')
            return sub.stmts([body[0]], False)
        if k == 'ConditionalOperator':
            c, a, b = e['inner']
            return '(if %s then %s else %s)' % (self.cond(c), self.val(a), self.val(b))
        if k == 'UnaryOperator':
            kt = kind(ctype(e))
            if e['opcode'] == '~' and kt[0] == 'u':
                return '(%d - %s)' % ((1 << kt[1]) - 1, self.val(e['inner'][0]))
            if e['opcode'] == '!':
                return '(if %s then 1 else 0)' % self.cond(e)
            raise Bail('unary ' + e['opcode'])
        if k == 'BinaryOperator':
            op = e['opcode']
            if op in ('==', '!=', '<', '>', '<=', '>=', '&&', '||'):
                return '(if %s then 1 else 0)' % self.cond(e)
            kt = kind(ctype(e))
            if kt[0] != 'u':
                raise Bail('signed arithmetic on variable values')
            W = 1 << kt[1]
            a, b = self.val(e['inner'][0]), self.val(e['inner'][1])
            if op == '+':
                return '((%s + %s) %% %d)' % (a, b, W)
            if op == '-':
                return '((%s + %d - %s) %% %d)' % (a, W, b, W)
            if op == '*':
                return '((%s * %s) %% %d)' % (a, b, W)
            if op in ('/', '%'):
                cb = self.const(e['inner'][1])
                if cb is None or cb == 0:
                    raise Bail('division by a variable')
                return '(%s %s %s)' % (a, op, b)
            if op in ('&', '|', '^'):
                return '(%s %s %s)' % (a, {'&': '&&&', '|': '|||', '^': '^^^'}[op], b)
            if op in ('<<', '>>'):
                cb = self.const(e['inner'][1])
                if cb is None or not 0 <= cb < kt[1]:
                    raise Bail('shift by a variable')
                return '((%s <<< %s) %% %d)' % (a, b, W) if op == '<<' else '(%s >>> %s)' % (a, b)
            raise Bail('operator ' + op)
        raise Bail('expression ' + str(k))

    def is_cond(self, e):
        while e.get('kind') == 'ParenExpr':
            e = e['inner'][0]
        return (e.get('kind') == 'BinaryOperator' and e['opcode'] in ('==', '!=', '<', '>', '<=', '>=', '&&', '||')) or \
               (e.get('kind') == 'UnaryOperator' and e['opcode'] == '!')

    # ---- conditions (Lean propositions, all decidable)
    def cond(self, e):
        k = e.get('kind')
        if k == 'ParenExpr':
            return self.cond(e['inner'][0])
        c = self.const(e)
        if c is not None:
            return 'True' if c else 'False'
        if k == 'ImplicitCastExpr' and e.get('castKind') in ('IntegralToBoolean', 'NoOp', 'IntegralCast') and \
                (e.get('castKind') != 'IntegralCast' or self.is_cond(e['inner'][0])):
            return self.cond(e['inner'][0])
        if k == 'BinaryOperator':
            op = e['opcode']
            l, r = e['inner']
            if op in ('&&', '||'):
                return '(%s %s %s)' % (self.cond(l), '∧' if op == '&&' else '∨', self.cond(r))
            if op in ('==', '!=', '<', '>', '<=', '>='):
                for s in (l, r):
                    if self.const(s) is None and kind(ctype(s))[0] == 's':
                        raise Bail('comparison of signed variable values')
                return '(%s %s %s)' % (self.val(l), {'==': '=', '!=': '≠', '<': '<', '>': '>', '<=': '≤', '>=': '≥'}[op], self.val(r))
        if k == 'UnaryOperator' and e['opcode'] == '!':
            return '(¬ %s)' % self.cond(e['inner'][0])
        return '(%s ≠ 0)' % self.val(e)

    # ---- statements
    def stmts(self, ss, boolres):
        if not ss:
            raise Bail('a path without return')
        s, rest = ss[0], ss[1:]
        k = s.get('kind')
        if k == 'CompoundStmt':
            return self.stmts(list(s.get('inner', [])) + rest, boolres)
        if k == 'NullStmt':
            return self.stmts(rest, boolres)
        if k == 'DeclStmt':
            for v in s.get('inner', []):
                if v.get('kind') != 'VarDecl' or v.get('storageClass') == 'static' or v['name'] in self.env:
                    raise Bail('declaration')
                init = [c for c in v.get('inner', []) if 'Expr' in c.get('kind', '') or c.get('kind') in ('IntegerLiteral', 'BinaryOperator', 'UnaryOperator', 'ConditionalOperator')]
                if len(init) != 1 or kind(ctype(v))[0] != 'u':
                    raise Bail('local ' + v['name'])
                self.env[v['name']] = self.val(init[0])
            return self.stmts(rest, boolres)
        if k == 'ReturnStmt':
            e = s['inner'][0]
            return ('(decide %s)' % self.cond(e)) if boolres else self.val(e)
        if k == 'IfStmt':
            inner = s['inner']
            if s.get('hasInit') or s.get('hasVar'):
                raise Bail('if with declaration')
            c, th = inner[0], inner[1]
            el = [inner[2]] if len(inner) > 2 else []
            return '(if %s then %s else %s)' % (self.cond(c), self.stmts([th] + rest, boolres), self.stmts(el + rest, boolres))
        raise Bail('statement ' + str(k))

    def translate(self):
        body = None
        for c in self.node.get('inner', []):
            if c['kind'] == 'ParmVarDecl':
                kp = kind(ctype(c))
                if kp[0] != 'u':
                    raise Bail('parameter type ' + ctype(c))
                self.params.append(('a_' + c['name'], kp[1]))
                self.env[c['name']] = 'a_' + c['name']
            elif c['kind'] == 'CompoundStmt':
                body = c
        if body is None:
            raise Bail('no body')
        rq = self.node['type']['qualType'].split('(')[0].strip()
        rt = {'gf_elem': 'unsigned long', 'uint64_t': 'unsigned long', 'uint32_t': 'unsigned int', 'bool': '_Bool', 'unsigned': 'unsigned int',
              'uint16_t': 'unsigned short', 'uint8_t': 'unsigned char', 'size_t': 'unsigned long', 'uint_fast16_t': 'unsigned long'}.get(rq, rq)
        kr = kind(rt)
        if kr[0] == 's':
            raise Bail('signed result')
        term = self.stmts([body], kr[0] == 'b')
        return term, ('Bool' if kr[0] == 'b' else 'Nat')


def ast_of(repo, src):
    r = subprocess.run(['clang-14', '-fsyntax-only', '-w', '-I' + os.path.join(repo, 'include'), '-iquote', os.path.join(repo, 'src'),
                        '-Xclang', '-ast-dump=json', src], stdout=subprocess.PIPE, stderr=subprocess.PIPE, text=True)
    if r.returncode != 0 or not r.stdout.strip():
        return None
    return json.loads(r.stdout)


def collect(repo):
    funcs, globs = {}, {}
    global ALLF
    ALLF = {}
    for src in sorted(glob.glob(os.path.join(repo, 'src', '*.c'))):
        if os.path.basename(src).startswith('lang_'):
            continue
        tu = ast_of(repo, src)
        if tu is None:
            continue
        for n in tu.get('inner', []):
            if n.get('kind') == 'FunctionDecl' and any(c.get('kind') == 'CompoundStmt' for c in n.get('inner', [])):
                ALLF.setdefault(n['name'], n)
            if n.get('kind') == 'FunctionDecl' and n.get('name') in TARGETS and any(c.get('kind') == 'CompoundStmt' for c in n.get('inner', [])):
                inc = (n.get('loc') or {}).get('includedFrom') or (n.get('range', {}).get('begin') or {}).get('includedFrom')
                funcs.setdefault(n['name'], (n, 'as seen from ' + os.path.relpath(src, repo)))
            if n.get('kind') == 'VarDecl' and n.get('storageClass') != 'extern':
                q = ctype(n)
                if '[' in q and n.get('inner'):
                    inits = [c for c in n['inner'] if c.get('kind') == 'InitListExpr']
                    if inits:
                        init = inits[0]
                        f = Fn({}, {})
                        try:
                            vals = [f.const(x) for x in init.get('inner', [])]
                        except Bail:
                            vals = [None]
                        if vals and all(v is not None and v >= 0 for v in vals):
                            globs[n['name']] = ('array', vals)
                elif q in UNSIGNED:
                    globs[n['name']] = ('scalar',)
    return funcs, globs


def main():
    repo, lean = sys.argv[1], sys.argv[2]
    funcs, globs = collect(repo)
    out = ['/-! GENERATED by gen/ctrans.py from the C source of the current tree (clang typed AST). Do not edit. -/', 'namespace Polyseed.Gen.Fn', '']
    status = {}
    for name in TARGETS:
        arity, res = SHAPE[name]
        term = None
        why = 'no definition found under this name'
        if name in funcs:
            node, where = funcs[name]
            f = Fn(node, globs, ALLF)
            try:
                term, rk = f.translate()
                args = ['g_' + g for g in f.gparams] + [p for p, _ in f.params]
                if f.gparams != GLOBALS_OF.get(name, []):
                    term, why = None, 'reads other state (%s) than the tying theorem is written for' % ', '.join(f.gparams)
                elif len(args) != arity or rk != res:
                    term, why = None, 'signature differs from the one the tying theorem is written for (%s -> %s)' % (' '.join(args), rk)
            except Bail as ex:
                term, why = None, 'outside the translatable subset: %s' % ex
            except (KeyError, IndexError, ValueError) as ex:
                term, why = None, 'unexpected AST shape: %r' % ex
        if term is not None:
            out.append('/-- `%s` (%s) -/' % (name, where))
            out.append('def %s %s : %s :=\n  %s' % (name, ' '.join('(%s : Nat)' % a for a in args), res, term))
            out.append('def %s_ok : Bool := true\n' % name)
            status[name] = 'translated'
        else:
            out.append('/-- `%s`: NOT TRANSLATED (%s) -/' % (name, why.replace('-/', '- /')))
            out.append('def %s %s : %s := %s' % (name, ' '.join('(_a%d : Nat)' % i for i in range(arity)), res, 'false' if res == 'Bool' else '0'))
            out.append('def %s_ok : Bool := false\n' % name)
            status[name] = 'not translated: ' + why
    out.append('end Polyseed.Gen.Fn')
    text = '\n'.join(out) + '\n'
    path = os.path.join(lean, 'Polyseed', 'Gen', 'Funcs.lean')
    old = open(path).read() if os.path.exists(path) else None
    if old != text:
        with open(path + '.tmp', 'w') as fh:
            fh.write(text)
        os.rename(path + '.tmp', path)
    json.dump(status, sys.stdout, indent=1)


if __name__ == '__main__':
    main()
