#!/usr/bin/env python3
"""run every quick check at many seeds on the unchanged tree; any non-ok line is a false alarm to investigate"""
import json, os, subprocess, sys
here = os.path.dirname(os.path.dirname(os.path.abspath(__file__)))
ids = [json.loads(l)['id'] for l in open(os.path.join(here, 'properties.jsonl'))]
print(subprocess.run('python3 check.py --setup', shell=True, cwd=here, stdout=subprocess.PIPE, stderr=subprocess.STDOUT, text=True).stdout[-100:], flush=True)
lo, hi = int(sys.argv[1]), int(sys.argv[2])
bad = 0
for seed in range(lo, hi):
    for p in ids:
        r = subprocess.run('python3 check.py %s' % p, shell=True, cwd=here, stdout=subprocess.PIPE, stderr=subprocess.STDOUT, text=True, env=dict(os.environ, VERIF_SEED=str(seed)))
        if r.returncode != 0:
            bad += 1
            print('SEED', seed, p, 'rc', r.returncode, '\n'.join(l[:400] for l in r.stdout.split('\n') if l.startswith(('VIOLATION', '  [')))[:2500], flush=True)
    print('seed', seed, 'done, false alarms so far:', bad, flush=True)
