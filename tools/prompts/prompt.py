import json,sys
pid=sys.argv[1]
for l in open('/verif/properties.jsonl'):
    p=json.loads(l)
    if p['id']==pid: break
print(f"""You are helping to evaluate a verification tool by writing a realistic, subtle bug ("seeded change") for the C library tevador/polyseed (a small library that encodes a 150-bit Monero wallet seed + birthday + feature bits into a 16-word mnemonic with a GF(2048) checksum).

You have your own scratch git worktree of the library at /tmp/wt-{pid} . Work ONLY inside /tmp/wt-{pid} and /tmp/seed-out/{pid}/ . Do NOT read or touch /verif or /repo or any other /tmp/wt-* directory (that would invalidate the experiment).

The property your change must BREAK:

  Title: {p['title']}
  Statement: {p['statement']}
  Quantified over: {p['quantifier']['text']}

Task: make ONE small source change to the library (files under src/ or include/ in the worktree) such that
  1. the library still compiles without new warnings being obviously suspicious, and the existing test suite still passes completely:
       cmake -S /tmp/wt-{pid} -B /tmp/wt-{pid}/_b -DCMAKE_BUILD_TYPE=Release >/dev/null && cmake --build /tmp/wt-{pid}/_b >/dev/null && /tmp/wt-{pid}/_b/polyseed-tests
     (every test line must still print PASSED, exactly as before your change; the test binary un-defines NDEBUG only for itself, the library is built Release);
  2. the property above is violated on SOME inputs/sequences, but the change needs something specific to manifest: an unusual input, a particular multi-step sequence of API calls, a particular language/coin/feature combination, a boundary value, a fault at a particular point (e.g. an allocation failure), or two cooperating sites that each look fine alone. It must NOT be something ordinary use exposes at once (e.g. not 'every encode is wrong'). It should look like a plausible mistake or 'optimisation' a maintainer could make, not like sabotage, and must not just delete the feature.
  3. you provide a demonstration: a small C program /tmp/seed-out/{pid}/demo.c that links against the library sources (e.g. `gcc -DPOLYSEED_STATIC -I<tree>/include demo.c <tree>/src/*.c -o demo`; you must supply the dependency callbacks via polyseed_inject — look at tests/tests.c for how; libsodium and utf8proc are installed if you want real randomness / normalisation: -lsodium -lutf8proc) which exits 0 on the ORIGINAL tree and exits non-zero (printing what went wrong) on the CHANGED tree. Verify both outcomes yourself: `git -C /tmp/wt-{pid} diff > /tmp/seed-out/{pid}/patch.diff; git -C /tmp/wt-{pid} checkout -- .` gives back the original tree, `git -C /tmp/wt-{pid} apply /tmp/seed-out/{pid}/patch.diff` re-applies your change.

Deliverables, all under /tmp/seed-out/{pid}/ :
  - patch.diff   : output of `git -C /tmp/wt-{pid} diff` (must apply to the pristine tree with `git apply`)
  - demo.c       : the demonstration program (self-contained, with the exact compile command in a comment at the top, written with a TREE placeholder path variable so it can be compiled against another checkout)
  - notes.md     : 5-15 lines: what the change is, why the tests still pass, exactly what is needed for it to manifest, and the demo's output on the original and on the changed tree.

Leave the worktree with the change applied. Do not commit. Keep it to one change (a second cooperating site is allowed if that is the point of the change). When done, reply with a 3-line summary.""")
