import json,sys
tag=sys.argv[1]; theme=sys.argv[2]
d='/tmp/seed-out/B-%s'%tag; wt='/tmp/wt-B-%s'%tag
props=[json.loads(l) for l in open('/verif/properties.jsonl')]
txt='\n\n'.join('  %s. %s\n     %s' % (p['id'], p['title'], p['statement']) for p in props)
print(f"""You are helping to evaluate a verification tool for the C library tevador/polyseed (a small library that encodes a 150-bit Monero wallet seed + birthday + feature bits into a 16-word mnemonic with a GF(2048) checksum). The tool checks the twenty properties listed below and must NOT raise an alarm on a change that keeps all of them. We need a realistic change that is visible from the outside in some way NOT covered by the properties, yet keeps every one of them true - the hardest case for the tool.

You have your own scratch git worktree of the library at {wt} . Work ONLY inside {wt} and {d}/ . Do NOT read or touch /verif or /repo or any other /tmp/wt-* or /tmp/seed-out/* directory.

The twenty properties (all must REMAIN TRUE after your change):

{txt}

Task: make a change to the library sources (files under src/ or include/) of this kind: {theme}

Requirements:
  - the change must alter something observable by a very nosy observer (e.g. the order or number of calls to the injected dependencies, when memory is allocated or freed relative to validation, which temporaries exist and how they are wiped, which status is returned when TWO error conditions hold at once and no property orders them, internal helper structure) - but it must keep each of the twenty properties above true for every input. Read each property statement carefully and argue, property by property where relevant, that it still holds. If your first idea breaks one of them, pick another.
  - the library compiles without new warnings and the test suite passes:
       cmake -S {wt} -B {wt}/_b -DCMAKE_BUILD_TYPE=Release >/dev/null && cmake --build {wt}/_b >/dev/null && {wt}/_b/polyseed-tests
  - the change should be non-trivial (15-80 changed lines), something a maintainer might really do (defensive hardening, tidying, reordering for clarity, early validation, extra wiping).
  - do not change word lists, public constants, public types.

Deliverables under {d}/ :
  - patch.diff : output of `git -C {wt} diff`
  - notes.md   : what was changed, what a nosy observer can now see differently, and why each potentially affected property still holds.

Leave the worktree with the change applied. Do not commit. Reply with a 3-line summary.""")
