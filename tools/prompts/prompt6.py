import json,sys
pid=sys.argv[1]; tag=sys.argv[2]
for l in open('/verif/properties.jsonl'):
    p=json.loads(l)
    if p['id']==pid: break
d='/tmp/seed-out/%s-%s'%(pid,tag); wt='/tmp/wt-%s-%s'%(pid,tag)
print(f"""You are helping to evaluate a verification tool by writing a realistic, subtle bug ("seeded change") for the C library tevador/polyseed (a small library that encodes a 150-bit Monero wallet seed + birthday + feature bits into a 16-word mnemonic with a GF(2048) checksum).

You have your own scratch git worktree of the library at {wt} . Work ONLY inside {wt} and {d}/ . Do NOT read or touch /verif or /repo or any other /tmp/wt-* or /tmp/seed-out/* directory (that would invalidate the experiment).

The property your change must BREAK:

  Title: {p['title']}
  Statement: {p['statement']}
  Quantified over: {p['quantifier']['text']}

Task: make ONE small source change to the library (files under src/ or include/ in the worktree) such that
  1. the library still compiles without suspicious new warnings, and the existing test suite still passes completely:
       cmake -S {wt} -B {wt}/_b -DCMAKE_BUILD_TYPE=Release >/dev/null && cmake --build {wt}/_b >/dev/null && {wt}/_b/polyseed-tests
     (every test line must still print PASSED, exactly as before your change);
  2. the property above is violated, but ONLY on a NARROW class of inputs or histories. The verification tool under evaluation combines machine-checked proofs about a model with randomized differential testing of the real code (random seeds, coins, languages, birthdays, feature values, API call sequences, allocation failures, boundary values). Your goal is a change that such a tool is most likely to MISS: think about which inputs a random or boundary-biased generator would rarely produce, e.g.
       - a condition on several values at once (a particular language AND a coin above some threshold AND an encrypted seed; a birthday bit pattern combined with a feature bit);
       - a particular word or small set of words, a token of a particular byte length, a phrase whose total length crosses a threshold, a password of a particular length class;
       - a particular ORDER of three or more API calls, or state carried between calls;
       - an arithmetic slip that only matters when an intermediate value has a special form (carry, top bit set, value 0 or 2047, equal neighbouring words);
       - an exit path taken only when two error conditions coincide.
     But it must still be a plausible maintainer mistake or 'optimisation' (no `if (x == 1234)` special-casing, no dead code, no magic constants that have no reason to be there), and it must not just delete the feature. Avoid the single most obvious edit for this property; read the code first and pick something that needs understanding.
     The failure must manifest in ordinary SINGLE-THREADED use (no static-buffer / concurrency tricks) and must not depend on the time zone or locale.
  3. you provide a demonstration: a small C program {d}/demo.c which exits 0 on the ORIGINAL tree and exits non-zero (printing what went wrong) on the CHANGED tree. It must be buildable with exactly
       gcc -O1 -g -DNDEBUG -w -DPOLYSEED_STATIC -I$TREE/include -iquote $TREE/src demo.c $TREE/src/*.c -o demo -lutf8proc -lsodium -lpthread
     (add the literal text -funsigned-char or -fsanitize=thread in a comment at the top of demo.c if it needs that flag). You must supply the dependency callbacks via polyseed_inject - look at tests/tests.c for how; libsodium and utf8proc are installed for real randomness / normalisation. Verify both outcomes yourself: `git -C {wt} diff > {d}/patch.diff; git -C {wt} checkout -- .` gives back the original tree, `git -C {wt} apply {d}/patch.diff` re-applies your change.

Deliverables, all under {d}/ :
  - patch.diff   : output of `git -C {wt} diff` (must apply to the pristine tree with `git apply`)
  - demo.c       : the demonstration program
  - notes.md     : 5-15 lines: what the change is, why the tests still pass, exactly what is needed for it to manifest (and roughly what fraction of random inputs would hit it), and the demo's output on the original and on the changed tree.

Leave the worktree with the change applied. Do not commit. When done, reply with a 3-line summary.""")
