import sys
tag=sys.argv[1]; theme=sys.argv[2]
d='/tmp/seed-out/H-%s'%tag; wt='/tmp/wt-H-%s'%tag
print(f"""You are helping to evaluate a verification tool for the C library tevador/polyseed (a small library that encodes a 150-bit Monero wallet seed + birthday + feature bits into a 16-word mnemonic with a GF(2048) checksum). The tool must NOT raise alarms on harmless changes, so we need a realistic HARMLESS change: a behaviour-preserving refactoring a maintainer might really make.

You have your own scratch git worktree of the library at {wt} . Work ONLY inside {wt} and {d}/ . Do NOT read or touch /verif or /repo or any other /tmp/wt-* or /tmp/seed-out/* directory.

Task: make a behaviour-preserving change to the library sources (files under src/ or include/), of this kind: {theme}

Requirements:
  - every public API function must return exactly the same results (statuses, output buffers, returned sizes) for every input as before, must call the injected dependencies (randbytes, pbkdf2_sha256, memzero, u8_nfc, u8_nfkd, time, alloc, free) with the same arguments and the same number of times, and must wipe the same temporaries; only internal structure may change. Be careful: this is the whole point. Do not change word lists, constants, the public header's types or values.
  - the library compiles and the test suite passes:
       cmake -S {wt} -B {wt}/_b -DCMAKE_BUILD_TYPE=Release >/dev/null && cmake --build {wt}/_b >/dev/null && {wt}/_b/polyseed-tests
  - the change should be non-trivial (20-80 changed lines), touching real logic (not only comments/whitespace).

Deliverables under {d}/ :
  - patch.diff : output of `git -C {wt} diff`
  - notes.md   : what was refactored and why behaviour is unchanged (argue it, function by function).

Leave the worktree with the change applied. Do not commit. Reply with a 3-line summary.""")
