import json,sys
pid=sys.argv[1]; tag=sys.argv[2]
for l in open('/verif/properties.jsonl'):
    p=json.loads(l)
    if p['id']==pid: break
d='/tmp/seed-out/%s-%s'%(pid,tag); wt='/tmp/wt-%s-%s'%(pid,tag)
print(f"""You are helping to evaluate a verification tool by writing a realistic, subtle bug ("seeded change") for the C library tevador/polyseed (a small library that encodes a 150-bit Monero wallet seed + birthday + feature bits into a 16-word mnemonic with a GF(2048) checksum).

You have your own scratch git worktree of the library at {wt} . Work ONLY inside {wt} and {d}/ . Do NOT read or touch /verif or /repo or any other /tmp/wt-* or /tmp/seed-out/* directory (that would invalidate the experiment).

The property your change must BREAK:

  Title: {p['title']}
  Statement: {p['statement']}
  Quantified over: {p['quantifier']['text']}

Task: make ONE small source change to the library (files under src/ or include/ in the worktree) such that
  1. the library still compiles without suspicious new warnings, and the existing test suite still passes completely:
       cmake -S {wt} -B {wt}/_b -DCMAKE_BUILD_TYPE=Release >/dev/null && cmake --build {wt}/_b >/dev/null && {wt}/_b/polyseed-tests
     (every test line must still print PASSED, exactly as before your change);
  2. the property above is violated on SOME inputs/sequences, but the change needs something specific to manifest. THIS TIME prefer one of these kinds (pick the one that fits the property best, and avoid the most obvious single-constant edits):
       - two cooperating sites that each look fine alone (e.g. a helper changed in one file and a caller relying on the old behaviour in another);
       - a multi-step sequence of API calls (state left behind by an earlier call, e.g. the static feature mask, the injected dependency table, a re-used buffer);
       - a fault at a particular point (an allocation failure, a normaliser that returns a string of maximal length, a clock/random source returning an extreme value);
       - an unusual but legal input (a boundary coin/birthday/feature value, a particular language, a word at a table boundary such as index 0, 1023, 1024 or 2047, a phrase with abbreviated words, an encrypted seed, a password needing normalisation).
     It must NOT be something ordinary use exposes at once, must look like a plausible mistake or 'optimisation' a maintainer could make, and must not just delete the feature.
  3. you provide a demonstration: a small C program {d}/demo.c which exits 0 on the ORIGINAL tree and exits non-zero (printing what went wrong) on the CHANGED tree. It must be buildable with exactly
       gcc -O1 -g -DNDEBUG -w -DPOLYSEED_STATIC -I$TREE/include -iquote $TREE/src demo.c $TREE/src/*.c -o demo -lutf8proc -lsodium -lpthread
     (add the literal text -funsigned-char or -fsanitize=thread in a comment at the top of demo.c if it needs that flag). You must supply the dependency callbacks via polyseed_inject — look at tests/tests.c for how; libsodium and utf8proc are installed for real randomness / normalisation. Verify both outcomes yourself: `git -C {wt} diff > {d}/patch.diff; git -C {wt} checkout -- .` gives back the original tree, `git -C {wt} apply {d}/patch.diff` re-applies your change.

Deliverables, all under {d}/ :
  - patch.diff   : output of `git -C {wt} diff` (must apply to the pristine tree with `git apply`)
  - demo.c       : the demonstration program
  - notes.md     : 5-15 lines: what the change is, why the tests still pass, exactly what is needed for it to manifest, and the demo's output on the original and on the changed tree.

Leave the worktree with the change applied. Do not commit. When done, reply with a 3-line summary.""")
