import json,sys
tag=sys.argv[1]
d='/tmp/seed-out/F-%s'%tag; wt='/tmp/wt-F-%s'%tag
props=[json.loads(l) for l in open('/verif/properties.jsonl')]
txt='\n\n'.join('  %s. %s\n     %s' % (p['id'], p['title'], p['statement']) for p in props)
print(f"""You are helping to evaluate a verification tool by writing a realistic, subtle bug ("seeded change") for the C library tevador/polyseed (a small library that encodes a 150-bit Monero wallet seed + birthday + feature bits into a 16-word mnemonic with a GF(2048) checksum).

You have your own scratch git worktree of the library at {wt} . Work ONLY inside {wt} and {d}/ . Do NOT read or touch /verif or /repo or any other /tmp/wt-* or /tmp/seed-out/* directory (that would invalidate the experiment).

The tool checks these twenty properties:

{txt}

Task: read the library, then pick the ONE property (your choice - prefer an area of the code that looks least likely to be exercised by tests) and make ONE small source change (files under src/ or include/) such that
  1. the library still compiles without suspicious new warnings, and the existing test suite still passes completely:
       cmake -S {wt} -B {wt}/_b -DCMAKE_BUILD_TYPE=Release >/dev/null && cmake --build {wt}/_b >/dev/null && {wt}/_b/polyseed-tests
  2. the chosen property is violated, but ONLY on a narrow class of inputs or call histories - the tool combines machine-checked proofs about a model with randomized and boundary-biased differential testing of the real code, and your goal is a change it is most likely to MISS, while still being a plausible maintainer mistake or 'optimisation' (no `if (x == 1234)` special-casing, no dead code). It must manifest deterministically in single-threaded use.
  3. you provide a demonstration: a small C program {d}/demo.c which exits 0 on the ORIGINAL tree and exits non-zero (printing what went wrong) on the CHANGED tree, buildable with exactly
       gcc -O1 -g -DNDEBUG -w -DPOLYSEED_STATIC -I$TREE/include -iquote $TREE/src demo.c $TREE/src/*.c -o demo -lutf8proc -lsodium -lpthread
     You must supply the dependency callbacks via polyseed_inject - look at tests/tests.c for how; libsodium and utf8proc are installed. Verify both outcomes yourself (`git -C {wt} diff > {d}/patch.diff; git -C {wt} checkout -- .` gives back the original tree, `git -C {wt} apply {d}/patch.diff` re-applies your change).

Deliverables, all under {d}/ :
  - patch.diff, demo.c
  - notes.md : FIRST LINE exactly `PROPERTY: Cxx` (the id you chose), then 5-15 lines: what the change is, why the tests still pass, what is needed for it to manifest, the demo's output on both trees.

Leave the worktree with the change applied. Do not commit. Keep every individual message and file write short. Reply with a 3-line summary.""")
