#!/usr/bin/env python3
"""verify a seeded change and keep it under /verif/seeded/<name>/ (patch.diff, demo.c, notes.md, meta.json).
usage: seeded_keep.py <srcdir> <name> <breaks-prop> [other props to run]"""
import json, os, shutil, subprocess, sys
src, name, prop = sys.argv[1], sys.argv[2], sys.argv[3]
props = [prop] + sys.argv[4:]
r = subprocess.run([sys.executable, '/verif/tools/seeded_verify.py', src] + props, stdout=subprocess.PIPE, text=True)
res = json.loads(r.stdout)
ok = res.get('applies') and res.get('tests_ok') and res.get('demo_orig_rc') == 0 and res.get('demo_mut_rc', 0) != 0
dst = '/verif/seeded/' + name
if ok:
    os.makedirs(dst, exist_ok=True)
    for f in ('patch.diff', 'demo.c', 'notes.md'):
        if os.path.exists(os.path.join(src, f)):
            shutil.copy(os.path.join(src, f), os.path.join(dst, f))
    notes = open(os.path.join(src, 'notes.md')).read() if os.path.exists(os.path.join(src, 'notes.md')) else ''
    meta = dict(breaks_property=prop, origin='fresh sub-agent given only the property text and its own worktree',
                needs_to_manifest=notes[:1500], confirmed=dict(applies_to_repo_head=True, suite_passed_lines=res['tests_passed'], demo_rc_without_change=res['demo_orig_rc'],
                demo_rc_with_change=res['demo_mut_rc'], demo_output_with_change=res['demo_mut_out'][-300:]),
                ran=['git apply patch.diff in a scratch worktree; cmake build + polyseed-tests; demo built with: ' + res['demo_cmd'].split(' -o ')[0][-200:], 'python3 check.py <prop> with the patch applied to /repo, then git checkout -- .'],
                checks={p: dict(detected=v['rc'] != 0, violation_line=v['violation'], first_lines=v['lines']) for p, v in res.get('checks', {}).items()})
    json.dump(meta, open(os.path.join(dst, 'meta.json'), 'w'), indent=1)
print(name, 'KEPT' if ok else 'REJECTED', {k: res.get(k) for k in ('applies', 'tests_ok', 'demo_orig_rc', 'demo_mut_rc')}, {p: (v['rc'], v['violation']) for p, v in res.get('checks', {}).items()})
if not ok:
    print(json.dumps(res, indent=1)[:2000])
