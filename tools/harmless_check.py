#!/usr/bin/env python3
"""apply a (claimed) behaviour-preserving patch to /repo, run the suite and all 20 checks, undo. usage: harmless_check.py <patch>"""
import json, os, subprocess, sys
MUT = os.environ.get('VERIF_REPO', '/repo')
patch = sys.argv[1]
def sh(c, cwd='/verif'):
    return subprocess.run(c, shell=True, stdout=subprocess.PIPE, stderr=subprocess.STDOUT, text=True, cwd=cwd)
ids = [json.loads(l)['id'] for l in open('/verif/properties.jsonl')]
r = sh('git -C %s apply %s' % (MUT, patch))
if r.returncode != 0:
    print('does not apply:', r.stdout); sys.exit(2)
try:
    out = []
    for p in ids:
        r = sh('python3 check.py %s' % p)
        v = [l for l in r.stdout.split('\n') if l.startswith('VIOLATION')]
        first = [l for l in r.stdout.split('\n') if l.startswith('  [')][:2]
        out.append((p, r.returncode, v[:1], first))
        if r.returncode != 0:
            print(p, v[:1], [f[:260] for f in first], flush=True)
    print('alarms:', [p for p, rc, _, _ in out if rc != 0])
finally:
    sh('git -C %s checkout -- . && ( [ "$(realpath %s)" = /repo ] || git -C %s clean -fdq )' % (MUT, MUT, MUT))
