#!/usr/bin/env python3
"""re-run the target property's check against every kept seeded change (on a private mutation worktree, never /repo):
usage: VERIF_REPO=/tmp/repo-mut seeded_recheck.py [--tier thorough] [names...]; prints one line per change"""
import json, os, subprocess, sys, glob, time
here = os.path.dirname(os.path.dirname(os.path.abspath(__file__)))
MUT = os.environ.get('VERIF_REPO')
assert MUT and os.path.realpath(MUT) != '/repo', 'set VERIF_REPO to a scratch worktree'
args = [a for a in sys.argv[1:] if not a.startswith('--')]
tier = 'thorough' if '--tier=thorough' in sys.argv or '--thorough' in sys.argv else 'quick'
def sh(c):
    return subprocess.run(c, shell=True, stdout=subprocess.PIPE, stderr=subprocess.STDOUT, text=True, cwd=here)
bad = 0
for d in sorted(glob.glob(os.path.join(here, 'seeded', '*'))):
    name = os.path.basename(d)
    if not os.path.isdir(d) or (args and name not in args):
        continue
    harmless = name.startswith(('harmless', 'borderline'))
    meta = json.load(open(os.path.join(d, 'meta.json'))) if os.path.exists(os.path.join(d, 'meta.json')) else {}
    target = meta.get('breaks_property') or name.split('-')[0]
    sh('git -C %s checkout -- . && ( [ "$(realpath %s)" = /repo ] || git -C %s clean -fdq )' % (MUT, MUT, MUT))
    r = sh('git -C %s apply %s' % (MUT, os.path.join(d, 'patch.diff')))
    if r.returncode != 0:
        print(name, 'DOES NOT APPLY', r.stdout[:200]); bad += 1
        continue
    try:
        t0 = time.time()
        props = [json.loads(l)['id'] for l in open(os.path.join(here, 'properties.jsonl'))] if harmless else [target]
        res = []
        for p in props:
            r = sh('python3 check.py %s --tier %s' % (p, tier))
            v = [l for l in r.stdout.split('\n') if l.startswith('VIOLATION')]
            res.append((p, r.returncode, v))
        if harmless:
            al = [p for p, rc, v in res if rc != 0]
            claimed = [p for p, rc, v in res if rc != 0 and v and 'no-failing-input-found' not in v[0]]
            exp = meta.get('expected_alarms', [])
            ok = sorted(al) == sorted(exp) and not claimed
            print(name, 'silent' if not al else ('alarms %s (expected, no failing input claimed)' % al if ok else 'ALARMS %s, failing input claimed by %s' % (al, claimed)), '%.0fs' % (time.time() - t0), flush=True)
        else:
            p, rc, v = res[0]
            ok = rc == 1 and v and 'no-failing-input-found' not in v[0]
            extra = ''
            seeds = [x for x in os.environ.get('VERIF_SEEDS', '').split(',') if x]
            if seeds:
                hit = 0
                for sd in seeds:
                    r = subprocess.run('python3 check.py %s --tier %s' % (target, tier), shell=True, stdout=subprocess.PIPE, stderr=subprocess.STDOUT, text=True, cwd=here, env=dict(os.environ, VERIF_SEED=sd))
                    vv = [l for l in r.stdout.split('\n') if l.startswith('VIOLATION')]
                    hit += 1 if (r.returncode == 1 and vv and 'no-failing-input-found' not in vv[0]) else 0
                extra = ' seeds %s: %d/%d' % (','.join(seeds), hit, len(seeds))
                ok = ok and hit == len(seeds)
            print(name, target, ('caught with failing input' if ok else 'NOT CAUGHT PROPERLY rc=%d %s' % (rc, v)) + extra, '%.0fs' % (time.time() - t0), flush=True)
        bad += 0 if ok else 1
    finally:
        sh('git -C %s checkout -- . && ( [ "$(realpath %s)" = /repo ] || git -C %s clean -fdq )' % (MUT, MUT, MUT))
print('problems:', bad)
