#!/usr/bin/env python3
"""Confirm a seeded change: applies to /repo HEAD, still builds and passes the suite, its demo passes without
and fails with the change, and run the /verif checks against it.  usage: seeded_verify.py <dir with patch.diff, demo.c> <prop> [more props]"""
import json, os, re, subprocess, sys, shutil, tempfile
d = os.path.abspath(sys.argv[1]); props = sys.argv[2:]
wt = tempfile.mkdtemp(prefix='wt-verify-', dir='/tmp')
os.rmdir(wt)
def sh(cmd, **kw):
    return subprocess.run(cmd, shell=True, stdout=subprocess.PIPE, stderr=subprocess.STDOUT, text=True, errors='replace', **kw)
res = {}
r = sh('git -C /repo worktree add -q --detach %s HEAD' % wt); assert r.returncode == 0, r.stdout
try:
    demo = open(os.path.join(d, 'demo.c')).read()
    variants = []
    base = 'gcc -O1 -g %%s -w -DPOLYSEED_STATIC -I%s/include -iquote %s/src %s %s/src/*.c -o %s/demo-%%s -lutf8proc -lsodium -lpthread' % (wt, wt, os.path.join(d, 'demo.c'), wt, wt)
    tsan = '-fsanitize=thread' if ('fsanitize=thread' in demo or 'ThreadSanitizer' in demo) else ''
    if '-funsigned-char' in demo:
        tsan += ' -funsigned-char'
    # explicit override next to the demo: a file `demo_flags` with the extra compiler flags (may be empty)
    if os.path.exists(os.path.join(d, 'demo_flags')):
        tsan = open(os.path.join(d, 'demo_flags')).read().strip()
    for defs in ('-DNDEBUG ' + tsan, tsan):
        variants.append(base % (defs, '%s'))
    chosen = {}
    def build_demo(tag):
        cands = [chosen['c']] if 'c' in chosen else variants
        out = ''
        for c0 in cands:
            c = c0 % tag
            r = sh(c, cwd=wt)
            if r.returncode == 0:
                if tag == 'orig':
                    # the variant must also PASS on the original tree
                    rr = sh('%s/demo-orig' % wt, cwd=wt)
                    if rr.returncode != 0 and c0 is not cands[-1]:
                        continue
                chosen['c'] = c0
                return 0, '', c
            out = r.stdout[-800:]
        return 1, out, cands[-1] % tag
    rc, out, c = build_demo('orig'); res['demo_cmd'] = c
    if rc != 0: res['demo_build_orig'] = out
    r = sh('%s/demo-orig' % wt, cwd=wt); res['demo_orig_rc'] = r.returncode; res['demo_orig_out'] = r.stdout[-300:]
    r = sh('git -C %s apply %s/patch.diff' % (wt, d)); res['applies'] = r.returncode == 0
    if r.returncode != 0: res['apply_err'] = r.stdout[-500:]
    else:
        r = sh('cmake -S %s -B %s/_b -DCMAKE_BUILD_TYPE=Release >/dev/null && cmake --build %s/_b 2>&1 | grep -i "warning" | head -5; %s/_b/polyseed-tests' % (wt, wt, wt, wt))
        res['tests_passed'] = r.stdout.count('PASSED'); res['tests_ok'] = 'All tests were successful' in r.stdout and 'SKIPPED' not in r.stdout
        res['warnings'] = [l for l in r.stdout.split('\n') if 'warning' in l.lower()][:3]
        rc, out, c = build_demo('mut')
        if rc != 0: res['demo_build_mut'] = out
        r = sh('%s/demo-mut' % wt, cwd=wt); res['demo_mut_rc'] = r.returncode; res['demo_mut_out'] = r.stdout[-400:]
finally:
    sh('git -C /repo worktree remove --force %s' % wt)
# run the checks against /repo with the patch applied
if res.get('applies'):
    MUT = os.environ.get('VERIF_REPO', '/repo')
    r = sh('git -C %s apply %s/patch.diff' % (MUT, d))
    try:
        res['checks'] = {}
        for p in props:
            r = sh('python3 check.py %s' % p, cwd='/verif')
            vio = [l for l in r.stdout.split('\n') if l.startswith('VIOLATION')]
            lines = [l for l in r.stdout.split('\n') if l.startswith('  [')]
            res['checks'][p] = dict(rc=r.returncode, violation=vio[:1], lines=[l[:300] for l in lines[:3]])
    finally:
        sh('git -C %s checkout -- . && ( [ "$(realpath %s)" = /repo ] || git -C %s clean -fdq )' % (MUT, MUT, MUT))
print(json.dumps(res, indent=1))
