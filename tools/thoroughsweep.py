#!/usr/bin/env python3
"""run every THOROUGH check at several seeds on the unchanged tree; any non-ok line is a false alarm to investigate"""
import json, os, subprocess, sys
here = os.path.dirname(os.path.dirname(os.path.abspath(__file__)))
ids = [json.loads(l)['id'] for l in open(os.path.join(here, 'properties.jsonl'))]
print(subprocess.run('python3 check.py --setup', shell=True, cwd=here, stdout=subprocess.PIPE, stderr=subprocess.STDOUT, text=True).stdout[-100:], flush=True)
bad = 0
for seed in sys.argv[1:]:
    for p in ids:
        r = subprocess.run('python3 check.py %s --tier thorough' % p, shell=True, cwd=here, stdout=subprocess.PIPE, stderr=subprocess.STDOUT, text=True, env=dict(os.environ, VERIF_SEED=seed))
        last = [l for l in r.stdout.split('\n') if l.strip()][-1:]
        print('seed', seed, last, flush=True)
        if r.returncode != 0:
            bad += 1
            print('SEED', seed, p, 'rc', r.returncode, '\n'.join(l[:500] for l in r.stdout.split('\n') if l.startswith(('VIOLATION', '  [')))[:3000], flush=True)
    print('seed', seed, 'done, false alarms so far:', bad, flush=True)
