#!/usr/bin/env python3
"""Regenerate MANIFEST.json from the property table in vlib/props.py."""
import json, os, sys
sys.path.insert(0, os.path.dirname(os.path.dirname(os.path.abspath(__file__))))
from vlib import props

ids = [json.loads(l)['id'] for l in open('/verif/properties.jsonl')]
checks = []
for pid in ids:
    P = props.PROPS.get(pid)
    if not P or P.get('disabled'):
        continue
    checks.append({
        'property_id': pid,
        'quick_cmd': 'python3 check.py %s --tier quick' % pid,
        'thorough_cmd': 'python3 check.py %s --tier thorough' % pid,
        'evidence_file': '/verif/evidence/%s.json' % pid,
        'replay_cmd_template': 'python3 check.py --replay {path}',
        'engine': 'lean4-proof+correspondence',
        'level_claimed': {'category': P['level'], 'text': P['text'], 'design_ref': 'DESIGN.md section 6, ' + pid},
        'level_note': P['note'],
        'technique': P['technique'],
    })
na = [{'property_id': i, 'reason': props.NOT_APPLICABLE.get(i, 'check under construction (DESIGN.md section 6); not claimed yet')} for i in ids if i not in [c['property_id'] for c in checks]]
m = {
    'version': 1,
    'setup_cmd': 'python3 check.py --setup',
    'hooks': {
        'guard': 'POLYSEED_VERIF',
        'enable': 'no source hooks are needed: all observation goes through dependency injection, the repository\'s internal headers and the linker (--wrap); checks compile /repo/src/*.c from the working tree themselves',
        'baseline_off_cmd': 'cmake -S /repo -B /repo/_build >/dev/null && cmake --build /repo/_build >/dev/null && /repo/_build/polyseed-tests',
        'source_commits': [],
        'add_only': True,
    },
    'engines': [{'name': 'lean4-proof+correspondence', 'path': '/verif/check.py', 'serves_properties': [c['property_id'] for c in checks],
                 'kind_free_text': 'Lean 4 theorems about a hand-written executable model (lean/Polyseed), tables regenerated from the tree by a translator (gen/), correspondence check between the compiled model and the real C (harness/drv.c) on generated scripts, property oracles on the real code'}],
    'checks': checks,
    'not_applicable': na,
    'notes': 'see DESIGN.md; KNOWN_FINDINGS.txt lists open findings and fixed defects',
}
json.dump(m, open('/verif/MANIFEST.json', 'w'), indent=1)
print('manifest: %d checks, %d not claimed' % (len(checks), len(na)))
