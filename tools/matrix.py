#!/usr/bin/env python3
"""Run every check against every kept seeded change (in the repo named by VERIF_REPO) and print the detection matrix.
Meant for `vp run --with-repo -- env VERIF_REPO=$VP_RUN_REPO python3 tools/matrix.py`."""
import json, os, subprocess, sys
here = os.path.dirname(os.path.dirname(os.path.abspath(__file__)))
repo = os.environ.get('VERIF_REPO', '/repo')
ids = [json.loads(l)['id'] for l in open(os.path.join(here, 'properties.jsonl'))]
def sh(c):
    return subprocess.run(c, shell=True, stdout=subprocess.PIPE, stderr=subprocess.STDOUT, text=True, cwd=here)
print(sh('python3 check.py --setup').stdout[-200:], flush=True)
names = sorted(os.listdir(os.path.join(here, 'seeded')))
only = sys.argv[1:]
res = {}
for n in names:
    if only and n not in only:
        continue
    patch = os.path.join(here, 'seeded', n, 'patch.diff')
    r = sh('git -C %s apply %s' % (repo, patch))
    if r.returncode != 0:
        print(n, 'does not apply', r.stdout[-200:], flush=True)
        continue
    row = {}
    try:
        for p in ids:
            r = sh('python3 check.py %s' % p)
            v = [l for l in r.stdout.split('\n') if l.startswith('VIOLATION')]
            row[p] = 0 if r.returncode == 0 else (2 if v and 'no-failing-input-found' in v[0] else (1 if v else 3))
    finally:
        sh('git -C %s checkout -- . && ( [ "$(realpath %s)" = /repo ] || git -C %s clean -fdq )' % (repo, repo, repo))
    res[n] = row
    print(n, ' '.join('%s%s' % (p[1:], {0: '.', 1: 'X', 2: 'n', 3: '!'}[row[p]]) for p in ids), flush=True)
json.dump(res, open(os.path.join(here, 'matrix.json'), 'w'), indent=1)
