/* S-stack: does secret material survive on the dead stack after an API call returns?
 *
 * Every API function x exit path runs on a dedicated, pre-patterned 512 KiB stack (ucontext).
 * After it returned the whole stack is scanned for
 *   - the secret bytes (any 8 consecutive bytes of the 19),
 *   - the 16 word indices (4 consecutive ones, as 64/32/16-bit integers),
 *   - the phrase text (any 12 consecutive bytes),
 *   - the password (any 8 consecutive bytes) and the encryption mask (any 8 consecutive bytes).
 * Each scan is paired with a control run in which the API call is skipped: only residue absent from the
 * control counts.  Hygiene: static pool allocator (glibc malloc would build an arena on the scanned stack),
 * link with -Wl,-z,now (the lazy PLT resolver spills vector registers), inputs live in static memory.
 *
 * Language = argv[1] (registry index).  Normalisation is real (utf8proc) but must not itself leave phrase bytes
 * on the scanned stack: a warm-up pass runs every case once on the main stack with utf8proc-backed normalisers that
 * RECORD (input -> output); the scanned passes use table-driven normalisers that only strcmp/memcpy from static memory.
 * Phrase and password are scanned in the form given AND in NFKD form (what the library's temporaries hold).
 *
 * Build: cc $OPT -DNDEBUG -DPOLYSEED_STATIC -I/repo/include -iquote /repo/src stackscan.c /repo/src/<all>.c -Wl,-z,now -lutf8proc
 */
#define _GNU_SOURCE
#include "polyseed.h"
#include "lang.h"
#include "gf.h"
#include "storage.h"
#include "features.h"

#include <stdio.h>
#include <stdlib.h>
#include <string.h>
#include <stdint.h>
#include <stdbool.h>
#include <ucontext.h>
#include <sys/mman.h>
#include <utf8proc.h>

#define STACK_SIZE (512 * 1024)
#define PATTERN 0xA5

/* ---- dependencies: no libc allocation, nothing that copies secrets around ---- */
static unsigned char g_pool[64][64] __attribute__((aligned(16)));
static int g_pool_used[64];
static void* pool_alloc(size_t n) {
    if (n > 64) return NULL;
    for (int i = 0; i < 64; ++i) if (!g_pool_used[i]) { g_pool_used[i] = 1; memset(g_pool[i], 0xEE, 64); return g_pool[i]; }
    return NULL;
}
static void pool_free(void* p) {
    for (int i = 0; i < 64; ++i) if (p == g_pool[i]) g_pool_used[i] = 0;
}
static unsigned char g_rand[19];
static void dep_rand(void* r, size_t n) { memcpy(r, g_rand, n < 19 ? n : 19); }
static unsigned char g_mask[32];
static void dep_kdf(const uint8_t* pw, size_t pwlen, const uint8_t* salt, size_t saltlen, uint64_t it, uint8_t* key, size_t keylen) {
    (void)pw; (void)pwlen; (void)salt; (void)saltlen; (void)it;
    for (size_t i = 0; i < keylen; ++i) key[i] = g_mask[i % 32];
}
static void dep_memzero(void* const p, const size_t n) { volatile unsigned char* q = p; for (size_t i = 0; i < n; ++i) q[i] = 0; }
static size_t dep_copy(const char* s, polyseed_str o) { size_t n = strlen(s); if (n > POLYSEED_STR_SIZE - 1) n = POLYSEED_STR_SIZE - 1; memcpy(o, s, n); o[n] = 0; return n; }
static uint64_t dep_time(void) { return 1700000000ull; }

/* recorded normalisations: kind 0 = NFC, 1 = NFKD */
#define NTAB 64
static struct { int kind; char in[POLYSEED_STR_SIZE * 2]; char out[POLYSEED_STR_SIZE]; size_t n; } g_tab[NTAB];
static int g_ntab, g_untabled;
static size_t real_norm(int kind, const char* s, polyseed_str o) {
    utf8proc_uint8_t* r = kind == 0 ? utf8proc_NFC((const utf8proc_uint8_t*)s) : utf8proc_NFKD((const utf8proc_uint8_t*)s);
    const char* src = r ? (const char*)r : s;
    size_t n = strlen(src);
    if (n > POLYSEED_STR_SIZE - 1) n = POLYSEED_STR_SIZE - 1;
    memcpy(o, src, n); o[n] = 0;
    if (r) free(r);
    if (g_ntab < NTAB && strlen(s) < sizeof g_tab[0].in) {
        int known = 0;
        for (int i = 0; i < g_ntab; ++i) if (g_tab[i].kind == kind && strcmp(g_tab[i].in, s) == 0) known = 1;
        if (!known) { g_tab[g_ntab].kind = kind; strcpy(g_tab[g_ntab].in, s); memcpy(g_tab[g_ntab].out, o, n + 1); g_tab[g_ntab].n = n; g_ntab++; }
    }
    return n;
}
static size_t real_nfc(const char* s, polyseed_str o) { return real_norm(0, s, o); }
static size_t real_nfkd(const char* s, polyseed_str o) { return real_norm(1, s, o); }
static size_t tab_norm(int kind, const char* s, polyseed_str o) {
    for (int i = 0; i < g_ntab; ++i)
        if (g_tab[i].kind == kind && strcmp(g_tab[i].in, s) == 0) { memcpy(o, g_tab[i].out, g_tab[i].n + 1); return g_tab[i].n; }
    g_untabled++;
    return dep_copy(s, o);
}
static size_t tab_nfc(const char* s, polyseed_str o) { return tab_norm(0, s, o); }
static size_t tab_nfkd(const char* s, polyseed_str o) { return tab_norm(1, s, o); }

/* ---- inputs and outputs live here, never on the scanned stack ---- */
static unsigned char g_secret[19];
static unsigned g_idx[16];
static char g_phrase[POLYSEED_STR_SIZE];
static char g_phrase_badcoin[POLYSEED_STR_SIZE];
static char g_phrase_unsup[POLYSEED_STR_SIZE];
static unsigned g_idx_unsup[16];
static char g_phrase_mult[POLYSEED_STR_SIZE];
static unsigned g_idx_mult[16];
static int g_have_mult;
static char g_password[64] = "p\xc3\xa4ssw\xc3\xb6rd correct h\xc3\xb4rse battery";
static char g_password_nfkd[POLYSEED_STR_SIZE];
static char g_phrase_nfkd[POLYSEED_STR_SIZE];
static char g_phrase_unsup_nfkd[POLYSEED_STR_SIZE];
static polyseed_storage g_store, g_store_unsup, g_store_badchk, g_store_badfmt;
static polyseed_data* g_seed;
static polyseed_data* g_out;
static polyseed_str g_strout;
static uint8_t g_key[32];
static const polyseed_lang* g_lang;
static const polyseed_lang* g_langout;
static int g_skip;      /* control run: do everything but the API call */
static int g_case;
static polyseed_status g_status;

enum { C_CREATE, C_ENCODE, C_DECODE_OK, C_DECODE_CHK, C_DECODE_LANG, C_DECODE_NUM, C_DECODE_UNSUP, C_DECODE_MULT,
       C_DECODEX_OK, C_DECODEX_CHK, C_DECODEX_LANG, C_DECODEX_UNSUP,
       C_LOAD_OK, C_LOAD_FMT, C_LOAD_CHK, C_LOAD_UNSUP, C_CRYPT, C_KEYGEN, C_STORE, C_FREE, C_NCASES };
static const char* g_names[] = { "create", "encode", "decode/ok", "decode/checksum", "decode/lang", "decode/numwords", "decode/unsupported", "decode/multlang",
    "decode_explicit/ok", "decode_explicit/checksum", "decode_explicit/lang", "decode_explicit/unsupported",
    "load/ok", "load/format", "load/checksum", "load/unsupported", "crypt", "keygen", "store", "free" };

static void the_call(void) {
    g_out = NULL;
    if (g_skip) return;
    switch (g_case) {
    case C_CREATE: g_status = polyseed_create(0, &g_out); break;
    case C_ENCODE: polyseed_encode(g_seed, g_lang, POLYSEED_MONERO, g_strout); break;
    case C_DECODE_OK: g_status = polyseed_decode(g_phrase, POLYSEED_MONERO, &g_langout, &g_out); break;
    case C_DECODE_CHK: g_status = polyseed_decode(g_phrase, POLYSEED_AEON, &g_langout, &g_out); break;
    case C_DECODE_LANG: g_status = polyseed_decode(g_phrase_badcoin, POLYSEED_MONERO, &g_langout, &g_out); break;
    case C_DECODE_NUM: g_status = polyseed_decode("abandon ability able", POLYSEED_MONERO, &g_langout, &g_out); break;
    case C_DECODE_UNSUP: g_status = polyseed_decode(g_phrase_unsup, POLYSEED_MONERO, &g_langout, &g_out); break;
    case C_DECODE_MULT: if (g_have_mult) g_status = polyseed_decode(g_phrase_mult, POLYSEED_MONERO, &g_langout, &g_out); else g_status = -1; break;
    case C_DECODEX_OK: g_status = polyseed_decode_explicit(g_phrase, POLYSEED_MONERO, g_lang, &g_out); break;
    case C_DECODEX_CHK: g_status = polyseed_decode_explicit(g_phrase, POLYSEED_AEON, g_lang, &g_out); break;
    case C_DECODEX_LANG: g_status = polyseed_decode_explicit(g_phrase_badcoin, POLYSEED_MONERO, g_lang, &g_out); break;
    case C_DECODEX_UNSUP: g_status = polyseed_decode_explicit(g_phrase_unsup, POLYSEED_MONERO, g_lang, &g_out); break;
    case C_LOAD_OK: g_status = polyseed_load(g_store, &g_out); break;
    case C_LOAD_FMT: g_status = polyseed_load(g_store_badfmt, &g_out); break;
    case C_LOAD_CHK: g_status = polyseed_load(g_store_badchk, &g_out); break;
    case C_LOAD_UNSUP: g_status = polyseed_load(g_store_unsup, &g_out); break;
    case C_CRYPT: polyseed_crypt(g_seed, g_password); break;
    case C_KEYGEN: polyseed_keygen(g_seed, POLYSEED_MONERO, 32, g_key); break;
    case C_STORE: polyseed_store(g_seed, g_store); break;
    case C_FREE: polyseed_free(g_seed); g_seed = NULL; break;
    }
}

static ucontext_t g_main, g_ctx;
static void trampoline(void) { the_call(); }

static unsigned char* g_stack;

/* clear caller-saved vector registers so stale data of the parent context cannot be spilled onto the scanned stack */
static void clear_vregs(void) {
#if defined(__x86_64__)
    __asm__ volatile ("pxor %%xmm0,%%xmm0; pxor %%xmm1,%%xmm1; pxor %%xmm2,%%xmm2; pxor %%xmm3,%%xmm3;"
                      "pxor %%xmm4,%%xmm4; pxor %%xmm5,%%xmm5; pxor %%xmm6,%%xmm6; pxor %%xmm7,%%xmm7;"
                      "pxor %%xmm8,%%xmm8; pxor %%xmm9,%%xmm9; pxor %%xmm10,%%xmm10; pxor %%xmm11,%%xmm11;"
                      "pxor %%xmm12,%%xmm12; pxor %%xmm13,%%xmm13; pxor %%xmm14,%%xmm14; pxor %%xmm15,%%xmm15" :::
                      "xmm0","xmm1","xmm2","xmm3","xmm4","xmm5","xmm6","xmm7","xmm8","xmm9","xmm10","xmm11","xmm12","xmm13","xmm14","xmm15");
#endif
}

static void run_on_stack(void) {
    memset(g_stack, PATTERN, STACK_SIZE);
    getcontext(&g_ctx);
    g_ctx.uc_stack.ss_sp = g_stack;
    g_ctx.uc_stack.ss_size = STACK_SIZE;
    g_ctx.uc_link = &g_main;
    makecontext(&g_ctx, trampoline, 0);
    clear_vregs();
    swapcontext(&g_main, &g_ctx);
}

/* count positions where `n` consecutive bytes of pat[0..len) occur */
static int scan_bytes(const unsigned char* pat, size_t len, size_t n, long* first) {
    int hits = 0;
    if (len < n) return 0;
    for (size_t s = 0; s + n <= len; ++s) {
        const unsigned char* p = g_stack;
        size_t remain = STACK_SIZE;
        while (remain >= n) {
            const unsigned char* q = memmem(p, remain, pat + s, n);
            if (!q) break;
            if (hits == 0 && first) *first = (long)(q - g_stack);
            hits++;
            remain -= (size_t)(q - p) + 1;
            p = q + 1;
        }
    }
    return hits;
}
static int scan_idx(const unsigned* idx, int width, long* first) {
    /* 4 consecutive indices as little-endian integers of `width` bytes */
    unsigned char buf[16 * 8];
    memset(buf, 0, sizeof buf);
    for (int i = 0; i < 16; ++i) for (int b = 0; b < width; ++b) buf[i * width + b] = (unsigned char)((uint64_t)idx[i] >> (8 * b));
    return scan_bytes(buf, 16 * (size_t)width, 4 * (size_t)width, first);
}

static void report(const char* what, int hits, int ctl, long first) {
    printf("SCAN case=%s kind=%s hits=%d control=%d first=%ld\n", g_names[g_case], what, hits, ctl, first);
}

/* a phrase all of whose 16 tokens are recognised by two lists (the MULT_LANG exit): words of language a that language b
 * finds too; the indices the decoder holds are those of the FIRST list in registry order that recognises all of them */
#ifdef DRV_NO_LANG
static int find_exact(const polyseed_lang* L, const char* w) {
    for (int j = 0; j < POLYSEED_LANG_SIZE; ++j) if (strcmp(L->words[j], w) == 0) return j;
    return -1;
}
#define FIND_WORD find_exact
#else
#define FIND_WORD polyseed_lang_find_word
#endif
static void build_mult(int li) {
    int nl = polyseed_get_num_langs();
    for (int pass = 0; pass < 2 && !g_have_mult; ++pass)
    for (int a = 0; a < nl && !g_have_mult; ++a) {
        if (pass == 0 && a != li) continue;
        for (int b = 0; b < nl && !g_have_mult; ++b) {
            if (b == a) continue;
            const polyseed_lang* La = polyseed_get_lang(a);
            const polyseed_lang* Lb = polyseed_get_lang(b);
            const char* tok[16]; int n = 0;
            size_t len = 0;
            for (int i = 0; i < POLYSEED_LANG_SIZE && n < 16; i += 7) {
                const char* w = La->words[i];
                if (FIND_WORD(Lb, w) >= 0 && len + strlen(w) + 1 < POLYSEED_STR_SIZE - 1) { tok[n++] = w; len += strlen(w) + 1; }
            }
            if (n < 16) continue;
            g_phrase_mult[0] = 0;
            for (int i = 0; i < 16; ++i) { if (i) strcat(g_phrase_mult, " "); strcat(g_phrase_mult, tok[i]); }
            for (int l = 0; l < nl; ++l) {
                int all = 1;
                for (int i = 0; i < 16; ++i) { int x = FIND_WORD(polyseed_get_lang(l), tok[i]); if (x < 0) { all = 0; break; } g_idx_mult[i] = (unsigned)x; }
                if (all) { g_have_mult = 1; break; }
            }
        }
    }
}

/* the 16 word indices of a phrase the library produced in g_lang: its NFKD form split at spaces, each token looked up
 * in the list by exact comparison (no internal function of the library is needed) */
static void indices_of(const char* phrase, unsigned* out) {
    static char buf[POLYSEED_STR_SIZE];
    real_nfkd(phrase, buf);
    int k = 0;
    for (char* t = strtok(buf, " "); t && k < 16; t = strtok(NULL, " "), ++k) {
        out[k] = 9999;
        for (int j = 0; j < POLYSEED_LANG_SIZE; ++j) if (strcmp(g_lang->words[j], t) == 0) { out[k] = (unsigned)j; break; }
    }
}

static void setup_seed(void) {
    if (g_seed) { polyseed_free(g_seed); g_seed = NULL; }
    polyseed_load(g_store, &g_seed);
}

int main(int argc, char** argv) {
    g_stack = mmap(NULL, STACK_SIZE, PROT_READ | PROT_WRITE, MAP_PRIVATE | MAP_ANONYMOUS, -1, 0);
    polyseed_dependency deps = { dep_rand, dep_kdf, dep_memzero, real_nfc, real_nfkd, dep_time, pool_alloc, pool_free };
    polyseed_inject(&deps);
    int li = argc > 1 ? atoi(argv[1]) : 0;
    if (li < 0 || li >= polyseed_get_num_langs()) li = 0;
    g_lang = polyseed_get_lang(li);
    for (int i = 0; i < 19; ++i) g_secret[i] = g_rand[i] = (unsigned char)(0x31 + 7 * i);
    g_secret[18] &= 0x3F;
    /* where another list shares exact words with this one (the two Chinese lists): prefer a seed whose phrase BEGINS with
     * at least six shared words but is not shared as a whole - auto-detection then tries the other list, gets six words
     * far and gives up: what it leaves behind of that attempt is part of the scan (the decode still succeeds) */
    {
        uint64_t z = 0x243F6A8885A308D3ull;
        for (int attempt = 0; attempt < 4000; ++attempt) {
            unsigned char cand[19];
            for (int i = 0; i < 19; ++i) { z = z * 6364136223846793005ull + 1442695040888963407ull; cand[i] = (unsigned char)(z >> 56); }
            memcpy(g_rand, cand, 19);
            polyseed_data* t = NULL;
            if (polyseed_create(0, &t) != POLYSEED_OK) break;
            polyseed_str ph; polyseed_encode(t, g_lang, POLYSEED_MONERO, ph);
            polyseed_free(t);
            unsigned ix[16]; for (int i = 0; i < 16; ++i) ix[i] = 9999;
            { const polyseed_lang* keep = g_lang; (void)keep; indices_of(ph, ix); }
            int best = 0;
            for (int lb = 0; lb < polyseed_get_num_langs(); ++lb) {
                if (lb == li) continue;
                const polyseed_lang* Lb = polyseed_get_lang(lb);
                int lead = 0, all = 1;
                for (int i = 0; i < 16; ++i) {
                    int found = 0;
                    if (ix[i] < POLYSEED_LANG_SIZE) for (int j = 0; j < POLYSEED_LANG_SIZE; ++j) if (strcmp(Lb->words[j], g_lang->words[ix[i]]) == 0) { found = 1; break; }
                    if (found && lead == i) lead = i + 1;
                    if (!found) all = 0;
                }
                if (!all && lead > best) best = lead;
            }
            if (best >= 6) { for (int i = 0; i < 19; ++i) g_secret[i] = cand[i]; g_secret[18] &= 0x3F; break; }
            if (attempt == 3999 || (attempt == 40 && best == 0)) {   /* no list shares words with this one: keep the default seed */
                for (int i = 0; i < 19; ++i) g_rand[i] = (unsigned char)(0x31 + 7 * i);
                break;
            }
        }
        for (int i = 0; i < 19; ++i) g_secret[i] = g_rand[i];
        g_secret[18] &= 0x3F;
        g_ntab = 0;   /* the normalisations recorded during the search are of no use to the scanned passes */
    }
    for (int i = 0; i < 32; ++i) g_mask[i] = (unsigned char)(0xC1 + 5 * i);
    /* a supported and an unsupported seed with the same secret, through the library itself */
    polyseed_data* s = NULL;
    polyseed_create(0, &s);
    polyseed_store(s, g_store);
    polyseed_encode(s, g_lang, POLYSEED_MONERO, g_phrase);
    indices_of(g_phrase, g_idx);
    polyseed_free(s);
    polyseed_enable_features(1);
    polyseed_create(1, &s);
    polyseed_store(s, g_store_unsup);
    polyseed_encode(s, g_lang, POLYSEED_MONERO, g_phrase_unsup);
    indices_of(g_phrase_unsup, g_idx_unsup);
    polyseed_free(s);
    polyseed_enable_features(0);
    memcpy(g_store_badchk, g_store, sizeof g_store); g_store_badchk[30] ^= 1;
    memcpy(g_store_badfmt, g_store, sizeof g_store); g_store_badfmt[0] ^= 1;
    /* a phrase whose first word is unknown (language error) */
    {
        polyseed_str sepn; real_nfc(g_lang->separator, sepn);
        const char* sp = strstr(g_phrase, sepn);
        strcpy(g_phrase_badcoin, "qqqqq");
        if (sp) strcat(g_phrase_badcoin, sp);
    }
    build_mult(li);
    real_nfkd(g_phrase, g_phrase_nfkd);
    real_nfkd(g_phrase_unsup, g_phrase_unsup_nfkd);
    real_nfkd(g_password, g_password_nfkd);
    /* warm-up pass on the main stack: records every normalisation the cases ask for */
    for (g_case = 0; g_case < C_NCASES; ++g_case) {
        g_skip = 0;
        setup_seed();
        the_call();
        if (g_out) { polyseed_free(g_out); g_out = NULL; }
    }
    deps.u8_nfc = tab_nfc; deps.u8_nfkd = tab_nfkd;
    polyseed_inject(&deps);

    for (g_case = 0; g_case < C_NCASES; ++g_case) {
        int res[8]; long first[8]; int ctl[8];
        for (g_skip = 1; g_skip >= 0; --g_skip) {
            setup_seed();
            if (g_case == C_CRYPT || g_case == C_KEYGEN || g_case == C_STORE || g_case == C_ENCODE || g_case == C_FREE) { /* uses g_seed */ }
            run_on_stack();
            if (g_out) { polyseed_free(g_out); g_out = NULL; }
            const unsigned* idx = (g_case == C_DECODE_UNSUP || g_case == C_DECODEX_UNSUP || g_case == C_LOAD_UNSUP) ? g_idx_unsup : g_case == C_DECODE_MULT ? g_idx_mult : g_idx;
            const char* ph = (g_case == C_DECODE_UNSUP || g_case == C_DECODEX_UNSUP) ? g_phrase_unsup : g_case == C_DECODE_MULT ? g_phrase_mult : g_phrase;
            const char* phn = (g_case == C_DECODE_UNSUP || g_case == C_DECODEX_UNSUP) ? g_phrase_unsup_nfkd : g_case == C_DECODE_MULT ? g_phrase_mult : g_phrase_nfkd;
            int k = 0;
            int* out = g_skip ? ctl : res;
            long f = -1;
            out[k++] = scan_bytes(g_secret, 19, 8, &f); if (!g_skip) first[0] = f; f = -1;
            out[k++] = scan_idx(idx, 8, &f); if (!g_skip) first[1] = f; f = -1;
            out[k++] = scan_idx(idx, 4, &f); if (!g_skip) first[2] = f; f = -1;
            out[k++] = scan_idx(idx, 2, &f); if (!g_skip) first[3] = f; f = -1;
            out[k] = scan_bytes((const unsigned char*)ph, strlen(ph), 12, &f);
            if (strcmp(ph, phn) != 0) out[k] += scan_bytes((const unsigned char*)phn, strlen(phn), 12, &f);
            k++; if (!g_skip) first[4] = f; f = -1;
            out[k] = scan_bytes((const unsigned char*)g_password, strlen(g_password), 8, &f);
            out[k] += scan_bytes((const unsigned char*)g_password_nfkd, strlen(g_password_nfkd), 8, &f);
            k++; if (!g_skip) first[5] = f; f = -1;
            out[k++] = scan_bytes(g_mask, 32, 8, &f); if (!g_skip) first[6] = f;
        }
        static const char* kinds[] = { "secret", "indices64", "indices32", "indices16", "phrase", "password", "mask" };
        for (int k = 0; k < 7; ++k) report(kinds[k], res[k], ctl[k], first[k]);
        printf("STATUS case=%s st=%d\n", g_names[g_case], (int)g_status);
    }
    printf("NORMALISATIONS recorded=%d untabled=%d lang=%d\n", g_ntab, g_untabled, li);
    return 0;
}
