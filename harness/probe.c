/* which internal interfaces of the current tree can the unit-level harness still reach?  One compile+link per group
 * (-DP_GF, -DP_PACK, ...): a group that no longer links (functions renamed, made static, moved) is switched off in
 * harness/drv.c and gen/dump.c with -DDRV_NO_<GROUP>; the API-level correspondence is unaffected. */
#include "polyseed.h"
#include "lang.h"
#include "gf.h"
#include "storage.h"
#include "birthday.h"
#include "features.h"
#include <string.h>
int main(void) {
#ifdef P_GF
    gf_poly q; memset(&q, 0, sizeof q);
    (void)gf_elem_mul2((gf_elem)1); (void)gf_poly_eval(&q); (void)gf_poly_check(&q);
#endif
#ifdef P_PACK
    polyseed_data d; gf_poly q2; memset(&d, 0, sizeof d); memset(&q2, 0, sizeof q2);
    polyseed_data_to_poly(&d, &q2); polyseed_poly_to_data(&q2, &d);
#endif
#ifdef P_STORE
    polyseed_storage s; polyseed_data d2; memset(&d2, 0, sizeof d2);
    polyseed_data_store(&d2, s); (void)polyseed_data_load(s, &d2);
#endif
#ifdef P_BDAY
    (void)birthday_encode((uint64_t)0); (void)birthday_decode(0u);
#endif
#ifdef P_FEAT
    (void)polyseed_features_supported(0u);
#endif
#ifdef P_LANG
    polyseed_phrase ph; gf_elem idx[POLYSEED_NUM_WORDS]; const polyseed_lang* lo;
    for (int i = 0; i < POLYSEED_NUM_WORDS; ++i) ph[i] = "a";
    (void)polyseed_lang_find_word(polyseed_get_lang(0), "a");
    (void)polyseed_phrase_decode(ph, idx, &lo);
    (void)polyseed_phrase_decode_explicit(ph, polyseed_get_lang(0), idx);
#endif
    return 0;
}
