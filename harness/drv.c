/* Correspondence harness: drives the REAL library (compiled from /repo's working
 * tree) in-process through a line protocol and prints a transcript in which
 * every call of an injected dependency is an `E` record.  The Lean driver
 * (lean/Main.lean) replays the same transcript through the model; check.py
 * diffs the two.
 *
 * Build: cc $FLAGS -DPOLYSEED_STATIC -I/repo/include -iquote /repo/src drv.c /repo/src/<all>.c \
 *           -Wl,--wrap=malloc,--wrap=free,--wrap=time -lutf8proc
 */
#define _GNU_SOURCE
#include "polyseed.h"
#include "lang.h"
#include "gf.h"
#include "storage.h"
#include "birthday.h"
#include "features.h"

#include <stdio.h>
#include <stdlib.h>
#include <string.h>
#include <stdint.h>
#include <stdbool.h>
#include <sys/mman.h>
#include <unistd.h>
#include <time.h>
#include <utf8proc.h>

#define PAGE 4096
#define MAXLINE (1 << 20)
#define NSLOTS 16
#define MAXBLOCKS (1 << 20)

static void die(const char* msg) {
    printf("! HARNESS %s\n", msg);
    fflush(stdout);
    _exit(3);
}

void* __real_malloc(size_t);
void __real_free(void*);
time_t __real_time(time_t*);

/* ---------- hex ---------- */
static void puthex(const void* p, size_t n) {
    const unsigned char* b = p;
    if (n == 0) { putchar('-'); return; }
    for (size_t i = 0; i < n; ++i) printf("%02x", b[i]);
}
static int nib(int c) {
    if (c >= '0' && c <= '9') return c - '0';
    if (c >= 'a' && c <= 'f') return c - 'a' + 10;
    if (c >= 'A' && c <= 'F') return c - 'A' + 10;
    return -1;
}
/* decode hex token into buf; returns length; "-" = empty */
static size_t unhex(const char* s, unsigned char* buf, size_t cap) {
    if (s[0] == '-' && s[1] == 0) return 0;
    size_t n = 0;
    while (s[0] && s[1]) {
        int a = nib(s[0]), b = nib(s[1]);
        if (a < 0 || b < 0) die("bad hex");
        if (n >= cap) die("hex too long");
        buf[n++] = (unsigned char)(a * 16 + b);
        s += 2;
    }
    return n;
}

/* ---------- guarded memory ---------- */
/* returns pointer to `n` bytes that END flush against a PROT_NONE page */
typedef struct guard { unsigned char* base; size_t pages; unsigned char* ptr; } guard;
static guard galloc(size_t n, int fill) {
    guard g;
    g.pages = (n + PAGE - 1) / PAGE + 1;
    if (g.pages < 2) g.pages = 2;
    g.base = mmap(NULL, g.pages * PAGE, PROT_READ | PROT_WRITE, MAP_PRIVATE | MAP_ANONYMOUS, -1, 0);
    if (g.base == MAP_FAILED) die("mmap");
    memset(g.base, fill, (g.pages - 1) * PAGE);
    if (mprotect(g.base + (g.pages - 1) * PAGE, PAGE, PROT_NONE)) die("mprotect");
    g.ptr = g.base + (g.pages - 1) * PAGE - n;
    return g;
}
static void gfree(guard g) { munmap(g.base, g.pages * PAGE); }

/* ---------- the ledger allocator ---------- */
typedef struct block { void* ptr; size_t size; guard g; bool live; } block;
static block* g_blocks; /* index = id */
static int g_nblocks = 0;
static int g_fail_in = -1; /* fail the k-th next allocation (0 = next) */
static bool g_in_lib = false;
static char* g_stack_top;

static int block_of(const void* p) {
    for (int i = g_nblocks; i >= 1; --i)
        if (g_blocks[i].live && g_blocks[i].ptr == p) return i;
    return 0;
}
static int block_containing(const void* p) {
    for (int i = g_nblocks; i >= 1; --i)
        if (g_blocks[i].live && (const char*)p >= (const char*)g_blocks[i].ptr &&
            (const char*)p < (const char*)g_blocks[i].ptr + g_blocks[i].size) return i;
    return 0;
}

/* `!reuse 1`: freed blocks are handed out again, most recently freed first (as malloc does), and the caller's seed variable
 * keeps the address of the seed it last held (as a real caller's variable does) - code that compares addresses with stale
 * pointers is only exercised this way.  Default: every block gets a fresh mapping and is unmapped when freed. */
static bool g_reuse = false;
static guard g_free_g[64]; static size_t g_free_sz[64]; static int g_nfree = 0;

static void* ledger_alloc(int fid, size_t n) {
    if (g_fail_in == 0) {
        g_fail_in = -1;
        printf("E alloc f=%d size=%zu ret=null\n", fid, n);
        return NULL;
    }
    if (g_fail_in > 0) g_fail_in--;
    if (g_nblocks + 1 >= MAXBLOCKS) die("too many blocks");
    int id = ++g_nblocks;
    block* b = &g_blocks[id];
    size_t rounded = (n + 15) & ~(size_t)15;
    int hit = -1;
    if (g_reuse) for (int i = g_nfree - 1; i >= 0; --i) if (g_free_sz[i] == rounded) { hit = i; break; }
    if (hit >= 0) {
        b->g = g_free_g[hit];
        for (int i = hit; i + 1 < g_nfree; ++i) { g_free_g[i] = g_free_g[i + 1]; g_free_sz[i] = g_free_sz[i + 1]; }
        g_nfree--;
        memset(b->g.ptr, 0xA5, rounded);
    }
    else b->g = galloc(rounded, 0xA5);
    b->ptr = b->g.ptr;
    b->size = n;
    b->live = true;
    printf("E alloc f=%d size=%zu ret=b%d\n", fid, n, id);
    return b->ptr;
}
static void ledger_free(int fid, void* p) {
    int id = block_of(p);
    if (id == 0) {
        int c = block_containing(p);
        printf("E free f=%d foreign ptr-in-block=b%d\n", fid, c);
        if (p == NULL) printf("! free(NULL) reached the injected free\n");
        return;
    }
    block* b = &g_blocks[id];
    bool zeroed = true;
    for (size_t i = 0; i < b->size; ++i) if (((unsigned char*)b->ptr)[i]) zeroed = false;
    printf("E free f=%d b%d zeroed=%d\n", fid, id, zeroed ? 1 : 0);
    b->live = false;
    if (g_reuse && g_nfree < 64) { g_free_g[g_nfree] = b->g; g_free_sz[g_nfree] = (b->size + 15) & ~(size_t)15; g_nfree++; }
    else gfree(b->g);
}

/* ---------- scripted oracles ---------- */
#define QCAP 64
static unsigned char g_randq[QCAP][64]; static int g_randq_n = 0, g_randq_h = 0;
static uint64_t g_timeq[QCAP]; static int g_timeq_n = 0, g_timeq_h = 0;
static uint64_t g_prng = 0x9E3779B97F4A7C15ull;
static uint64_t g_kdfkey = 1;
static bool g_kdf_nowrite = false;   /* keygen with a key size no buffer can have: record the arguments, write nothing */
static uint64_t splitmix(uint64_t* s) {
    uint64_t z = (*s += 0x9E3779B97F4A7C15ull);
    z = (z ^ (z >> 30)) * 0xBF58476D1CE4E5B9ull;
    z = (z ^ (z >> 27)) * 0x94D049BB133111EBull;
    return z ^ (z >> 31);
}

static void stub_rand(int fid, void* result, size_t n) {
    unsigned char* out = result;
    if (g_randq_h < g_randq_n) {
        memcpy(out, g_randq[g_randq_h % QCAP], n < 64 ? n : 64);
        g_randq_h++;
    } else {
        for (size_t i = 0; i < n; ++i) out[i] = (unsigned char)splitmix(&g_prng);
    }
    printf("E rand f=%d n=%zu out=", fid, n); puthex(out, n); printf("\n");
}
static uint64_t stub_time(int fid) {
    uint64_t t;
    if (g_timeq_h < g_timeq_n) t = g_timeq[g_timeq_h++ % QCAP];
    else t = 1635768000ull + splitmix(&g_prng) % (1024ull * 2629746ull);
    printf("E time f=%d t=%llu\n", fid, (unsigned long long)t);
    return t;
}
/* deterministic PRF standing in for PBKDF2: a pure function of all inputs and g_kdfkey */
static void stub_kdf(int fid, const uint8_t* pw, size_t pwlen, const uint8_t* salt, size_t saltlen,
    uint64_t iterations, uint8_t* key, size_t keylen) {
    uint64_t h = 0xcbf29ce484222325ull ^ g_kdfkey;
    for (size_t i = 0; i < pwlen; ++i) { h ^= pw[i]; h *= 0x100000001b3ull; }
    h ^= 0xff; h *= 0x100000001b3ull;
    for (size_t i = 0; i < saltlen; ++i) { h ^= salt[i]; h *= 0x100000001b3ull; }
    h ^= iterations; h *= 0x100000001b3ull;
    h ^= keylen; h *= 0x100000001b3ull;
    uint64_t s = h;
    printf("E kdf f=%d pw=", fid); puthex(pw, pwlen);
    printf(" salt="); puthex(salt, saltlen);
    printf(" iters=%llu keylen=%zu out=", (unsigned long long)iterations, keylen);
    if (g_kdf_nowrite) { printf("-\n"); return; }
    for (size_t i = 0; i < keylen; ++i) key[i] = (uint8_t)splitmix(&s);
    puthex(key, keylen); printf("\n");
}
static void stub_memzero(int fid, void* const ptr, const size_t len) {
    char here;
    int b = block_containing(ptr);
    if (b && ptr == g_blocks[b].ptr) printf("E zero f=%d b%d len=%zu\n", fid, b, len);
    else if (b) printf("E zero f=%d inside-b%d len=%zu\n", fid, b, len);
    else if ((char*)ptr > &here && (char*)ptr < g_stack_top) printf("E zero f=%d stack len=%zu\n", fid, len);
    else printf("E zero f=%d other len=%zu\n", fid, len);
    volatile unsigned char* p = ptr;
    for (size_t i = 0; i < len; ++i) p[i] = 0;
}
static size_t stub_norm(int fid, const char* kind, bool compose, const char* str, polyseed_str norm) {
    utf8proc_uint8_t* res = compose ? utf8proc_NFC((const utf8proc_uint8_t*)str)
                                    : utf8proc_NFKD((const utf8proc_uint8_t*)str);
    const char* src = res ? (const char*)res : str; /* invalid UTF-8: identity */
    size_t n = strlen(src);
    if (n > POLYSEED_STR_SIZE - 1) n = POLYSEED_STR_SIZE - 1;
    memcpy(norm, src, n);
    norm[n] = 0;
    printf("E %s f=%d in=", kind, fid); puthex(str, strlen(str));
    printf(" out="); puthex(norm, n); printf("\n");
    if (res) __real_free(res);
    return n;
}

#define STUBSET(S, base) \
    static void S##_rand(void* r, size_t n) { stub_rand(base + 1, r, n); } \
    static void S##_kdf(const uint8_t* pw, size_t pwlen, const uint8_t* salt, size_t saltlen, uint64_t it, \
        uint8_t* key, size_t keylen) { stub_kdf(base + 2, pw, pwlen, salt, saltlen, it, key, keylen); } \
    static void S##_memzero(void* const p, const size_t n) { stub_memzero(base + 3, p, n); } \
    static size_t S##_nfc(const char* s, polyseed_str o) { return stub_norm(base + 4, "nfc", true, s, o); } \
    static size_t S##_nfkd(const char* s, polyseed_str o) { return stub_norm(base + 5, "nfkd", false, s, o); } \
    static uint64_t S##_time(void) { return stub_time(base + 6); } \
    static void* S##_alloc(size_t n) { return ledger_alloc(base + 7, n); } \
    static void S##_free(void* p) { ledger_free(base + 8, p); }
STUBSET(A, 10)
STUBSET(B, 20)

/* libc fall-backs, interposed with -Wl,--wrap */
void* __wrap_malloc(size_t n) {
    if (g_in_lib) return ledger_alloc(1002, n);
    return __real_malloc(n);
}
void __wrap_free(void* p) {
    if (g_in_lib) { ledger_free(1003, p); return; }
    __real_free(p);
}
time_t __wrap_time(time_t* t) {
    if (g_in_lib) { uint64_t v = stub_time(1001); if (t) *t = (time_t)v; return (time_t)v; }
    return __real_time(t);
}

static void* pick(int id, int which) {
    if (id == 0) return NULL;
    int set = id / 10, k = id % 10;
    if (k != which || (set != 1 && set != 2)) die("bad dependency id");
    switch (which) {
    case 1: return set == 1 ? (void*)A_rand : (void*)B_rand;
    case 2: return set == 1 ? (void*)A_kdf : (void*)B_kdf;
    case 3: return set == 1 ? (void*)A_memzero : (void*)B_memzero;
    case 4: return set == 1 ? (void*)A_nfc : (void*)B_nfc;
    case 5: return set == 1 ? (void*)A_nfkd : (void*)B_nfkd;
    case 6: return set == 1 ? (void*)A_time : (void*)B_time;
    case 7: return set == 1 ? (void*)A_alloc : (void*)B_alloc;
    case 8: return set == 1 ? (void*)A_free : (void*)B_free;
    }
    return NULL;
}

/* ---------- seeds ---------- */
static polyseed_data* g_slot[NSLOTS];
static polyseed_data* g_stale[NSLOTS];   /* what the caller's variable of this slot last held (reuse mode) */
#define SEED_VAR_INIT(k) ((g_reuse && g_stale[k]) ? g_stale[k] : (polyseed_data*)(uintptr_t)0x5EED)

static int seed_id(polyseed_data* s) { return block_of(s); }

static void print_seed_ref(polyseed_data* s) {
    if (s == NULL) printf("-"); else printf("b%d", seed_id(s));
}

static void lib_free_slot(int k) {
    if (g_slot[k] == NULL) return;
    printf("> free b%d\n", seed_id(g_slot[k]));
    g_in_lib = true; polyseed_free(g_slot[k]); g_in_lib = false;
    g_slot[k] = NULL;
    printf("< ok\n");
}

static polyseed_lang g_synth;

static int lang_index(const polyseed_lang* l) {
    for (int i = 0; i < polyseed_get_num_langs(); ++i) if (polyseed_get_lang(i) == l) return i;
    return -1;
}

/* copy a string so that its terminator is the last readable byte */
static guard gstr(const unsigned char* s, size_t n) {
    guard g = galloc(n + 1, 0x5A);
    memcpy(g.ptr, s, n);
    g.ptr[n] = 0;
    return g;
}

static char line[MAXLINE];
static unsigned char hbuf[MAXLINE];
static char* tok[64];

static const char* arg_(int i, int nt) { if (i >= nt) die("missing arg"); return tok[i]; }

/* ---- watched library statics (C20/C13): regions named by `!watch <addr> <size> <name>` (resolved by the caller with nm on
 * this very binary, which is linked -no-pie); snapshot before every op, compared after it.  An op other than
 * inject/features that changes one is reported as a complaint; which regions the two configuration ops change is
 * reported as `# config-write`. ---- */
#define MAXWATCH 64
static struct { unsigned char* p; size_t n; char name[64]; unsigned char* snap; int cfg_written; } g_watch[MAXWATCH];
static int g_nwatch;
static void watch_snapshot(void) {
    for (int i = 0; i < g_nwatch; ++i) memcpy(g_watch[i].snap, g_watch[i].p, g_watch[i].n);
}
static void watch_compare(const char* op) {
    int cfg = !strcmp(op, "inject") || !strcmp(op, "features");
    for (int i = 0; i < g_nwatch; ++i) {
        if (memcmp(g_watch[i].snap, g_watch[i].p, g_watch[i].n) == 0) continue;
        if (cfg) { if (!g_watch[i].cfg_written) { g_watch[i].cfg_written = 1; printf("# config-write %s by=%s\n", g_watch[i].name, op); } }
        else {
            size_t k = 0; while (k < g_watch[i].n && g_watch[i].snap[k] == g_watch[i].p[k]) k++;
            printf("! global-write name=%s offset=%zu op=%s\n", g_watch[i].name, k, op);
        }
    }
}

int main(int argc, char** argv) {
    char top;
    g_stack_top = &top + 4096;
    static char obuf[1 << 16];
    setvbuf(stdout, obuf, _IOLBF, sizeof obuf);
    g_blocks = __real_malloc(sizeof(block) * MAXBLOCKS);
    memset(g_blocks, 0, sizeof(block) * MAXBLOCKS);
    printf("# cfg sgn=%d strsize=%d\n", ((char)-1 < 0) ? 1 : 0, (int)POLYSEED_STR_SIZE);

    while (fgets(line, sizeof line, stdin)) {
        size_t ll = strlen(line);
        while (ll && (line[ll - 1] == '\n' || line[ll - 1] == '\r')) line[--ll] = 0;
        if (ll == 0 || line[0] == '#') continue;
        int nt = 0;
        for (char* p = strtok(line, " "); p && nt < 64; p = strtok(NULL, " ")) tok[nt++] = p;
        const char* op = tok[0];
#define ARG(i) arg_((i), nt)
#define NUM(i) strtoull(ARG(i), NULL, 0)
#define SLOT(i) ((int)(NUM(i) % NSLOTS))

        /* ---- oracle scripting ---- */
        if (!strcmp(op, "!rand")) {
            unsigned char* q = g_randq[g_randq_n++ % QCAP];
            memset(q, 0, 64); unhex(ARG(1), q, 64);
            continue;
        }
        if (!strcmp(op, "!time")) { g_timeq[g_timeq_n++ % QCAP] = NUM(1); continue; }
        if (!strcmp(op, "!failalloc")) { g_fail_in = (int)NUM(1); continue; }
        if (!strcmp(op, "!kdfkey")) { g_kdfkey = NUM(1); continue; }
        if (!strcmp(op, "!prng")) { g_prng = NUM(1); continue; }
        if (!strcmp(op, "!reuse")) { g_reuse = NUM(1) != 0; continue; }
        if (!strcmp(op, "!watch")) {
            if (g_nwatch < MAXWATCH) {
                g_watch[g_nwatch].p = (unsigned char*)(uintptr_t)strtoull(ARG(1), NULL, 16);
                g_watch[g_nwatch].n = (size_t)NUM(2);
                snprintf(g_watch[g_nwatch].name, sizeof g_watch[0].name, "%s", ARG(3));
                g_watch[g_nwatch].snap = __real_malloc(g_watch[g_nwatch].n ? g_watch[g_nwatch].n : 1);
                printf("# watch %s %zu\n", g_watch[g_nwatch].name, g_watch[g_nwatch].n);
                g_nwatch++;
            }
            continue;
        }
        char opname[32]; snprintf(opname, sizeof opname, "%s", op);
        if (g_nwatch) watch_snapshot();

        /* ---- API ---- */
        if (!strcmp(op, "inject")) {
            int id[8];
            for (int i = 0; i < 8; ++i) id[i] = (int)NUM(1 + i);
            printf("> inject %d %d %d %d %d %d %d %d\n", id[0], id[1], id[2], id[3], id[4], id[5], id[6], id[7]);
            guard g = galloc(sizeof(polyseed_dependency), 0);
            polyseed_dependency* d = (polyseed_dependency*)g.ptr;
            d->randbytes = (polyseed_randbytes*)pick(id[0], 1);
            d->pbkdf2_sha256 = (polyseed_pbkdf2*)pick(id[1], 2);
            d->memzero = (polyseed_memzero*)pick(id[2], 3);
            d->u8_nfc = (polyseed_transform*)pick(id[3], 4);
            d->u8_nfkd = (polyseed_transform*)pick(id[4], 5);
            d->time = (polyseed_time*)pick(id[5], 6);
            d->alloc = (polyseed_malloc*)pick(id[6], 7);
            d->free = (polyseed_mfree*)pick(id[7], 8);
            g_in_lib = true; polyseed_inject(d); g_in_lib = false;
            /* the caller's struct goes away: the library must have copied it */
            memset(d, 0xEE, sizeof *d);
            gfree(g);
            printf("< ok\n");
        }
        else if (!strcmp(op, "features")) {
            unsigned m = (unsigned)NUM(1);
            printf("> features %u\n", m);
            g_in_lib = true; int n = polyseed_enable_features(m); g_in_lib = false;
            printf("< n=%d\n", n);
        }
        else if (!strcmp(op, "create")) {
            int k = SLOT(1); unsigned f = (unsigned)NUM(2);
            if (g_slot[k]) { printf("> skip\n"); continue; }
            printf("> create %u\n", f);
            polyseed_data* s = SEED_VAR_INIT(k);
            g_in_lib = true; polyseed_status st = polyseed_create(f, &s); g_in_lib = false;
            if (st == POLYSEED_OK) { g_slot[k] = s; g_stale[k] = s; }
            /* *seed_out is documented as undefined after an error: a value written there is not judged (a block left behind shows in the ledger) */
            printf("< st=%d seed=", (int)st); print_seed_ref(st == POLYSEED_OK ? s : NULL); printf("\n");
        }
        else if (!strcmp(op, "free")) {
            if (!strcmp(ARG(1), "null")) {
                printf("> free null\n");
                g_in_lib = true; polyseed_free(NULL); g_in_lib = false;
                printf("< ok\n");
            } else {
                int k = SLOT(1);
                if (g_slot[k]) lib_free_slot(k); else printf("> skip\n");
            }
        }
        else if (!strcmp(op, "birthday") || !strcmp(op, "isenc") || !strcmp(op, "store")) {
            int k = SLOT(1);
            if (!g_slot[k]) { printf("> skip\n"); continue; }
            printf("> %s b%d\n", op, seed_id(g_slot[k]));
            if (op[0] == 'b') {
                g_in_lib = true; uint64_t v = polyseed_get_birthday(g_slot[k]); g_in_lib = false;
                printf("< v=%llu\n", (unsigned long long)v);
            } else if (op[0] == 'i') {
                g_in_lib = true; int v = polyseed_is_encrypted(g_slot[k]); g_in_lib = false;
                printf("< v=%d\n", v);
            } else {
                guard g = galloc(POLYSEED_SIZE, 0x77);
                g_in_lib = true; polyseed_store(g_slot[k], g.ptr); g_in_lib = false;
                printf("< buf="); puthex(g.ptr, POLYSEED_SIZE); printf("\n");
                gfree(g);
            }
        }
        else if (!strcmp(op, "feature")) {
            int k = SLOT(1); unsigned m = (unsigned)NUM(2);
            if (!g_slot[k]) { printf("> skip\n"); continue; }
            printf("> feature b%d %u\n", seed_id(g_slot[k]), m);
            g_in_lib = true; unsigned v = polyseed_get_feature(g_slot[k], m); g_in_lib = false;
            printf("< v=%u\n", v);
        }
        else if (!strcmp(op, "encode")) {
            int k = SLOT(1); int li = (int)NUM(2); unsigned coin = (unsigned)NUM(3);
            if (!g_slot[k] || li < 0 || li >= polyseed_get_num_langs()) { printf("> skip\n"); continue; }
            printf("> encode b%d %d %u\n", seed_id(g_slot[k]), li, coin);
            guard g = galloc(POLYSEED_STR_SIZE, 0x77);
            polyseed_data before = *g_slot[k];
            g_in_lib = true;
            size_t n = polyseed_encode(g_slot[k], polyseed_get_lang(li), (polyseed_coin)coin, (char*)g.ptr);
            g_in_lib = false;
            if (memcmp(&before, g_slot[k], sizeof before)) printf("! encode modified the seed\n");
            size_t real = strnlen((char*)g.ptr, POLYSEED_STR_SIZE);
            printf("< size=%zu str=", n); puthex(g.ptr, real); printf("\n");
            gfree(g);
        }
        else if (!strcmp(op, "decode") || !strcmp(op, "decodex") || !strcmp(op, "decoden")) {
            bool ex = op[6] == 'x';
            bool nolang = op[6] == 'n';   /* lang_out = NULL (documented as optional) */
            int k = SLOT(1); unsigned coin = (unsigned)NUM(2);
            int li = ex ? (int)NUM(3) : -1;
            size_t n = unhex(ARG(ex ? 4 : 3), hbuf, sizeof hbuf);
            if (memchr(hbuf, 0, n)) die("NUL inside string");
            if (ex && (li < 0 || li >= polyseed_get_num_langs())) { printf("> skip\n"); continue; }
            if (g_slot[k]) { printf("> skip\n"); continue; }
            if (ex) printf("> decodex %u %d ", coin, li); else printf("> %s %u ", nolang ? "decoden" : "decode", coin);
            puthex(hbuf, n); printf("\n");
            guard g = gstr(hbuf, n);
            polyseed_data* s = SEED_VAR_INIT(k);
            const polyseed_lang* lo = (const polyseed_lang*)(uintptr_t)0x1A46;
            polyseed_status st;
            g_in_lib = true;
            if (ex) st = polyseed_decode_explicit((char*)g.ptr, (polyseed_coin)coin, polyseed_get_lang(li), &s);
            else st = polyseed_decode((char*)g.ptr, (polyseed_coin)coin, nolang ? NULL : &lo, &s);
            g_in_lib = false;
            if (memcmp(g.ptr, hbuf, n) || g.ptr[n] != 0) printf("! decode modified its input\n");
            if (st == POLYSEED_OK) { g_slot[k] = s; g_stale[k] = s; }
            /* *seed_out is documented as undefined after an error: a value written there is not judged (a block left behind shows in the ledger) */
            printf("< st=%d seed=", (int)st); print_seed_ref(st == POLYSEED_OK ? s : NULL);
            if (lo == (const polyseed_lang*)(uintptr_t)0x1A46) printf(" lang=-\n");
            else printf(" lang=%d\n", lang_index(lo));
            gfree(g);
        }
        else if (!strcmp(op, "keygen")) {
            int k = SLOT(1); unsigned coin = (unsigned)NUM(2); size_t n = (size_t)NUM(3);
            if (!g_slot[k]) { printf("> skip\n"); continue; }
            printf("> keygen b%d %u %zu\n", seed_id(g_slot[k]), coin, n);
            /* key sizes no buffer can have (2^32 and up): the length must still reach the KDF unaltered; the stub then records
             * its arguments and writes nothing */
            bool huge = n > 4096;
            guard g = galloc(huge ? 16 : (n ? n : 1), 0x77);
            polyseed_data before = *g_slot[k];
            g_kdf_nowrite = huge;
            g_in_lib = true; polyseed_keygen(g_slot[k], (polyseed_coin)coin, n, g.ptr + ((n && !huge) ? 0 : 1)); g_in_lib = false;
            g_kdf_nowrite = false;
            if (memcmp(&before, g_slot[k], sizeof before)) printf("! keygen modified the seed\n");
            printf("< key="); puthex(g.ptr, huge ? 0 : n); printf("\n");
            gfree(g);
        }
        else if (!strcmp(op, "load")) {
            int k = SLOT(1);
            size_t n = unhex(ARG(2), hbuf, sizeof hbuf);
            if (n != POLYSEED_SIZE) die("load needs 32 bytes");
            if (g_slot[k]) { printf("> skip\n"); continue; }
            printf("> load "); puthex(hbuf, n); printf("\n");
            guard g = galloc(POLYSEED_SIZE, 0);
            memcpy(g.ptr, hbuf, n);
            polyseed_data* s = SEED_VAR_INIT(k);
            g_in_lib = true; polyseed_status st = polyseed_load(g.ptr, &s); g_in_lib = false;
            if (memcmp(g.ptr, hbuf, n)) printf("! load modified its input\n");
            if (st == POLYSEED_OK) { g_slot[k] = s; g_stale[k] = s; }
            /* *seed_out is documented as undefined after an error: a value written there is not judged (a block left behind shows in the ledger) */
            printf("< st=%d seed=", (int)st); print_seed_ref(st == POLYSEED_OK ? s : NULL); printf("\n");
            gfree(g);
        }
        else if (!strcmp(op, "crypt")) {
            int k = SLOT(1);
            size_t n = unhex(ARG(2), hbuf, sizeof hbuf);
            if (memchr(hbuf, 0, n)) die("NUL inside string");
            if (!g_slot[k]) { printf("> skip\n"); continue; }
            printf("> crypt b%d ", seed_id(g_slot[k])); puthex(hbuf, n); printf("\n");
            guard g = gstr(hbuf, n);
            g_in_lib = true; polyseed_crypt(g_slot[k], (char*)g.ptr); g_in_lib = false;
            if (memcmp(g.ptr, hbuf, n) || g.ptr[n] != 0) printf("! crypt modified its input\n");
            printf("< ok\n");
            gfree(g);
        }
        else if (!strcmp(op, "norm")) {
            /* the stand-in normalisers themselves (utf8proc), for S-norm */
            bool c = !strcmp(ARG(1), "nfc");
            size_t n = unhex(ARG(2), hbuf, sizeof hbuf);
            if (memchr(hbuf, 0, n)) die("NUL inside string");
            hbuf[n] = 0;
            utf8proc_uint8_t* res = c ? utf8proc_NFC(hbuf) : utf8proc_NFKD(hbuf);
            printf("> norm %s ", c ? "nfc" : "nfkd"); puthex(hbuf, n);
            printf("\n< out="); if (res) puthex(res, strlen((char*)res)); else printf("invalid"); printf("\n");
            if (res) __real_free(res);
        }
        else if (!strcmp(op, "note")) {
            printf("> note\n< ok\n");
        }
        else if (!strcmp(op, "numlangs")) {
            printf("> numlangs\n< v=%d\n", polyseed_get_num_langs());
        }
        else if (!strcmp(op, "langname")) {
            int li = (int)NUM(1);
            if (li < 0 || li >= polyseed_get_num_langs()) { printf("> skip\n"); continue; }
            const polyseed_lang* l = polyseed_get_lang(li);
            printf("> langname %d\n< name=", li);
            const char* a = polyseed_get_lang_name(l); puthex(a, strlen(a));
            printf(" name_en="); a = polyseed_get_lang_name_en(l); puthex(a, strlen(a)); printf("\n");
        }
        else if (!strcmp(op, "word")) {
            int li = (int)NUM(1); int wi = (int)NUM(2);
            if (li < 0 || li >= polyseed_get_num_langs() || wi < 0 || wi >= POLYSEED_LANG_SIZE) { printf("> skip\n"); continue; }
            const polyseed_lang* l = polyseed_get_lang(li);
            printf("> word %d %d\n< w=", li, wi); puthex(l->words[wi], strlen(l->words[wi])); printf("\n");
        }
        else if (!strcmp(op, "dump")) {
            /* raw fields of a live seed, read through the internal struct definition */
            int k = SLOT(1);
            if (!g_slot[k]) { printf("> skip\n"); continue; }
            polyseed_data* s = g_slot[k];
            printf("> dump b%d\n< b=%u f=%u secret=", seed_id(s), s->birthday, s->features);
            puthex(s->secret, SECRET_BUFFER_SIZE); printf(" chk=%u\n", (unsigned)s->checksum);
        }
        /* ---- unit entry points (internal headers) ---- */
        else if (!strcmp(op, "mul2")) {
#ifndef DRV_NO_GF
            unsigned x = (unsigned)NUM(1);
            printf("> mul2 %u\n< v=%u\n", x, (unsigned)gf_elem_mul2(x));
#else
            printf("> skip\n"); continue;   /* this internal interface is not reachable in the current tree */
#endif
        }
        else if (!strcmp(op, "eval")) {
#ifndef DRV_NO_GF
            gf_poly p;
            printf("> eval");
            for (int i = 0; i < POLYSEED_NUM_WORDS; ++i) { p.coeff[i] = (gf_elem)NUM(1 + i); printf(" %u", (unsigned)p.coeff[i]); }
            printf("\n< v=%u check=%d\n", (unsigned)gf_poly_eval(&p), gf_poly_check(&p) ? 1 : 0);
#else
            printf("> skip\n"); continue;   /* this internal interface is not reachable in the current tree */
#endif
        }
        else if (!strcmp(op, "pack")) {
#ifndef DRV_NO_PACK
            polyseed_data d; gf_poly p;
            memset(&d, 0, sizeof d); memset(&p, 0xEE, sizeof p);
            d.birthday = (unsigned)NUM(1); d.features = (unsigned)NUM(2);
            size_t n = unhex(ARG(3), hbuf, sizeof hbuf);
            if (n != SECRET_BUFFER_SIZE) die("pack needs 32 secret bytes");
            memcpy(d.secret, hbuf, n);
            printf("> pack %u %u ", d.birthday, d.features); puthex(d.secret, n); printf("\n");
            polyseed_data_to_poly(&d, &p);
            printf("<");
            for (int i = 1; i < POLYSEED_NUM_WORDS; ++i) printf(" %u", (unsigned)p.coeff[i]);
            printf("\n");
#else
            printf("> skip\n"); continue;   /* this internal interface is not reachable in the current tree */
#endif
        }
        else if (!strcmp(op, "unpack")) {
#ifndef DRV_NO_PACK
            polyseed_data d; gf_poly p;
            memset(&d, 0xEE, sizeof d);
            printf("> unpack");
            for (int i = 0; i < POLYSEED_NUM_WORDS; ++i) { p.coeff[i] = (gf_elem)NUM(1 + i); printf(" %u", (unsigned)p.coeff[i]); }
            printf("\n");
            polyseed_poly_to_data(&p, &d);
            printf("< b=%u f=%u secret=", d.birthday, d.features); puthex(d.secret, SECRET_BUFFER_SIZE);
            printf(" chk=%u\n", (unsigned)d.checksum);
#else
            printf("> skip\n"); continue;   /* this internal interface is not reachable in the current tree */
#endif
        }
        else if (!strcmp(op, "dstore")) {
#ifndef DRV_NO_STORE
            polyseed_data d; memset(&d, 0, sizeof d);
            d.birthday = (unsigned)NUM(1); d.features = (unsigned)NUM(2);
            size_t n = unhex(ARG(3), hbuf, sizeof hbuf);
            if (n != SECRET_BUFFER_SIZE) die("dstore needs 32 secret bytes");
            memcpy(d.secret, hbuf, n);
            d.checksum = (gf_elem)NUM(4);
            printf("> dstore %u %u ", d.birthday, d.features); puthex(d.secret, n); printf(" %u\n", (unsigned)d.checksum);
            guard g = galloc(POLYSEED_SIZE, 0x77);
            polyseed_data_store(&d, g.ptr);
            printf("< buf="); puthex(g.ptr, POLYSEED_SIZE); printf("\n");
            gfree(g);
#else
            printf("> skip\n"); continue;   /* this internal interface is not reachable in the current tree */
#endif
        }
        else if (!strcmp(op, "dload")) {
#ifndef DRV_NO_STORE
            size_t n = unhex(ARG(1), hbuf, sizeof hbuf);
            if (n != POLYSEED_SIZE) die("dload needs 32 bytes");
            printf("> dload "); puthex(hbuf, n); printf("\n");
            guard g = galloc(POLYSEED_SIZE, 0); memcpy(g.ptr, hbuf, n);
            polyseed_data d; memset(&d, 0xEE, sizeof d);
            polyseed_status st = polyseed_data_load(g.ptr, &d);
            if (st == POLYSEED_OK) {
                printf("< st=0 b=%u f=%u secret=", d.birthday, d.features); puthex(d.secret, SECRET_BUFFER_SIZE);
                printf(" chk=%u\n", (unsigned)d.checksum);
            } else printf("< st=%d\n", (int)st);
            gfree(g);
#else
            printf("> skip\n"); continue;   /* this internal interface is not reachable in the current tree */
#endif
        }
        else if (!strcmp(op, "bdayenc")) {
#ifndef DRV_NO_BDAY
            uint64_t t = NUM(1);
            printf("> bdayenc %llu\n< v=%u\n", (unsigned long long)t, birthday_encode(t));
#else
            printf("> skip\n"); continue;   /* this internal interface is not reachable in the current tree */
#endif
        }
        else if (!strcmp(op, "bdaydec")) {
#ifndef DRV_NO_BDAY
            unsigned b = (unsigned)NUM(1);
            printf("> bdaydec %u\n< v=%llu\n", b, (unsigned long long)birthday_decode(b));
#else
            printf("> skip\n"); continue;   /* this internal interface is not reachable in the current tree */
#endif
        }
        else if (!strcmp(op, "supported")) {
#ifndef DRV_NO_FEAT
            unsigned f = (unsigned)NUM(1);
            printf("> supported %u\n< v=%d\n", f, polyseed_features_supported(f) ? 1 : 0);
#else
            printf("> skip\n"); continue;   /* this internal interface is not reachable in the current tree */
#endif
        }
        else if (!strcmp(op, "find") || !strcmp(op, "findx")) {
#ifndef DRV_NO_LANG
            bool x = op[4] == 'x';
            int li = (int)NUM(1);
            int flags = x ? (int)NUM(2) : -1;
            size_t n = unhex(ARG(x ? 3 : 2), hbuf, sizeof hbuf);
            if (memchr(hbuf, 0, n)) die("NUL inside string");
            if (li < 0 || li >= polyseed_get_num_langs()) { printf("> skip\n"); continue; }
            const polyseed_lang* l = polyseed_get_lang(li);
            if (x) {
                g_synth = *l;
                g_synth.is_sorted = (flags >> 3) & 1; g_synth.has_prefix = (flags >> 2) & 1;
                g_synth.has_accents = (flags >> 1) & 1; g_synth.compose = flags & 1;
                l = &g_synth;
                printf("> findx %d %d ", li, flags);
            } else printf("> find %d ", li);
            puthex(hbuf, n); printf("\n");
            guard g = gstr(hbuf, n);
            int v = polyseed_lang_find_word(l, (char*)g.ptr);
            printf("< v=%d\n", v);
            gfree(g);
#else
            printf("> skip\n"); continue;   /* this internal interface is not reachable in the current tree */
#endif
        }
        else if (!strcmp(op, "pdecode") || !strcmp(op, "pdecodex")) {
#ifndef DRV_NO_LANG
            bool x = op[7] == 'x';
            int li = x ? (int)NUM(1) : -1;
            int a0 = x ? 2 : 1;
            if (nt - a0 != POLYSEED_NUM_WORDS) die("pdecode needs 16 tokens");
            if (x && (li < 0 || li >= polyseed_get_num_langs())) { printf("> skip\n"); continue; }
            guard gs[POLYSEED_NUM_WORDS]; polyseed_phrase ph;
            if (x) printf("> pdecodex %d", li); else printf("> pdecode");
            for (int i = 0; i < POLYSEED_NUM_WORDS; ++i) {
                size_t n = unhex(tok[a0 + i], hbuf, sizeof hbuf);
                if (memchr(hbuf, 0, n)) die("NUL inside string");
                gs[i] = gstr(hbuf, n); ph[i] = (char*)gs[i].ptr;
                printf(" "); puthex(hbuf, n);
            }
            printf("\n");
            /* the element type of gf_poly.coeff: what polyseed.c itself passes as idx_out */
            gf_elem idx[POLYSEED_NUM_WORDS];
            for (int i = 0; i < POLYSEED_NUM_WORDS; ++i) idx[i] = 9999;
            const polyseed_lang* lo = (const polyseed_lang*)(uintptr_t)0x1A46;
            polyseed_status st = x ? polyseed_phrase_decode_explicit(ph, polyseed_get_lang(li), idx)
                                   : polyseed_phrase_decode(ph, idx, &lo);
            printf("< st=%d", (int)st);
            if (!x) { if (lo == (const polyseed_lang*)(uintptr_t)0x1A46) printf(" lang=-"); else printf(" lang=%d", lang_index(lo)); }
            if (st == POLYSEED_OK) { printf(" idx="); for (int i = 0; i < POLYSEED_NUM_WORDS; ++i) printf("%s%u", i ? "," : "", (unsigned)idx[i]); }
            printf("\n");
            for (int i = 0; i < POLYSEED_NUM_WORDS; ++i) gfree(gs[i]);
#else
            printf("> skip\n"); continue;   /* this internal interface is not reachable in the current tree */
#endif
        }
        else die("unknown op");
        if (g_nwatch) watch_compare(opname);
    }
    /* final ledger */
    int live = 0;
    for (int i = 1; i <= g_nblocks; ++i) if (g_blocks[i].live) live++;
    int held = 0;
    for (int k = 0; k < NSLOTS; ++k) if (g_slot[k]) held++;
    printf("# end blocks=%d live=%d held=%d\n", g_nblocks, live, held);
    return 0;
}
