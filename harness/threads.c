/* S-tsan: N threads work concurrently on their OWN seed objects after injection and feature
 * configuration are done; built with -fsanitize=thread.  Every thread runs a deterministic
 * script (create from its own scripted randomness, encode in every language, decode, store,
 * load, crypt twice, keygen, free) and folds every observable result into a digest; the same
 * scripts are first run serially.  Reported: per-thread digests of the serial and of the
 * concurrent run (they must be equal) — data races are reported by ThreadSanitizer itself.
 * The dependency stubs are thread-safe by construction (thread-local state only) and yield
 * (sched_yield) inside every call to shake the schedule.
 *
 * Build: cc -O1 -g -fsanitize=thread -DNDEBUG -DPOLYSEED_STATIC -I/repo/include -iquote /repo/src threads.c /repo/src/<all>.c -lpthread -lutf8proc
 */
#define _GNU_SOURCE
#include "polyseed.h"
#include <pthread.h>
#include <sched.h>
#include <time.h>
#include <stdio.h>
#include <stdlib.h>
#include <string.h>
#include <stdint.h>
#include <utf8proc.h>

#define MAXT 64
static __thread uint64_t t_prng;
static __thread uint64_t t_digest;
static __thread int t_yield;
static __thread uint64_t t_yprng;

static uint64_t splitmix(uint64_t* s) {
    uint64_t z = (*s += 0x9E3779B97F4A7C15ull);
    z = (z ^ (z >> 30)) * 0xBF58476D1CE4E5B9ull;
    z = (z ^ (z >> 27)) * 0x94D049BB133111EBull;
    return z ^ (z >> 31);
}
static void fold(const void* p, size_t n) {
    const unsigned char* b = p;
    for (size_t i = 0; i < n; ++i) { t_digest ^= b[i]; t_digest *= 0x100000001b3ull; }
}
static void maybe_yield(void) { if (t_yield && (splitmix(&t_yprng) & 3) == 0) sched_yield(); }

static void dep_rand(void* r, size_t n) { unsigned char* o = r; for (size_t i = 0; i < n; ++i) o[i] = (unsigned char)splitmix(&t_prng); maybe_yield(); }
/* C04: the KDF inputs must stay what they were for as long as the KDF runs: password and salt are copied on entry and
 * compared again after the thread has yielded a few times (a static buffer shared by concurrent calls would change) */
static int g_kdf_unstable;
static int g_wrongcoin_conc, g_wrongcoin_serial;
static void dep_kdf(const uint8_t* pw, size_t pwlen, const uint8_t* salt, size_t saltlen, uint64_t it, uint8_t* key, size_t keylen) {
    if (t_yield && pwlen <= 1024 && saltlen <= 64) {
        uint8_t pw0[1024], salt0[64];
        memcpy(pw0, pw, pwlen); memcpy(salt0, salt, saltlen);
        { struct timespec ts = { 0, 300000 }; nanosleep(&ts, NULL); }   /* long enough for another thread to come by */
        if (memcmp(pw0, pw, pwlen) != 0 || memcmp(salt0, salt, saltlen) != 0) __atomic_add_fetch(&g_kdf_unstable, 1, __ATOMIC_RELAXED);
    }
    uint64_t h = 0xcbf29ce484222325ull;
    for (size_t i = 0; i < pwlen; ++i) { h ^= pw[i]; h *= 0x100000001b3ull; }
    for (size_t i = 0; i < saltlen; ++i) { h ^= salt[i]; h *= 0x100000001b3ull; }
    h ^= it; h *= 0x100000001b3ull;
    uint64_t s = h;
    for (size_t i = 0; i < keylen; ++i) key[i] = (uint8_t)splitmix(&s);
    maybe_yield();
}
static void dep_memzero(void* const p, const size_t n) { volatile unsigned char* q = p; for (size_t i = 0; i < n; ++i) q[i] = 0; maybe_yield(); }
static size_t norm(int compose, const char* s, polyseed_str o) {
    utf8proc_uint8_t* r = compose ? utf8proc_NFC((const utf8proc_uint8_t*)s) : utf8proc_NFKD((const utf8proc_uint8_t*)s);
    const char* src = r ? (const char*)r : s;
    size_t n = strlen(src);
    if (n > POLYSEED_STR_SIZE - 1) n = POLYSEED_STR_SIZE - 1;
    if (t_yield) { struct timespec ts = { 0, 100000 }; nanosleep(&ts, NULL); }   /* let the other threads reach this point too */
    memcpy(o, src, n); o[n] = 0;
    if (r) free(r);
    maybe_yield();
    return n;
}
static size_t dep_nfc(const char* s, polyseed_str o) { return norm(1, s, o); }
static size_t dep_nfkd(const char* s, polyseed_str o) { return norm(0, s, o); }
static uint64_t dep_time(void) { maybe_yield(); return 1700000000ull + (splitmix(&t_prng) % 100000000ull); }
static void* dep_alloc(size_t n) { maybe_yield(); return malloc(n); }
static void dep_free(void* p) { maybe_yield(); free(p); }

static int g_iters = 20;

static uint64_t run_script(int id, int yield) {
    t_prng = 0x1234567ull * (uint64_t)(id + 1);
    t_digest = 0xcbf29ce484222325ull;
    t_yield = yield;
    t_yprng = 0x9999ull * (uint64_t)(id + 7);
    int nl = polyseed_get_num_langs();
    for (int it = 0; it < g_iters; ++it) {
        polyseed_data* s = NULL;
        polyseed_status st = polyseed_create((unsigned)(it & 1), &s);
        fold(&st, sizeof st);
        if (st != POLYSEED_OK) continue;
        polyseed_storage buf;
        polyseed_store(s, buf); fold(buf, sizeof buf);
        uint64_t b = polyseed_get_birthday(s); fold(&b, sizeof b);
        for (int li = 0; li < nl; ++li) {
            polyseed_str str;
            polyseed_coin coin = (polyseed_coin)((it * 7 + li) % 2048);
            size_t n = polyseed_encode(s, polyseed_get_lang(li), coin, str);
            fold(str, n);
            polyseed_data* d = NULL; const polyseed_lang* lo = NULL;
            st = polyseed_decode_explicit(str, coin, polyseed_get_lang(li), &d); fold(&st, sizeof st);
            if (st == POLYSEED_OK) { polyseed_storage b2; polyseed_store(d, b2); fold(b2, sizeof b2); polyseed_free(d); }
            d = NULL;
            st = polyseed_decode(str, coin, &lo, &d); fold(&st, sizeof st);
            if (st == POLYSEED_OK) { polyseed_free(d); }
            d = NULL;
            st = polyseed_decode(str, coin, NULL, &d); fold(&st, sizeof st);   /* lang_out is optional */
            if (st == POLYSEED_OK) { polyseed_free(d); }
            /* C05: the phrase is bound to its coin, also while other threads decode their own phrases */
            for (int a = 0; a < 2; ++a) {
                d = NULL;
                polyseed_coin wrong = (polyseed_coin)((coin + 1 + 977 * a) % 2048);
                st = a ? polyseed_decode(str, wrong, &lo, &d) : polyseed_decode_explicit(str, wrong, polyseed_get_lang(li), &d);
                fold(&st, sizeof st);
                if (st != POLYSEED_ERR_CHECKSUM && st != POLYSEED_ERR_MULT_LANG) __atomic_add_fetch(t_yield ? &g_wrongcoin_conc : &g_wrongcoin_serial, 1, __ATOMIC_RELAXED);
                if (st == POLYSEED_OK) { polyseed_free(d); }
            }
        }
        polyseed_data* l = NULL;
        st = polyseed_load(buf, &l); fold(&st, sizeof st);
        if (st == POLYSEED_OK) {
            polyseed_crypt(l, "p\xc3\xa4ssw\xc3\xb6rd");
            polyseed_storage b3; polyseed_store(l, b3); fold(b3, sizeof b3);
            int e = polyseed_is_encrypted(l); fold(&e, sizeof e);
            polyseed_crypt(l, "pa\xcc\x88sswo\xcc\x88rd");
            polyseed_store(l, b3); fold(b3, sizeof b3);
            uint8_t key[32]; polyseed_keygen(l, POLYSEED_MONERO, 32, key); fold(key, 32);
            unsigned f = polyseed_get_feature(l, 7); fold(&f, sizeof f);
            polyseed_free(l);
        }
        polyseed_free(s);
    }
    return t_digest;
}

static uint64_t g_serial[MAXT], g_conc[MAXT];
static pthread_barrier_t g_bar;
static void* worker(void* arg) {
    int id = (int)(intptr_t)arg;
    pthread_barrier_wait(&g_bar);
    g_conc[id] = run_script(id, 1);
    return NULL;
}

int main(int argc, char** argv) {
    int nt = argc > 1 ? atoi(argv[1]) : 8;
    if (argc > 2) g_iters = atoi(argv[2]);
    if (nt > MAXT) nt = MAXT;
    polyseed_dependency deps = { dep_rand, dep_kdf, dep_memzero, dep_nfc, dep_nfkd, dep_time, dep_alloc, dep_free };
    polyseed_inject(&deps);
    polyseed_enable_features(1);
    for (int i = 0; i < nt; ++i) g_serial[i] = run_script(i, 0);
    pthread_t th[MAXT];
    pthread_barrier_init(&g_bar, NULL, (unsigned)nt);
    for (int i = 0; i < nt; ++i) pthread_create(&th[i], NULL, worker, (void*)(intptr_t)i);
    for (int i = 0; i < nt; ++i) pthread_join(th[i], NULL);
    int bad = 0;
    for (int i = 0; i < nt; ++i) {
        printf("THREAD %d serial=%016llx concurrent=%016llx %s\n", i, (unsigned long long)g_serial[i], (unsigned long long)g_conc[i],
               g_serial[i] == g_conc[i] ? "same" : "DIFFERENT");
        if (g_serial[i] != g_conc[i]) bad++;
    }
    printf("KDF-UNSTABLE %d\n", g_kdf_unstable);
    printf("WRONG-COIN-NOT-CHECKSUM serial=%d concurrent=%d\n", g_wrongcoin_serial, g_wrongcoin_conc);
    printf("DONE threads=%d iters=%d different=%d\n", nt, g_iters, bad);
    return 0;
}
