/* Supporting evidence for the tie (never a substitute for a theorem): CBMC proves, for ALL inputs of the fixed-size
 * arithmetic functions, that the repository's C code equals an independently written closed form (the same closed
 * forms the Lean development proves the model equal to: Lemmas/Pack.lean, Lemmas/Storage.lean, Props/C11.lean).
 *
 *   goto-cc -DNDEBUG -DPOLYSEED_STATIC -I/repo/include -iquote /repo/src cbmc_ref.c /repo/src/gf.c /repo/src/storage.c -o ref.gb
 *   cbmc ref.gb --function check_<name> --unwind 40 --unwinding-assertions
 */
#include "polyseed.h"
#include "gf.h"
#include "storage.h"
#include "birthday.h"
#include "features.h"
#include <string.h>

unsigned nondet_uint(void);
unsigned char nondet_uchar(void);
unsigned long long nondet_ull(void);

/* ---- closed forms ---- */
static unsigned ref_mul2(unsigned x) {           /* multiplication by x mod x^11 + x^2 + 1 */
    unsigned r = x << 1;
    if (r & 2048) r ^= 2048 | 5;
    return r;
}
static unsigned secret_bit(const uint8_t* s, unsigned k) {   /* bit k (0 = most significant) of the 150-bit secret */
    if (k < 144) return (s[k / 8] >> (7 - k % 8)) & 1;
    return (s[18] >> (5 - (k - 144))) & 1;
}
static unsigned ref_coeff(const uint8_t* s, unsigned extra, unsigned i) {   /* data word i: 10 secret bits + 1 extra bit */
    unsigned v = 0;
    for (unsigned j = 0; j < 10; ++j) v = (v << 1) | secret_bit(s, 10 * i + j);
    return (v << 1) | ((extra >> (14 - i)) & 1);
}

void check_mul2(void) {
    unsigned x = nondet_uint();
    __CPROVER_assume(x < 2048);
    __CPROVER_assert(gf_elem_mul2(x) == ref_mul2(x), "mul2 = multiplication by x in GF(2048)");
}

void check_eval(void) {
    gf_poly p;
    for (int i = 0; i < 16; ++i) { unsigned c = nondet_uint(); __CPROVER_assume(c < 2048); p.coeff[i] = c; }
    unsigned r = 0;
    for (int i = 15; i >= 0; --i) r = ref_mul2(r) ^ (unsigned)p.coeff[i];
    __CPROVER_assert(gf_poly_eval(&p) == r, "eval = Horner with the field multiplication");
}

void check_pack(void) {
    polyseed_data d; gf_poly p;
    memset(&d, 0, sizeof d);
    for (int i = 0; i < 19; ++i) d.secret[i] = nondet_uchar();
    d.birthday = nondet_uint(); d.features = nondet_uint();
    __CPROVER_assume(d.birthday < 1024 && d.features < 32);
    for (int i = 0; i < 16; ++i) p.coeff[i] = 0;
    polyseed_data_to_poly(&d, &p);
    unsigned extra = (d.features << 10) | d.birthday;
    for (unsigned i = 0; i < 15; ++i)
        __CPROVER_assert(p.coeff[1 + i] == ref_coeff(d.secret, extra, i), "data_to_poly = published layout");
}

void check_unpack(void) {
    gf_poly p; polyseed_data d;
    for (int i = 0; i < 16; ++i) { unsigned c = nondet_uint(); __CPROVER_assume(c < 2048); p.coeff[i] = c; }
    for (unsigned i = 0; i < sizeof d; ++i) ((unsigned char*)&d)[i] = nondet_uchar();     /* junk in the fresh block */
    polyseed_poly_to_data(&p, &d);
    unsigned extra = 0;
    for (int i = 1; i < 16; ++i) extra = (extra << 1) | ((unsigned)p.coeff[i] & 1);
    __CPROVER_assert(d.birthday == (extra & 1023) && d.features == (extra >> 10), "extra bits");
    __CPROVER_assert(d.checksum == p.coeff[0], "checksum");
    for (unsigned k = 0; k < 150; ++k) {
        unsigned i = k / 10, j = k % 10;
        unsigned bit = ((unsigned)p.coeff[1 + i] >> (10 - j)) & 1;
        __CPROVER_assert(secret_bit(d.secret, k) == bit, "secret bit");
    }
    __CPROVER_assert((d.secret[18] & 0xC0) == 0, "top bits clear");
    for (int i = 19; i < 32; ++i) __CPROVER_assert(d.secret[i] == 0, "padding zero");
}

void check_store_load(void) {
    polyseed_storage buf; polyseed_data d, e;
    for (int i = 0; i < 32; ++i) buf[i] = nondet_uchar();
    for (unsigned i = 0; i < sizeof d; ++i) ((unsigned char*)&d)[i] = nondet_uchar();
    polyseed_status st = polyseed_data_load(buf, &d);
    int wf = buf[0] == 'P' && buf[1] == 'O' && buf[2] == 'L' && buf[3] == 'Y' && buf[4] == 'S' && buf[5] == 'E' && buf[6] == 'E' && buf[7] == 'D'
          && buf[9] < 128 && buf[28] < 64 && buf[29] == 0xFF && (buf[31] >> 3) == 14;
    __CPROVER_assert((st == POLYSEED_OK) == (wf != 0), "accepted iff well-formed image");
    __CPROVER_assert(st == POLYSEED_OK || st == POLYSEED_ERR_FORMAT, "only OK or FORMAT");
    if (st == POLYSEED_OK) {
        unsigned v1 = buf[8] | (buf[9] << 8), v2 = buf[30] | (buf[31] << 8);
        __CPROVER_assert(d.birthday == (v1 & 1023) && d.features == (v1 >> 10) && d.checksum == (v2 & 2047), "fields");
        for (int i = 0; i < 19; ++i) __CPROVER_assert(d.secret[i] == buf[10 + i], "secret");
        for (int i = 19; i < 32; ++i) __CPROVER_assert(d.secret[i] == 0, "padding");
        polyseed_storage out;
        polyseed_data_store(&d, out);
        for (int i = 0; i < 32; ++i) __CPROVER_assert(out[i] == buf[i], "store(load(buf)) = buf");
    }
}

void check_birthday(void) {
    uint64_t t = nondet_ull();
    unsigned b = birthday_encode(t);
    uint64_t E = 1635768000ull, S = 2629746ull;
    __CPROVER_assert(b < 1024, "range");
    if (t < E || t == (uint64_t)-1) __CPROVER_assert(b == 0, "clamped");
    else {
        __CPROVER_assert(birthday_decode(b) <= t, "never in the future");
        if (t < E + 1024 * S) __CPROVER_assert(t < birthday_decode(b) + S, "within one month");
    }
    __CPROVER_assert(birthday_decode(b) == E + (uint64_t)b * S, "decode form");
}

void check_features(void) {
    unsigned m = nondet_uint(), f = nondet_uint();
    __CPROVER_assume(f < 32);
    int n = polyseed_enable_features(m);
    __CPROVER_assert(n == (int)((m & 1) + ((m >> 1) & 1) + ((m >> 2) & 1)), "count");
    int sup = polyseed_features_supported(f);
    __CPROVER_assert((sup != 0) == ((f & ~((m & 7) | 16) & 31) == 0), "supported iff no bit outside the mask and the encryption bit");
}
